#!/usr/bin/env python3
"""every directed input family of every contract, run against its oracle on the UNCHANGED tree: none may be flagged
(a directed input that fails on correct code would turn an unrelated open obligation into a false alarm).
usage:  python3-vt tools/check_directed.py dump /path/fams.json ;  /venv/bin/python tools/check_directed.py run /path/fams.json"""
import json
import os
import sys
VERIF = os.path.dirname(os.path.dirname(os.path.abspath(__file__)))
sys.path.insert(0, VERIF)


def dump(path):
    from pyvc.contracts import REG
    import importlib
    for f in sorted(os.listdir(os.path.join(VERIF, 'contracts'))):
        if f.endswith('.py') and f != '__init__.py':
            importlib.import_module('contracts.' + f[:-3])
    out, seen = [], set()
    for q, cases in REG.by_name.items():
        for c in cases:
            d = getattr(c, 'directed', None)
            if not d:
                continue
            fam = d() if callable(d) else d
            for name, args in fam:
                key = json.dumps([name, args], sort_keys=True, default=str)
                if key not in seen:
                    seen.add(key)
                    out.append([q, name, args])
    json.dump(out, open(path, 'w'))
    print('%d distinct directed inputs of %d contracts' % (len(out), len({q for q, _, _ in out})))


def run(path):
    import importlib
    for f in sorted(os.listdir(os.path.join(VERIF, 'rt'))):
        if f.startswith('oracles') and f.endswith('.py'):
            importlib.import_module('rt.' + f[:-3])
    from rt.oracles import ORACLES
    bad = 0
    items = json.load(open(path))
    for q, name, args in items:
        try:
            out = ORACLES[name](**args)
        except Exception as e:      # an oracle that cannot take the input: also a defect of the family
            out = ['oracle raised %r' % (e,)]
        if out:
            bad += 1
            print('FLAGGED on the unchanged tree:', q, name, json.dumps(args)[:200], '->', str(out[0])[:200])
    print('%d inputs, %d flagged' % (len(items), bad))
    return 1 if bad else 0


if __name__ == '__main__':
    sys.exit(dump(sys.argv[2]) if sys.argv[1] == 'dump' else run(sys.argv[2]))
