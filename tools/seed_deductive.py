#!/usr/bin/env python3
"""for every kept seed: does the DEDUCTIVE part alone notice it? (failed/undecided obligations on the patched tree)
writes seeded/DEDUCTIVE.json;  with --full: the complete quick check of the seed's property, writes seeded/FULL.json
(exit 1 = detected with a VIOLATION line)"""
import json, os, subprocess, sys, tempfile, shutil
from concurrent.futures import ThreadPoolExecutor
VERIF = os.path.dirname(os.path.dirname(os.path.abspath(__file__)))
FULL = '--full' in sys.argv            # complete quick check (deductive + bounded) instead of the deductive part alone


def one(sid):
    d = os.path.join(VERIF, 'seeded', sid)
    pid = sid.split('-')[0]
    tmp = tempfile.mkdtemp(prefix='seedded_')
    try:
        subprocess.run('git -C /repo archive HEAD csep | tar -x -C %s' % tmp, shell=True, check=True)
        p = subprocess.run('patch -p1 -s < %s' % os.path.join(d, 'patch.diff'), shell=True, cwd=tmp, capture_output=True, text=True)
        if p.returncode != 0:
            return sid, {'error': 'patch does not apply: ' + p.stdout[-200:]}
        try:
            r = subprocess.run('./check %s %s' % (pid, '--tier quick' if FULL else '--only deductive'), shell=True, cwd=VERIF,
                               env=dict(os.environ, PYVC_REPO=tmp), capture_output=True, text=True, timeout=3600)
        except subprocess.TimeoutExpired:
            return sid, {'exit': None, 'error': 'the check did not end within an hour'}
        lines = [l for l in r.stdout.splitlines() if 'condarc' not in l]
        return sid, {'exit': r.returncode, 'violated': [l.strip()[:160] for l in lines if l.strip().startswith('violated:')][:3],
                     'undecided': [l.strip()[:220] for l in lines if 'UNDECIDED' in l][:3],
                     'summary': [l for l in lines if l.startswith(pid + ' tier=')][:1]}
    finally:
        shutil.rmtree(tmp, ignore_errors=True)


def main():
    sids = sorted(x for x in os.listdir(os.path.join(VERIF, 'seeded')) if os.path.isfile(os.path.join(VERIF, 'seeded', x, 'patch.diff')))
    names = [a for a in sys.argv[1:] if not a.startswith('--')]
    if names:
        sids = [s for s in sids if s in names]
    with ThreadPoolExecutor(max_workers=4) as ex:
        res = dict(ex.map(one, sids))
    out = os.path.join(VERIF, 'seeded', 'FULL.json' if FULL else 'DEDUCTIVE.json')
    old = json.load(open(out)) if os.path.exists(out) else {}
    old.update(res)
    json.dump(old, open(out, 'w'), indent=1, sort_keys=True)
    for s in sorted(res):
        r = res[s]
        print(s, r.get('exit'), (r.get('violated') or r.get('undecided') or [''])[0][:150])


if __name__ == '__main__':
    main()
