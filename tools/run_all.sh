#!/bin/sh
# run every check at the given tier; prints one summary line per property
cd "$(dirname "$0")/.."
tier=${1:-quick}
for p in C01 C02 C03 C04 C05 C06 C07 C08 C09 C10 C11 C12 C13 C14 C15 C16 C17 C18 C19 C20; do
  start=$(date +%s)
  ./check $p --tier $tier > /tmp/run_all_$p.log 2>&1
  rc=$?
  end=$(date +%s)
  echo "$p exit=$rc wall=$((end-start))s $(grep "^$p tier=" /tmp/run_all_$p.log | tail -1)"
  grep -E "^VIOLATION|UNDECIDED|KNOWN-FINDING" /tmp/run_all_$p.log | cut -c1-200 | head -5
done
