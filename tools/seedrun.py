#!/usr/bin/env python3
"""Confirm a seeded property-breaking change and run the checks against it.

  tools/seedrun.py <seed_dir> [--props C06,C05] [--inplace]

1. confirmation in a scratch worktree of /repo HEAD (created under /tmp, removed afterwards): demo.py passes on the
   unchanged tree and fails with patch.diff applied; the set of passing tests of the repository's suite is unchanged;
2. the seed is kept as /verif/seeded/<id>/ (patch.diff, demo.py, meta.json + confirmation record);
3. the property's check (and any further --props) is run against the patched tree - by default on the scratch worktree
   through PYVC_REPO, with --inplace by `git -C /repo apply` + `git -C /repo checkout -- .` - and the outcome is
   appended to /verif/seeded/RESULTS.json.
"""
import json
import os
import shutil
import subprocess
import sys
import time

VERIF = os.path.dirname(os.path.dirname(os.path.abspath(__file__)))
PY = '/venv/bin/python'


def sh(cmd, cwd=None, env=None, timeout=3600):
    p = subprocess.run(cmd, shell=True, cwd=cwd, env=env, capture_output=True, text=True, timeout=timeout)
    return p.returncode, p.stdout + p.stderr


def passing_tests(wt):
    env = dict(os.environ, PYTHONPATH=wt, PYTHONWARNINGS='ignore', MPLBACKEND='Agg')
    junit = os.path.join(wt, '_junit.xml')
    sh('%s -m pytest -q -p no:cacheprovider --timeout=900 --continue-on-collection-errors --junitxml=%s tests' % (PY, junit), cwd=wt, env=env)
    import xml.etree.ElementTree as ET
    ok = set()
    try:
        for tc in ET.parse(junit).iter('testcase'):
            if not any(ch.tag in ('failure', 'error', 'skipped') for ch in tc):
                ok.add(tc.get('classname') + '::' + tc.get('name'))
    finally:
        if os.path.exists(junit):
            os.remove(junit)
    return ok


def aggregate():
    resd = os.path.join(VERIF, 'seeded', 'results')
    allr = []
    for f in sorted(os.listdir(resd)):
        try:
            allr.append(json.load(open(os.path.join(resd, f))))
        except Exception:
            pass
    json.dump(allr, open(os.path.join(VERIF, 'seeded', 'RESULTS.json'), 'w'), indent=1)


def main():
    seed = os.path.abspath(sys.argv[1])
    args = sys.argv[2:]
    inplace = '--inplace' in args
    meta = json.load(open(os.path.join(seed, 'meta.json')))
    pid = meta['property']
    k = os.path.basename(seed.rstrip('/'))
    sid = '%s-%s' % (pid, k)
    props = [pid]
    for a in args:
        if a.startswith('--props'):
            props = a.split('=', 1)[1].split(',') if '=' in a else props
    keep = os.path.join(VERIF, 'seeded', sid)
    wt = '/tmp/seedwt_%s_%d' % (sid, os.getpid())
    own_wt = None
    for a in args:
        if a.startswith('--wt='):
            own_wt = a.split('=', 1)[1]     # confirm in the worktree the demo was written for (some demos assert their path)
            wt = own_wt
    rec = {'seed': sid, 'property': pid, 'summary': meta.get('summary'), 'needs': meta.get('needs'), 'at': time.strftime('%Y-%m-%dT%H:%M:%SZ', time.gmtime())}
    if own_wt is None:
        sh('git -C /repo worktree add --detach %s HEAD' % wt)
    else:
        sh('git checkout -- csep', cwd=wt)
    try:
        env = dict(os.environ, PYTHONPATH=wt, PYTHONWARNINGS='ignore', MPLBACKEND='Agg')
        os.makedirs(os.path.join(wt, '_seed', k), exist_ok=True)
        for f in ('patch.diff', 'demo.py', 'meta.json'):
            if os.path.abspath(os.path.join(seed, f)) != os.path.abspath(os.path.join(wt, '_seed', k, f)):
                shutil.copy(os.path.join(seed, f), os.path.join(wt, '_seed', k, f))
        demo = '%s _seed/%s/demo.py' % (PY, k)
        rc0, out0 = sh(demo, cwd=wt, env=env)
        base = passing_tests(wt)
        rca, outa = sh('git apply _seed/%s/patch.diff' % k, cwd=wt)
        rec['patch_applies'] = rca == 0
        rc1, out1 = sh(demo, cwd=wt, env=env)
        mut = passing_tests(wt)
        rec['confirm'] = {'demo_unchanged_exit': rc0, 'demo_patched_exit': rc1, 'demo_patched_tail': out1.strip().splitlines()[-3:],
                          'tests_passing_unchanged': len(base), 'tests_lost_with_patch': sorted(base - mut)}
        rec['confirmed'] = bool(rca == 0 and rc0 == 0 and rc1 != 0 and not (base - mut))
        if rec['confirmed']:
            os.makedirs(keep, exist_ok=True)
            for f in ('patch.diff', 'demo.py'):
                shutil.copy(os.path.join(seed, f), os.path.join(keep, f))
            m2 = dict(meta)
            m2['confirmation'] = rec['confirm']
            m2['what_i_ran'] = ['demo.py on unchanged and patched scratch worktree', 'repository test suite on both (passing sets compared)',
                                './check <property> against the patched tree']
            json.dump(m2, open(os.path.join(keep, 'meta.json'), 'w'), indent=1)
        # run the checks against the patched tree
        rec['checks'] = {}
        for p in props:
            t0 = time.time()
            if inplace:
                sh('git -C /repo apply %s' % os.path.join(seed, 'patch.diff'))
                try:
                    rc, out = sh('./check %s --tier quick' % p, cwd=VERIF, timeout=3600)
                finally:
                    sh('git -C /repo checkout -- .')
            else:
                rc, out = sh('./check %s --tier quick' % p, cwd=VERIF, env=dict(os.environ, PYVC_REPO=wt), timeout=3600)
            lines = [l for l in out.splitlines() if 'condarc' not in l]
            rec['checks'][p] = {'exit': rc, 'wall_s': round(time.time() - t0, 1),
                                'violation_lines': [l for l in lines if l.startswith('VIOLATION')][:3],
                                'violated': [l.strip() for l in lines if l.strip().startswith('violated:')][:4],
                                'summary': [l for l in lines if l.startswith(p + ' tier=')][:1],
                                'undecided': [l.strip()[:200] for l in lines if 'UNDECIDED' in l][:3]}
        rec['detected'] = any(v['exit'] == 1 for v in rec['checks'].values())
    finally:
        if own_wt is None:
            sh('git -C /repo worktree remove --force %s' % wt)
        else:
            sh('git checkout -- csep', cwd=wt)
    resd = os.path.join(VERIF, 'seeded', 'results')
    os.makedirs(resd, exist_ok=True)
    json.dump(rec, open(os.path.join(resd, sid + '.json'), 'w'), indent=1)
    aggregate()
    print(json.dumps({k_: rec[k_] for k_ in ('seed', 'confirmed', 'detected')}), {p: (v['exit'], v['violated'][:1]) for p, v in rec['checks'].items()})


if __name__ == '__main__':
    main()
