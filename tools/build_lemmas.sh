#!/bin/sh
# build_lemmas.sh -- machine-check the Lean lemma library under /verif/lemmas.
#
#   * runs `lean` on every /verif/lemmas/*.lean (offline; Mathlib is pre-compiled
#     and on the default search path, no lake project / toolchain file needed);
#   * rejects any file that does not check, or that contains the tokens `sorry` /
#     `admit`, or a line starting with `axiom`;
#   * additionally audits `#print axioms` of every `theorem L*` (on a temporary copy
#     of the file) and rejects `sorryAx` or any axiom other than the three standard
#     ones (propext, Classical.choice, Quot.sound);
#   * prints one line per theorem and writes /verif/lemmas/CHECKED.json.
#
# Exit status: 0 iff everything checked.  Safe to run repeatedly.
# Set LEMMAS_NO_AUDIT=1 to skip the #print axioms audit (halves the run time).

DIR=${LEMMAS_DIR:-/verif/lemmas}
OUT="$DIR/CHECKED.json"
LEAN=${LEAN:-lean}

TMP=$(mktemp -d "${TMPDIR:-/tmp}/build_lemmas.XXXXXX") || exit 1
trap 'rm -rf "$TMP"' EXIT INT TERM

ok=1
files_json=""
thms_json=""

json_escape() { printf '%s' "$1" | sed 's/\\/\\\\/g; s/"/\\"/g'; }

LEANV=$("$LEAN" --version 2>/dev/null | head -n 1)
if [ -z "$LEANV" ]; then
    echo "FAIL: cannot run '$LEAN --version'" >&2
    ok=0
fi

found=0
for f in "$DIR"/*.lean; do
    [ -f "$f" ] || continue
    found=1
    base=$(basename "$f")
    echo "== $base"

    # --- forbidden tokens ---------------------------------------------------
    if grep -n -w -e sorry -e admit "$f" >"$TMP/tok" 2>/dev/null; then
        echo "FAIL: $base contains sorry/admit:" >&2
        cat "$TMP/tok" >&2
        ok=0
    fi
    if grep -n '^axiom' "$f" >"$TMP/tok" 2>/dev/null; then
        echo "FAIL: $base declares an axiom:" >&2
        cat "$TMP/tok" >&2
        ok=0
    fi

    # --- type-check ---------------------------------------------------------
    if "$LEAN" "$f" >"$TMP/log" 2>&1; then
        if grep -q -e ': error' -e "declaration uses 'sorry'" "$TMP/log"; then
            echo "FAIL: $base: lean reported problems:" >&2
            cat "$TMP/log" >&2
            ok=0
        fi
    else
        echo "FAIL: $base does not check:" >&2
        cat "$TMP/log" >&2
        ok=0
    fi

    # --- theorem names ------------------------------------------------------
    names=$(grep -o 'theorem L[A-Za-z0-9_]*' "$f" | sed 's/^theorem //')
    for t in $names; do
        echo "theorem $t  ($base)"
        thms_json="$thms_json${thms_json:+, }\"$t\""
    done

    # --- axiom audit (on a temporary copy) ----------------------------------
    if [ -z "$LEMMAS_NO_AUDIT" ] && [ -n "$names" ]; then
        ns=$(sed -n 's/^namespace[ ]*\([A-Za-z0-9_.]*\).*/\1/p' "$f" | head -n 1)
        mkdir -p "$TMP/audit"
        cp "$f" "$TMP/audit/$base"
        for t in $names; do
            if [ -n "$ns" ]; then
                printf '\n#print axioms %s.%s\n' "$ns" "$t" >>"$TMP/audit/$base"
            else
                printf '\n#print axioms %s\n' "$t" >>"$TMP/audit/$base"
            fi
        done
        if "$LEAN" "$TMP/audit/$base" >"$TMP/alog" 2>&1; then
            # collect every axiom name mentioned in the "depends on axioms: [...]" reports
            bad=$(awk '{ s = s " " $0 }
                       END { while (match(s, /depends on axioms: \[[^]]*\]/)) {
                                 print substr(s, RSTART + 20, RLENGTH - 21)
                                 s = substr(s, RSTART + RLENGTH) } }' "$TMP/alog" \
                  | tr ',' '\n' | sed 's/^ *//; s/ *$//' | sort -u \
                  | grep -v -x -e propext -e Classical.choice -e Quot.sound -e '')
            if [ -n "$bad" ]; then
                echo "FAIL: $base: non-standard axioms used: $bad" >&2
                ok=0
            fi
        else
            echo "FAIL: $base: axiom audit did not check:" >&2
            cat "$TMP/alog" >&2
            ok=0
        fi
    fi

    sha=$(sha256sum "$f" | cut -d ' ' -f 1)
    files_json="$files_json${files_json:+, }\"$base\": \"$sha\""
done

if [ "$found" = 0 ]; then
    echo "FAIL: no .lean files under $DIR" >&2
    ok=0
fi

if [ "$ok" = 1 ]; then okj=true; else okj=false; fi

printf '{"lean": "%s", "files": {%s}, "theorems": [%s], "ok": %s}\n' \
    "$(json_escape "$LEANV")" "$files_json" "$thms_json" "$okj" >"$OUT.tmp" \
    && mv "$OUT.tmp" "$OUT"

if [ "$ok" = 1 ]; then
    echo "OK: all lemma files checked; wrote $OUT"
    exit 0
else
    echo "FAILED: see messages above; wrote $OUT with ok=false" >&2
    exit 1
fi
