#!/bin/sh
# second batch of seeded breaks (scratch clones under /scratch/wt2/<Cxx>/_seed/{3,4}): confirm each and run its property's check
cd "$(dirname "$0")/.."
ls -d /scratch/wt2/C*/_seed/[34] | while read d; do
  [ -f "$d/meta.json" ] && [ -f "$d/patch.diff" ] || continue
  pid=$(python3 -c "import json;print(json.load(open('$d/meta.json'))['property'])" 2>/dev/null)
  k=$(basename $d)
  [ -f seeded/results/$pid-$k.json ] && continue
  echo $d
done | xargs -P 4 -I{} sh -c 'python3 tools/seedrun.py {} 2>&1 | grep -v condarc | tail -1'
