#!/usr/bin/env python3
"""Regenerates MANIFEST.json from props/*.py (claimed properties) and NOT_APPLICABLE below."""
import importlib
import json
import os
import sys

ROOT = os.path.dirname(os.path.dirname(os.path.abspath(__file__)))
sys.path.insert(0, ROOT)

NOT_BUILT = 'check not built yet in this round; will be claimed once its obligations discharge on the unchanged tree'
NOT_APPLICABLE = {}
HOLD = {}

BASELINE = ('cd /repo && /venv/bin/python -m pytest -ra -q -p no:cacheprovider --timeout=900 '
            '--continue-on-collection-errors')


def main():
    props = [json.loads(l)['id'] for l in open(os.path.join(ROOT, 'properties.jsonl'))]
    checks, na = [], []
    for pid in props:
        path = os.path.join(ROOT, 'props', pid + '.py')
        if pid in HOLD:
            na.append({'property_id': pid, 'reason': HOLD[pid]})
            continue
        if os.path.exists(path) and pid not in NOT_APPLICABLE:
            m = importlib.import_module('props.' + pid)
            if getattr(m, 'CLAIMED', True):
                checks.append({
                    'property_id': pid,
                    'quick_cmd': './check %s --tier quick' % pid,
                    'thorough_cmd': './check %s --tier thorough' % pid,
                    'evidence_file': 'evidence/%s.json' % pid,
                    'replay_cmd_template': './check replay {path}',
                    'engine': 'pyvc',
                    'level_claimed': {'category': m.LEVEL, 'text': m.LEVEL_TEXT, 'design_ref': 'DESIGN.md section 5 (%s)' % pid},
                    'level_note': m.LEVEL_NOTE,
                    'technique': m.TECHNIQUE,
                })
                continue
        na.append({'property_id': pid, 'reason': NOT_APPLICABLE.get(pid, NOT_BUILT)})
    man = {
        'version': 1,
        'setup_cmd': 'sh tools/setup.sh',
        'hooks': {'guard': 'PYCSEP_VERIF',
                  'enable': 'no hooks: contracts are sidecar files under /verif/contracts; the checks parse the working tree of /repo, nothing in /repo is patched for verification',
                  'baseline_off_cmd': BASELINE, 'source_commits': [], 'add_only': True},
        'engines': [{'name': 'pyvc', 'path': 'pyvc/', 'serves_properties': [c['property_id'] for c in checks],
                     'kind_free_text': 'contract-based deductive verification: AST->VC symbolic executor over the real /repo sources, '
                                       'sidecar contracts, z3 5.1 back end (+ Lean lemma library), native replay of counter-models, '
                                       'bounded run-time contract stand-ins (labelled)'}],
        'checks': checks,
        'notes': 'exit codes: 0 held, 1 violation (VIOLATION line), 2 undecided, 3 checker crash; see DESIGN.md',
        'not_applicable': na,
    }
    with open(os.path.join(ROOT, 'MANIFEST.json'), 'w') as fh:
        json.dump(man, fh, indent=1)
    print('checks:', [c['property_id'] for c in checks], 'n/a:', len(na))


if __name__ == '__main__':
    main()
