#!/bin/sh
cd "$(dirname "$0")/.."
ls -d /tmp/wt/C*/_seed/[12] | while read d; do
  [ -f "$d/meta.json" ] && [ -f "$d/patch.diff" ] || continue
  pid=$(python3 -c "import json;print(json.load(open('$d/meta.json'))['property'])" 2>/dev/null)
  k=$(basename $d)
  [ -f seeded/results/$pid-$k.json ] && continue
  echo $d
done | xargs -P 5 -I{} sh -c 'python3 tools/seedrun.py {} 2>&1 | grep -v condarc | tail -1'
