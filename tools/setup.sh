#!/bin/sh
# offline setup: verify the tooling the checks need is importable; nothing is downloaded
set -e
cd "$(dirname "$0")/.."
python3-vt -c "import z3, sys; assert z3.get_version_string().startswith('5.'), z3.get_version_string()"
command -v z3-new >/dev/null
/venv/bin/python -c "import numpy, scipy"
mkdir -p evidence replays
echo setup-ok
