#!/bin/sh
# offline setup: verify the tooling the checks need is importable; nothing is downloaded
set -e
cd "$(dirname "$0")/.."
python3-vt -c "import z3, sys; assert z3.get_version_string().startswith('5.'), z3.get_version_string()"
command -v z3-new >/dev/null
/venv/bin/python -c "import numpy, scipy"
mkdir -p evidence replays
# lemma library: Lean 4 + Mathlib re-check of the counting/summation lemmas handed to the SMT solver as axioms
# (cold start of `import Mathlib` takes a few minutes); writes lemmas/CHECKED.json
sh tools/build_lemmas.sh >/dev/null 2>&1 && echo lemmas-checked || echo 'lemmas NOT re-checked (lean unavailable?): the checks then list the lemma library as unchecked'
echo setup-ok
