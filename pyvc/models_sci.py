"""scipy / numpy.ma models (assumed contracts, DESIGN 3)."""
import ast

import z3

from .core import Arr, Opaque, PyRaise, Unsupported, builtin_exc, is_sym, ite, rv, simp, sort_kind, sym_floor, to_real, to_z3
from .lib import coerce_elem, model, method, MODELS, METHODS, FLOAT_DT, EXP, LOG, SQRT, Lib, sum_term, flat_view

R, I_ = z3.RealSort(), z3.IntSort()
PCDF = z3.Function('poisson_cdf', I_, R, R)          # P(N <= k), N ~ Poisson(mu)
NBCDF = z3.Function('nbinom_cdf', I_, R, R, R)       # P(N <= k), N ~ NB(n, p)
TPPF = z3.Function('t_ppf', R, R, R)
NORMSF = z3.Function('norm_sf', R, R)


def dist_axioms():
    k, k2 = z3.Ints('k!d k2!d')
    mu, n, p = z3.Reals('mu!d n!d p!d')
    return [
        z3.ForAll([k, mu], z3.And(PCDF(k, mu) >= 0, PCDF(k, mu) <= 1), patterns=[PCDF(k, mu)]),
        z3.ForAll([k, mu], z3.Implies(k < 0, PCDF(k, mu) == 0), patterns=[PCDF(k, mu)]),
        z3.ForAll([k, k2, mu], z3.Implies(k <= k2, PCDF(k, mu) <= PCDF(k2, mu)),
                  patterns=[z3.MultiPattern(PCDF(k, mu), PCDF(k2, mu))]),
        z3.ForAll([mu], PCDF(0, mu) == EXP(-mu), patterns=[PCDF(0, mu)]),
        z3.ForAll([k, n, p], z3.And(NBCDF(k, n, p) >= 0, NBCDF(k, n, p) <= 1), patterns=[NBCDF(k, n, p)]),
        z3.ForAll([k, n, p], z3.Implies(k < 0, NBCDF(k, n, p) == 0), patterns=[NBCDF(k, n, p)]),
        z3.ForAll([k, k2, n, p], z3.Implies(k <= k2, NBCDF(k, n, p) <= NBCDF(k2, n, p)),
                  patterns=[z3.MultiPattern(NBCDF(k, n, p), NBCDF(k2, n, p))]),
    ]


def _lift(L, x, fn, dtype='float64'):
    if isinstance(x, Arr):
        return L.lift1(fn, x, dtype)
    return fn(x)


@model('scipy.stats.poisson.cdf', 'scipy.stats.distributions.poisson.cdf')
def _poisson_cdf(L, x, mu, loc=0):
    if loc != 0:
        raise Unsupported('poisson.cdf loc')
    L.I.used_axioms.add('poisson.cdf')

    def one(xx, m):
        return PCDF(to_z3(sym_floor(L.ctx, to_real(xx))), to_real(m))
    if isinstance(x, Arr) or isinstance(mu, Arr):
        return L.lift2(one, x, mu, 'float64')
    return one(x, mu)


@model('scipy.stats.nbinom.cdf')
def _nbinom_cdf(L, x, n, p, loc=0):
    if not (isinstance(loc, int) and loc == 0):
        raise Unsupported('nbinom.cdf loc')
    L.I.used_axioms.add('nbinom.cdf')
    if any(isinstance(v, Arr) for v in (x, n, p)):
        raise Unsupported('nbinom.cdf on arrays')
    return NBCDF(to_z3(sym_floor(L.ctx, to_real(x))), to_real(n), to_real(p))


@model('scipy.stats.t.ppf')
def _t_ppf(L, q, df):
    return TPPF(to_real(q), to_real(df))


@model('scipy.stats.distributions.norm.sf', 'scipy.stats.norm.sf')
def _norm_sf(L, x):
    """survival function of the standard normal: in [0,1], at most 1/2 for a non-negative argument (assumed facts)"""
    v = to_real(x)
    L.ctx.fact(z3.And(NORMSF(v) >= 0, NORMSF(v) <= 1, z3.Implies(v >= 0, NORMSF(v) * 2 <= 1)))
    return NORMSF(v)


# ---------------------------------------------------------------- numpy.ma
class MArr(Arr):
    """masked array: data Arr + mask Arr; data at masked positions is unspecified after
    arithmetic (the proof may not depend on it)"""

    def __init__(self, data, mask):
        Arr.__init__(self, data.shape, data.f, data.dtype)
        self.mask = mask

    def snapshot(self):
        f = self.f
        m = MArr(Arr(self.shape, f, self.dtype), self.mask.snapshot())
        return m


@model('numpy.ma.masked_where')
def _masked_where(L, cond, a, copy=True):
    a = L.as_arr(a)
    cond = L.as_arr(cond)
    L._bshape(a, cond)
    r = MArr(a.snapshot(), cond.snapshot())
    fb = getattr(a, 'flat_backing', None)
    if fb is not None:
        r.flat_backing = fb.snapshot()        # same storage order: the data below the mask are the original values
    return r


def wrap_masked(L):
    """make lifted operations propagate masks"""
    orig1, orig2 = Lib.lift1, Lib.lift2

    def lift1(self, fn, a, dtype):
        r = orig1(self, fn, a, dtype)
        if isinstance(a, MArr):
            return _havoc_masked(self, r, a.mask)
        return r

    def lift2(self, fn, a, b, dtype):
        r = orig2(self, fn, a, b, dtype)
        ms = [x.mask for x in (a, b) if isinstance(x, MArr)]
        if ms:
            m = ms[0]
            if len(ms) == 2:
                m0, m1 = ms
                m = Arr(m0.shape, lambda ix: z3.Or(to_z3(m0.f(ix)), to_z3(m1.f(ix))), 'bool')
            return _havoc_masked(self, r, m)
        return r
    Lib.lift1, Lib.lift2 = lift1, lift2


def _havoc_masked(L, r, mask):
    """values under the mask become unspecified (one uninterpreted function per operation)"""
    ctx = L.ctx
    es = z3.RealSort() if r.dtype in FLOAT_DT else (z3.IntSort() if r.dtype == 'int64' else z3.BoolSort())
    H = ctx.fresh_fun('masked', *([z3.IntSort()] * max(1, r.ndim) + [es]))
    f = r.f
    mf = mask.f

    def g(ix):
        hv = H(*[to_z3(i) for i in ix]) if ix else H(z3.IntVal(0))
        return ite(to_z3(mf(ix)), hv, f(ix))
    return MArr(Arr(r.shape, g, r.dtype), mask)


wrap_masked(None)


@method('Arr', 'tolist')
def _tolist(L, a):
    """a 1-d array of symbolic length as a python list of symbolic length; a structured array gives one tuple per record, fields
    in dtype order (the order of the field dictionary)"""
    from .core import SymList
    if a.ndim == 1 and a.fields is not None:
        cols = list(a.fields.values())
        return SymList(a.shape[0], lambda i: tuple(col.f((to_z3(i),)) for col in cols), 'records')
    if a.ndim == 1 and not isinstance(simp(a.shape[0]), int):
        return SymList(a.shape[0], lambda i: a.f((to_z3(i),)), 'elements')
    raise Unsupported('tolist of this array')


@model('numpy.argmax')
def _argmax(L, a, axis=None):
    """first index of the maximum (for a boolean array: the first True, 0 if there is none)"""
    a = L.as_arr(a)
    if a.ndim != 1:
        raise Unsupported('argmax rank')
    ctx = L.ctx
    n = to_z3(a.shape[0])
    if simp(n == 0) is True or ctx.branch(n == 0):
        raise PyRaise(builtin_exc('ValueError'), 'attempt to get argmax of an empty sequence')
    k = ctx.fresh_int('argmax')
    j = z3.Int('j!am')
    ctx.fact(z3.And(0 <= k, k < n))
    if a.dtype == 'bool':
        ak = to_z3(a.f((k,)))
        aj = to_z3(a.f((j,)))
        ctx.fact(z3.ForAll([j], z3.Implies(z3.And(0 <= j, j < k), z3.Not(aj))))
        ctx.fact(z3.Implies(z3.Not(ak), z3.And(k == 0, z3.ForAll([j], z3.Implies(z3.And(0 <= j, j < n), z3.Not(aj))))))
    else:
        ak = to_real(a.f((k,)))
        aj = to_real(a.f((j,)))
        ctx.fact(z3.ForAll([j], z3.Implies(z3.And(0 <= j, j < n), aj <= ak)))
        ctx.fact(z3.ForAll([j], z3.Implies(z3.And(0 <= j, j < k), aj < ak)))
    return k


METHODS[('Arr', 'argmax')] = lambda L, a, axis=None: _argmax(L, a, axis)


# ---------------------------------------------------------------- numpy.random: explicit generator state
RNG = z3.DeclareSort('RNG')
RNG0 = z3.Const('rng_state_at_entry', RNG)                  # the unknown global state when the function is entered
SEEDED = z3.Function('rng_seeded', z3.IntSort(), RNG)       # numpy.random.seed(s)
RNG_NEXT = z3.Function('rng_next', RNG, RNG)                # state after one draw call
RAND = z3.Function('rng_uniform', RNG, z3.IntSort(), R)     # t-th number of a rand(n) / uniform call in this state
POISSON_DRAW = z3.Function('rng_poisson', RNG, R, I_)       # numpy.random.poisson(lam) in this state


def rng_state(L):
    return L.ctx.ghost.setdefault('rng', RNG0)


def rng_advance(L):
    L.ctx.ghost['rng'] = RNG_NEXT(rng_state(L))
    L.ctx.ghost['rng_draws'] = L.ctx.ghost.get('rng_draws', 0) + 1


@model('numpy.random.seed')
def _np_seed(L, s=None):
    if s is None:
        L.ctx.ghost['rng'] = L.ctx.fresh('rng_os_entropy', RNG)
        return None
    L.ctx.ghost['rng'] = SEEDED(to_z3(s))
    return None


@model('numpy.random.rand')
def _np_rand(L, *shape):
    if len(shape) != 1:
        raise Unsupported('rand of rank != 1')
    st = rng_state(L)
    n = shape[0]
    if is_sym(n) and L.ctx.branch(to_z3(n) < 0):
        raise PyRaise(builtin_exc('ValueError'), 'negative dimensions are not allowed')
    t = z3.Int('t!rand')
    L.ctx.fact(z3.ForAll([t], z3.And(RAND(st, t) >= 0, RAND(st, t) < 1), patterns=[RAND(st, t)]))
    rng_advance(L)
    a = Arr((n,), lambda ix: RAND(st, to_z3(ix[0])), 'float64')
    a.ghost['rng_state'] = st
    return a


@model('numpy.random.uniform')
def _np_uniform(L, low=0.0, high=1.0, size=None):
    if size is not None or not (low in (0, 0.0) and high in (1, 1.0)):
        raise Unsupported('uniform with size/range')
    st = rng_state(L)
    L.ctx.fact(z3.And(RAND(st, 0) >= 0, RAND(st, 0) < 1))
    rng_advance(L)
    return RAND(st, z3.IntVal(0))


@model('numpy.random.poisson')
def _np_poisson(L, lam=1.0, size=None):
    if size is not None:
        raise Unsupported('poisson with size')
    st = rng_state(L)
    v = POISSON_DRAW(st, to_real(lam))
    L.ctx.fact(v >= 0)
    rng_advance(L)
    return v


# ---------------------------------------------------------------- more numpy.ma / numpy.unique
@model('numpy.ma.filled')
def _ma_filled(L, a, fill_value=None):
    """data with the masked entries replaced by fill_value"""
    if not isinstance(a, MArr):
        return L.as_arr(a)
    if fill_value is None:
        raise Unsupported('numpy.ma.filled without fill value')
    f, mf = a.f, a.mask.f
    fv = fill_value
    r = Arr(a.shape, lambda ix: ite(to_z3(mf(ix)), coerce_elem(fv, a.dtype), f(ix)), a.dtype)
    fb = getattr(a, 'flat_backing', None)
    mb = getattr(a.mask, 'flat_backing', None)
    if fb is not None and mb is not None:
        r.flat_backing = Arr(fb.shape, lambda ix: ite(to_z3(mb.f(ix)), coerce_elem(fv, a.dtype), fb.f(ix)), a.dtype)
    return r


def _marr_getattr(L, a, name):
    if name == 'data':
        # the data below the mask: for a masked_where() result these are the original values
        d = Arr(a.shape, a.f, a.dtype)
        for k in ('flat_backing',):
            if hasattr(a, k):
                setattr(d, k, getattr(a, k))
        return d
    if name == 'mask':
        return a.mask
    return None


_orig_arr_getattr = Lib.arr_getattr


def _arr_getattr(self, a, name):
    if isinstance(a, MArr):
        r = _marr_getattr(self, a, name)
        if r is not None:
            return r
    return _orig_arr_getattr(self, a, name)


Lib.arr_getattr = _arr_getattr


@model('numpy.unique')
def _np_unique(L, a, return_index=False, return_inverse=False, return_counts=False, axis=None, **kw):
    """only the case the evaluations use without counts: the index array of numpy.nonzero() (a 1-tuple), whose entries are
    distinct and ascending by construction - unique() is then the identity on it"""
    if return_index or return_inverse or return_counts or axis is not None or kw:
        raise Unsupported('numpy.unique with options')
    if isinstance(a, tuple) and len(a) == 1:
        a = a[0]
    if isinstance(a, Arr) and a.ndim == 1 and a.ghost.get('selection') is not None and a.ghost.get('index_selection'):
        return a
    raise Unsupported('numpy.unique of a general array')


# ---------------------------------------------------------------- pieces of the Wilcoxon signed-rank kernel
from .lib import CNT, ok_patterns      # noqa: E402


@model('numpy.not_equal')
def _np_not_equal(L, a, b):
    import ast as _ast
    if isinstance(a, Arr) or isinstance(b, Arr):
        return L.arr_compare(_ast.NotEq(), L.as_arr(a) if not isinstance(a, Arr) else a, b)
    return L.I.S.compare(_ast.NotEq(), a, b)


@model('numpy.compress')
def _np_compress(L, condition, a, axis=None, **kw):
    """numpy.compress(cond, a) for 1-d a and a condition of the same length: a[cond]"""
    if kw:
        raise Unsupported('numpy.compress keywords')
    a, condition = L.as_arr(a), L.as_arr(condition)
    if a.ndim != 1 or condition.ndim != 1 or axis not in (None, -1, 0):
        raise Unsupported('numpy.compress rank / axis')
    return L.mask_select(a, condition)


def midrank_term(a, n, i):
    """rank of a[i] among a[0..n) with ties given the average rank: #{a_j < a_i} + (#{a_j = a_i} + 1) / 2"""
    j = z3.Int('i!cnt')
    ai = to_real(a.f((i,)))
    lt = CNT(z3.Lambda([j], to_real(a.f((j,))) < ai), n)
    eq = CNT(z3.Lambda([j], to_real(a.f((j,))) == ai), n)
    return z3.ToReal(lt) + (z3.ToReal(eq) + 1) / 2


@model('scipy.stats.rankdata')
def _rankdata(L, a, method='average', **kw):
    """assumed contract (method 'average', 1-d): midranks.  Added fact, Lean lemma L7_midrank_strict: ranks are strictly
    monotone in the value, so two entries have the same rank exactly when they have the same value."""
    if method != 'average' or kw:
        raise Unsupported('rankdata method / options')
    a = L.as_arr(a).snapshot()
    if a.ndim != 1:
        raise Unsupported('rankdata rank')
    n = to_z3(a.shape[0])
    r = Arr(a.shape, lambda ix: midrank_term(a, n, to_z3(ix[0])), 'float64', label='midranks')
    i, j = z3.Ints('i!rk j!rk')
    ri, rj = midrank_term(a, n, i), midrank_term(a, n, j)
    ai, aj = to_real(a.f((i,))), to_real(a.f((j,)))
    L.ctx.fact(z3.ForAll([i, j], z3.Implies(z3.And(0 <= i, i < n, 0 <= j, j < n), (ri == rj) == (ai == aj)),
                         patterns=ok_patterns([[a.f((i,)), a.f((j,))]])), lemma=True)
    L.I.used_lemmas.add('L7.midrank_strict')
    r.ghost['midranks_of'] = a
    return r


def _unique_with_counts(L, a):
    """numpy.unique(a, return_counts=True), 1-d: G distinct values in ascending order and how often each occurs.
    Ghost: group index grp(i) of element i."""
    a = L.as_arr(a).snapshot()
    if a.ndim != 1:
        raise Unsupported('unique rank')
    ctx = L.ctx
    n = to_z3(a.shape[0])
    G = ctx.fresh_int('n_unique')
    vals = L.fresh_arr('unique_values', (G,), a.dtype)
    grp = ctx.fresh_fun('group_of', z3.IntSort(), z3.IntSort())
    i, k, k2 = z3.Ints('i!un k!un k2!un')
    V = vals.term
    ai = to_z3(a.f((i,)))
    ctx.fact(z3.And(G >= 0, G <= n, z3.Implies(n > 0, G >= 1)))
    ctx.fact(z3.ForAll([k, k2], z3.Implies(z3.And(0 <= k, k < k2, k2 < G), V[k] < V[k2]), patterns=[z3.MultiPattern(V[k], V[k2])]))
    ctx.fact(z3.ForAll([i], z3.Implies(z3.And(0 <= i, i < n), z3.And(0 <= grp(i), grp(i) < G, V[grp(i)] == ai)), patterns=[grp(i)]))
    t = z3.Int('i!cnt')
    cnt = lambda kk: CNT(z3.Lambda([t], grp(t) == kk), n)
    cfun = ctx.fresh_fun('count_of_group', z3.IntSort(), z3.IntSort())
    counts = Arr((G,), lambda ix: cfun(to_z3(ix[0])), 'int64', label='unique_counts')
    # every value occurs at least once
    ctx.fact(z3.ForAll([k], z3.Implies(z3.And(0 <= k, k < G), z3.And(cfun(k) == cnt(k), cfun(k) >= 1)), patterns=[cfun(k)]))
    counts.ghost['unique'] = dict(of=a, group=grp, G=G, n=n, values=vals, count=cfun, count_term=cnt)
    ctx.ghost.setdefault('uniques', []).append(counts.ghost['unique'])
    return vals, counts


_prev_unique = MODELS['numpy.unique']


@model('numpy.unique')
def _np_unique2(L, a, return_index=False, return_inverse=False, return_counts=False, axis=None, **kw):
    if return_counts and not (return_index or return_inverse or kw) and axis is None:
        return _unique_with_counts(L, a)
    return _prev_unique(L, a, return_index=return_index, return_inverse=return_inverse, return_counts=return_counts, axis=axis, **kw)


# ---------------------------------------------------------------- numpy.diff / numpy.histogram / numpy.random.choice
@model('numpy.diff')
def _np_diff(L, a, n=1, **kw):
    a = L.as_arr(a)
    if a.ndim != 1 or n != 1 or kw:
        raise Unsupported('numpy.diff of this shape')
    m = simp(to_z3(a.shape[0]) - 1)
    if L.ctx.feasible(to_z3(m) < 0):
        m = simp(z3.If(to_z3(m) < 0, z3.IntVal(0), to_z3(m)))
    f = a.f
    S = L.I.S
    import ast as _ast
    return Arr((m,), lambda ix: S.binop(_ast.Sub(), f((simp(to_z3(ix[0]) + 1),)), f((ix[0],))), a.dtype)


CHOICE_IDX = z3.Function('rng_choice_index', RNG, I_, I_)     # index drawn for the e-th sample of a choice() call in this state


@model('numpy.random.choice')
def _np_choice(L, a, size=None, replace=True, p=None):
    """numpy.random.choice(values, p=probs, size=m) (ASSUMED): sample e is values[CHOICE_IDX(state, e)], an index in range whose
    probability is positive; the call advances the generator state"""
    a = L.as_arr(a)
    if a.ndim != 1 or size is None or replace is not True:
        raise Unsupported('numpy.random.choice of this form')
    st = rng_state(L)
    n = to_z3(a.shape[0])
    m = to_z3(size)
    if L.ctx.branch(m < 0):
        raise PyRaise(builtin_exc('ValueError'), 'negative dimensions are not allowed')
    e = z3.Int('e!ch')
    facts = [0 <= CHOICE_IDX(st, e), CHOICE_IDX(st, e) < n]
    if p is not None:
        pa = L.as_arr(p)
        L._same_dim(a.shape[0], pa.shape[0])
        facts.append(to_real(pa.f((CHOICE_IDX(st, e),))) > 0)
    L.ctx.fact(z3.ForAll([e], z3.Implies(z3.And(0 <= e, e < m), z3.And(*facts)), patterns=[CHOICE_IDX(st, e)]))
    rng_advance(L)
    f = a.f
    r = Arr((size,), lambda ix: f((CHOICE_IDX(st, to_z3(ix[0])),)), a.dtype)
    r.ghost['rng_state'] = st
    return r


@model('numpy.histogram')
def _np_histogram(L, x, bins=10, **kw):
    """numpy.histogram(x, bins=edges) (ASSUMED, for increasing edges): counts[k] = #{e : edges[k] <= x_e < edges[k+1]}, the last bin
    closed on the right; the counts add up to the number of values inside [edges[0], edges[-1]]"""
    from .lib import CNT, SUM
    x = L.as_arr(x)
    if kw or not isinstance(bins, Arr) or bins.ndim != 1 or x.ndim != 1:
        raise Unsupported('numpy.histogram of this form')
    nb = to_z3(bins.shape[0])
    m = to_z3(x.shape[0])
    if L.ctx.branch(nb < 2):
        raise Unsupported('histogram with fewer than two edges')
    xf, bf = x.f, bins.f
    e = z3.Int('i!cnt')

    def inbin(k, ee):
        v = to_real(xf((ee,)))
        lo, hi = to_real(bf((k,))), to_real(bf((simp(to_z3(k) + 1),)))
        return z3.And(lo <= v, z3.If(to_z3(k) == nb - 2, v <= hi, v < hi))
    counts = Arr((simp(nb - 1),), lambda ix: CNT(z3.Lambda([e], inbin(to_z3(ix[0]), e)), m), 'int64', label='histogram')
    from .lib import ISUM
    k = z3.Int('i!lam')
    total = ISUM(z3.Lambda([k], CNT(z3.Lambda([e], inbin(k, e)), m)), to_z3(counts.shape[0]))
    inside = CNT(z3.Lambda([e], z3.And(to_real(bf((z3.IntVal(0),))) <= to_real(xf((e,))), to_real(xf((e,))) <= to_real(bf((simp(nb - 1),))))), m)
    L.ctx.fact(total == inside, lemma=True)
    counts.ghost['histogram'] = dict(inbin=inbin, m=m, nb=nb, total=total, inside=inside)
    L.ctx.ghost.setdefault('histograms', []).append(counts.ghost['histogram'])
    return (counts, bins)
