"""Contract DSL, registry and the per-function verification driver.

A contract is a class with (all optional except params):

    qualname  = 'csep.utils.stats.greater_equal_ecdf'
    case      = 'cdf=()'                  # name of this call shape
    def params(c)                         -> dict name -> symbolic value
    def requires(c, **p)                  -> iterable of z3 Bool
    def ensures(c, r, **p)                -> iterable of (name, goal)   (normal return)
    def raises(c, exc, **p)               -> iterable of (name, goal)   (exception `exc` escaped)
    def result(c, **p)                    -> fresh result value for modular calls
    def accepts(c, **p)                   -> bool: does this case describe the call shape
    loops = {ordinal: LoopInv}
    oracle = 'name of the run-time oracle in rt/oracles.py'

`c` is a Builder: fresh symbols, quantifiers (skolemised when proving,
z3.ForAll when assumed), old-state snapshots.
"""
import time
import traceback

import z3

from . import spec
from .core import (Abort, Arr, Obligation, PathCtx, PathInfeasible, PyRaise, Repo, ReturnSig,
                   Unsupported, is_sym, simp, to_z3, to_real)
from .interp import Interp
from .lib import elem_sort


class Builder:
    def __init__(self, interp, mode):
        self.I = interp
        self.mode = mode          # 'prove' | 'assume'
        self.L = interp.lib

    @property
    def ctx(self):
        return self.I.ctx

    # -- symbols ----------------------------------------------------------
    def int(self, name):
        return z3.Int(name)

    def real(self, name):
        return z3.Real(name)

    def bool(self, name):
        return z3.Bool(name)

    def arr(self, name, dtype='float64', n=None):
        """1-d array of symbolic length `n` (default: fresh, >= 0)"""
        if n is None:
            n = z3.Int(name + '.n')
            self.ctx.assume(n >= 0)
        A = z3.Const(name, z3.ArraySort(z3.IntSort(), elem_sort(dtype)))
        a = Arr((n,), lambda ix, A=A: A[to_z3(ix[0])], dtype, label=name)
        a.term = A
        a.term_f = a.f
        return a

    def struct_arr(self, name, fields, n=None):
        """1-d structured array (one column Arr per field, common length)"""
        if n is None:
            n = z3.Int(name + '.n')
            self.ctx.assume(n >= 0)
        a = Arr((n,), lambda ix: None, dict(fields), label=name)
        a.fields = {fn: self.arr('%s.%s' % (name, fn), dt, n=n) for fn, dt in fields.items()}
        return a

    def arr2_flat(self, name, dtype, shape):
        """C-contiguous 2-d array given by its flat storage (length n0*n1): a[i, j] = flat[i*n1 + j] and ravel() is flat"""
        n0, n1 = shape
        K = z3.Int(name + '.size')
        self.ctx.assume(K == to_z3(n0) * to_z3(n1))
        flat = self.arr(name, dtype, n=K)
        a = Arr((n0, n1), lambda ix: flat.f((simp(to_z3(ix[0]) * to_z3(n1) + to_z3(ix[1])),)), dtype, label=name)
        a.flat_backing = flat
        return a

    def arr2(self, name, dtype='float64', shape=None):
        if shape is None:
            n0, n1 = z3.Int(name + '.n0'), z3.Int(name + '.n1')
            self.ctx.assume(z3.And(n0 >= 0, n1 >= 0))
        else:
            n0, n1 = shape
        F = z3.Function(name, z3.IntSort(), z3.IntSort(), elem_sort(dtype))
        a = Arr((n0, n1), lambda ix, F=F: F(to_z3(ix[0]), to_z3(ix[1])), dtype, label=name)
        a.fun = F
        return a

    def obj(self, qualname=None, **fields):
        """instance of a repository class (or an anonymous record) with the given fields"""
        from .core import Obj
        cls = self.I.repo.locate_class(qualname, self.I) if qualname else None
        absent = fields.pop('_absent', ())
        o = Obj(cls, fields)
        o.abstract = True            # fields not listed here are unknown to the contract (-> undecided), except
        o.absent = set(absent)       # those declared absent (reading them raises AttributeError, as in python)
        return o

    # -- quantifiers --------------------------------------------------------
    def forall(self, lo, hi, body, name='i'):
        """forall lo <= i < hi . body(i)"""
        if self.mode == 'prove':
            i = self.ctx.fresh_int(name + '!sk')
            return z3.Implies(z3.And(to_z3(lo) <= i, i < to_z3(hi)), to_z3(body(i)))
        i = self.ctx.fresh_int(name + '!q')
        b = to_z3(body(i))
        return z3.ForAll([i], z3.Implies(z3.And(to_z3(lo) <= i, i < to_z3(hi)), b))

    def forall_real(self, body, name='v'):
        if self.mode == 'prove':
            v = self.ctx.fresh_real(name + '!sk')
            return to_z3(body(v))
        v = self.ctx.fresh_real(name + '!q')
        return z3.ForAll([v], to_z3(body(v)))

    def fact(self, f):
        self.ctx.fact(f)

    def calls(self, qualname):
        """modular calls made so far on this path: list of (case, args, result)"""
        return [(cs, loc, r) for q, cs, loc, r in self.ctx.ghost.get('calls', []) if q == qualname]

    def inline(self, qualname, *args, **kwargs):
        """execute the real body of a repository function (paths fork as usual)"""
        fn = self.I.repo.locate(qualname, self.I)
        self.I.inlined.add(qualname)
        src = self.I.repo.source_info(fn)
        self.I.lemma_sources = getattr(self.I, 'lemma_sources', {})
        self.I.lemma_sources[qualname] = src
        loops = kwargs.pop('_loops', None)
        if loops:
            for k, v in loops.items():
                v.ordinal = k
        return self.I.call_function(fn, list(args), kwargs, loop_contracts=loops)

    def call(self, qualname, *args, **kwargs):
        """modular call through the callee's contract (requires become obligations,
        ensures are assumed); used by lemmas stated over contracts"""
        fn = self.I.repo.locate(qualname, self.I)
        use = REG.lookup(qualname)
        if use is None:
            raise Unsupported('no contract for ' + qualname)
        r = use.apply(self.I, fn, list(args), kwargs)
        if r is NotImplemented:
            raise Unsupported('no contract case of %s accepts the call' % qualname)
        self.I.used_contracts.add(qualname)
        return r


class LoopInv:
    """Loop contract for `for <target> in <iter>` loops (DESIGN 2.4).

    trips(I, it)       -> number of iterations (z3 Int / int)
    item(I, it, i)     -> value bound to the target at iteration i
    havoc(I, fr, i, it)-> replace the loop's write set by fresh values
    inv(I, fr, i, it)  -> iterable (name, formula): invariant before iteration i
    """
    ordinal = 0

    def trips(self, I, it):
        from .core import Opaque
        if isinstance(it, Opaque) and it.name == 'range':
            a = it.args
            if len(a) == 1:
                return to_z3(a[0])
            raise Unsupported('range with start in loop invariant')
        if isinstance(it, range):
            return len(it)
        if isinstance(it, Arr):
            return to_z3(it.shape[0])
        raise Unsupported('trip count of %r' % (it,))

    def item(self, I, it, i):
        from .core import Opaque
        if isinstance(it, (Opaque, range)):
            return i
        if isinstance(it, Arr):
            return I.lib.getitem(it, i)
        raise Unsupported('loop item')

    def havoc(self, I, fr, i, it):
        pass

    def inv(self, I, fr, i, it):
        return ()

    def at_exit(self, I, fr, it):
        """state changes the iteration protocol itself performs when the loop ends (e.g. an iterator object that
        resets itself on StopIteration)"""
        return None

    def step_lemmas(self, I, fr, i, it):
        """instances of lemma-library facts (e.g. the unfolding CNT(B, i+1) = CNT(B, i) + [B i]) needed
        to carry the invariant from i to i+1"""
        return ()


class Registry:
    def __init__(self):
        self.by_name = {}

    def add(self, cls):
        cls.case = getattr(cls, 'case', 'default')
        self.by_name.setdefault(cls.qualname, []).append(cls)
        return cls

    def contract(self, cls):
        return self.add(cls)

    def lookup(self, qualname):
        cs = self.by_name.get(qualname)
        if not cs:
            return None
        return ContractUse(qualname, cs)

    def cases(self, qualname):
        return self.by_name.get(qualname, [])


REG = Registry()
contract = REG.contract


class ContractUse:
    """modular use of a callee's contract at a call site"""

    def __init__(self, qualname, cases):
        self.qualname = qualname
        self.cases = cases

    def apply(self, interp, fn, args, kwargs):
        loc = interp.bind(fn, args, kwargs)
        c = Builder(interp, 'assume')
        for case in sorted(self.cases, key=lambda cs: -getattr(cs, 'priority', 0)):
            norm = getattr(case, 'normalize_args', None)
            if norm is not None:
                loc = norm(c, **loc)
            acc = getattr(case, 'accepts', None)
            if acc is not None and not acc(c, **loc):
                continue
            if getattr(case, 'result', None) is None:
                continue
            ctx = interp.ctx
            cp = Builder(interp, 'prove')
            for k, g in enumerate(_list(case, 'requires', cp, **loc)):
                ctx.oblige('call:%s.requires[%d]' % (self.qualname, k), g, kind='callpre')
            if interp.opts.get('recursive_contract') and self.qualname == interp.opts.get('verifying'):
                meas = getattr(case, 'measure', None)
                outer = ctx.ghost.get('outer_measure')
                if meas is None or outer is None:
                    raise Unsupported('recursive call without a measure')
                m_in = meas(cp, **loc)
                ctx.oblige('call:%s.measure decreases' % self.qualname, z3.And(to_z3(m_in) >= 0, to_z3(m_in) < to_z3(outer)), kind='callpre')
            # exceptional exit of the callee (its contract says when): fork
            mr = getattr(case, 'may_raise', None)
            if mr is not None:
                exc_cls, cond = mr(c, **loc)
                b = ctx.fresh_bool('callee_raises')
                if cond is not None:
                    ctx.assume(z3.Implies(b, cond))
                if ctx.branch(b):
                    ctx.ghost['raised_by_contract'] = self.qualname
                    raise PyRaise(exc_cls, 'raised by callee contract')
            r = case.result(c, **loc)
            for nm, g in _pairs(case, 'ensures', c, r, **loc):
                ctx.assume(g)
            ctx.ghost.setdefault('calls', []).append((self.qualname, case, loc, r))
            return r
        return NotImplemented


_CONCL = {}


def pointwise_sum_hint(c, name, sum_term, term_fn, n):
    """proof step for SUM(A, n) == SUM(lambda k. term_fn(k), n): proves the two summands equal at a
    fresh index (forall-introduction) and concludes by lemma L4 (sums of pointwise equal arrays)"""
    from .lib import SUM
    if not (z3.is_app(sum_term) and sum_term.decl().name() == 'SUM'):
        return None
    A = sum_term.arg(0)
    k = c.ctx.fresh_int('k!pw')
    i = z3.Int('i!lam')
    rhs = SUM(z3.Lambda([i], to_real(term_fn(i))), to_z3(n))
    goal = z3.Implies(z3.And(0 <= k, k < to_z3(n), sum_term.arg(1) == to_z3(n)),
                      z3.simplify(z3.Select(A, k)) == to_real(term_fn(k)))
    c.I.used_lemmas.add('L4.sum_congruence')
    return ('hint:' + name, goal, z3.Implies(sum_term.arg(1) == to_z3(n), sum_term == rhs))


def pointwise_count_hint(c, name, cnt_term, pred_fn, n):
    """as pointwise_sum_hint for CNT(B, n) == CNT(lambda t. pred_fn(t), n)"""
    from .lib import CNT
    if not (z3.is_app(cnt_term) and cnt_term.decl().name() == 'CNT'):
        return None
    B = cnt_term.arg(0)
    t = c.ctx.fresh_int('t!pw')
    i = z3.Int('i!cnt')
    rhs = CNT(z3.Lambda([i], to_z3(pred_fn(i))), to_z3(n))
    goal = z3.Implies(z3.And(0 <= t, t < to_z3(n), cnt_term.arg(1) == to_z3(n)),
                      z3.simplify(z3.Select(B, t)) == to_z3(pred_fn(t)))
    c.I.used_lemmas.add('L4.count_congruence')
    return ('hint:' + name, goal, z3.Implies(cnt_term.arg(1) == to_z3(n), cnt_term == rhs))


def _list(case, attr, *a, **kw):
    f = getattr(case, attr, None)
    if f is None:
        return []
    r = f(*a, **kw)
    return list(r) if r is not None else []


def _pairs(case, attr, *a, **kw):
    out = []
    for item in _list(case, attr, *a, **kw):
        if isinstance(item, tuple) and len(item) == 3:
            # ('hint:..', goal, conclusion): proof step with a generalised conclusion
            _CONCL[item[1].get_id() if hasattr(item[1], 'get_id') else id(item[1])] = item[2]
            out.append((item[0], item[1]))
        elif isinstance(item, tuple):
            out.append(item)
        else:
            out.append(('clause%d' % len(out), item))
    return out


class CaseResult:
    def __init__(self, qualname, case):
        self.qualname = qualname
        self.case = case
        self.obligations = []
        self.paths = 0
        self.returns = 0
        self.raises = 0
        self.aborted = 0
        self.unsupported = []
        self.inlined = set()
        self.used_contracts = set()
        self.used_models = set()
        self.used_lemmas = set()
        self.dropped = []
        self.source = None
        self.covers = []
        self.wall = 0.0
        self.witness_terms = {}


def run_case(case, repo=None, registry=None, opts=None):
    """symbolically execute the real function of `case.qualname` on every path
    and collect the obligations of the contract"""
    opts = dict(opts or {})
    registry = registry or REG
    repo = repo or Repo()
    res = CaseResult(case.qualname, case.case)
    t0 = time.time()
    opts['verifying'] = case.qualname
    if getattr(case, 'float_model', None):
        opts['float_model'] = case.float_model
    if getattr(case, 'recursive', False):
        # recursive calls go through this function's own contract at a smaller measure (obligation)
        opts['recursive_contract'] = True
    worklist = [[]]
    maxpaths = opts.get('max_paths', 400)
    interp = Interp(repo, registry, opts)
    is_lemma = getattr(case, 'lemma', None) is not None
    if is_lemma:
        res.source = {'qualname': case.qualname, 'file': '(lemma over contracts / relational)', 'lines': [0, 0], 'sha256': ''}
    else:
        try:
            interp.ctx = PathCtx([], [])
            fn = repo.locate(case.qualname, interp)
            res.source = repo.source_info(fn)
        except Unsupported as e:
            res.unsupported.append(str(e))
            return res
    while worklist:
        prefix = worklist.pop()
        res.paths += 1
        if res.paths > maxpaths:
            res.unsupported.append('path budget exceeded')
            break
        ctx = PathCtx(prefix, worklist, opts)
        interp.ctx = ctx
        interp.depth = 0
        cp = Builder(interp, 'prove')
        ca = Builder(interp, 'assume')
        tag = 'p%d' % res.paths
        try:
            if is_lemma:
                _run_lemma_path(case, res, interp, ctx, cp, tag)
                raise _LemmaDone()
            params = case.params(ca)
            if not res.witness_terms:
                res.witness_terms = params
            for g in _list(case, 'requires', ca, **params):
                ctx.assume(g)
            if getattr(case, 'measure', None) is not None:
                ctx.ghost['outer_measure'] = case.measure(ca, **{k: v for k, v in params.items() if not k.startswith('_')})
            pre = getattr(case, 'pre_state', None)
            old = pre(ca, **params) if pre else None
            outcome = None
            try:
                lc = getattr(case, 'loops', None)
                if lc:
                    for k, v in lc.items():
                        v.ordinal = k
                rv_ = interp.call_function(fn, [], {k: v for k, v in params.items() if not k.startswith('_')}, loop_contracts=lc)
                outcome = ('return', rv_)
            except PyRaise as pr:
                outcome = ('raise', pr)
            except ReturnSig as r:
                outcome = ('return', r.value)
            if outcome[0] == 'return':
                res.returns += 1
                kw = dict(params)
                if old is not None:
                    kw['old'] = old
                hints = []
                for nm, g in _pairs(case, 'ensures', cp, outcome[1], **kw):
                    if nm.startswith('hint:'):
                        # proof step: tried first, used as a hypothesis by the later clauses of
                        # this path only if discharged; never reported as a violation
                        o = ctx.oblige('%s.%s' % (case.case, nm), g, kind='hint')
                        o.hints = list(hints)
                        o.conclusion = _CONCL.pop(g.get_id(), None) if hasattr(g, 'get_id') else None
                        hints.append(o)
                    else:
                        o = ctx.oblige('%s.ensures.%s' % (case.case, nm), g, kind='post')
                        o.hints = list(hints)
                res.covers.append((tag, 'return', list(ctx.pc)))
            else:
                res.raises += 1
                pr = outcome[1]
                kw = dict(params)
                if old is not None:
                    kw['old'] = old
                f = getattr(case, 'raises', None)
                goals = None
                if f is not None:
                    goals = f(cp, pr.cls, **kw)
                    goals = None if goals is None else list(goals)
                if goals is None:
                    ctx.oblige('%s.no-exception[%s%s]' % (case.case, pr.cls.name, (': ' + str(pr.msg)[:60]) if pr.msg else ''),
                               False, kind='exc')
                else:
                    hints = []
                    for item in goals:
                        concl = None
                        if isinstance(item, tuple) and len(item) == 3:
                            nm, g, concl = item
                        else:
                            nm, g = item if isinstance(item, tuple) else ('clause', item)
                        if nm.startswith('hint:'):
                            # proof steps on an exceptional path (as in ensures): used by the later clauses once discharged
                            o = ctx.oblige('%s.%s' % (case.case, nm), g, kind='hint')
                            o.hints = list(hints)
                            o.conclusion = concl
                            hints.append(o)
                        else:
                            o = ctx.oblige('%s.raises[%s].%s' % (case.case, pr.cls.name, nm), g, kind='exc')
                            o.hints = list(hints)
                res.covers.append((tag, 'raise:' + pr.cls.name, list(ctx.pc)))
        except _LemmaDone:
            pass
        except PathInfeasible:
            res.aborted += 1
        except Abort:
            res.aborted += 1
        except Unsupported as e:
            res.unsupported.append('%s: %s' % (tag, e))
            if opts.get('debug'):
                traceback.print_exc()
        except RecursionError:
            res.unsupported.append('%s: recursion limit' % tag)
        for o in ctx.obligations:
            o.facts = ctx.facts
            o.lemma_ids = ctx.lemma_ids
            o.path = tag
            o.name = '%s:%s' % (case.qualname, o.name)
        res.obligations.extend(ctx.obligations)
        res.inlined |= interp.inlined
        res.used_contracts |= interp.used_contracts
        res.used_models |= interp.used_models
        res.used_lemmas |= interp.used_lemmas
    res.dropped = sorted(set(interp.dropped))
    res.wall = time.time() - t0
    return res


def _argvals(fn, params):
    a = fn.node.args
    names = [p.arg for p in a.posonlyargs + a.args]
    out = []
    for nm in names:
        if nm in params:
            out.append(params[nm])
        else:
            break
    extra = set(params) - set(names[:len(out)]) - {k for k in params if k.startswith('_')}
    if extra:
        # remaining parameters are passed by keyword through call_function's kwargs
        raise Unsupported('contract parameters %s do not prefix the signature' % sorted(extra))
    return out


class _LemmaDone(Exception):
    pass


def _run_lemma_path(case, res, interp, ctx, cp, tag):
    """a lemma over contracts / a relational obligation: `case.lemma(c)` uses c.call(...) (callee
    contracts) and c.inline(...) (the real body, with forking) and yields (name, goal)"""
    hints = []
    try:
        for item in case.lemma(cp):
            nm, g = item[0], item[1]
            kind = 'hint' if nm.startswith('hint:') else 'lemma'
            o = ctx.oblige('%s.%s' % (case.case, nm), g, kind=kind)
            o.hints = list(hints)
            if kind == 'hint':
                o.conclusion = item[2] if len(item) > 2 else None
                hints.append(o)
        res.returns += 1
        res.covers.append((tag, 'return', list(ctx.pc)))
        if not res.witness_terms:
            res.witness_terms = getattr(cp, 'witness_terms', {})
    except PyRaise as e:
        res.raises += 1
        ctx.oblige('%s.no-exception[%s]' % (case.case, e.cls.name), False, kind='exc')
        res.covers.append((tag, 'raise:' + e.cls.name, list(ctx.pc)))
