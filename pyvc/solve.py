"""Back ends: every obligation is one SMT query `background /\ pc /\ facts /\ not goal`.

Queries are written as SMT-LIB2 text and decided by the z3 5.1 CLI (`z3-new`) in
parallel; `unknown`/time-outs are retried with a second configuration and, when the
text is within its fragment, by cvc5.  sat results are re-solved in process to obtain
a model for the replay."""
import os
import shutil
import threading
import subprocess
import tempfile
import time
from concurrent.futures import ThreadPoolExecutor

import z3

from . import spec
from .core import to_z3

Z3_CLI = shutil.which('z3-new') or shutil.which('z3')
Z3_OLD = '/usr/bin/z3'
CVC5_CLI = shutil.which('cvc5')


class Verdict:
    def __init__(self, ob, status, backend, seconds, detail=''):
        self.ob = ob
        self.status = status      # 'unsat' | 'sat' | 'unknown'
        self.backend = backend
        self.seconds = seconds
        self.detail = detail
        self.model = None


BUILTIN = set(['and', 'or', 'not', '=>', '=', 'if', '+', '-', '*', '/', '<=', '>=', '<', '>', 'to_real', 'to_int', 'is_int',
               'select', 'store', 'true', 'false', 'distinct', 'div', 'mod', 'Int', 'Real', 'abs'])


def _syms(f):
    return set(n for n in spec.decl_names([f]) if n not in BUILTIN and not n[:1].isdigit() and not n.startswith('-'))


def obligation_formulas(ob, slim=0, background=True):
    """hypotheses + negated goal.  slim > 0: only the hypotheses that share a symbol with the goal (and the proven
    hints), closed under `slim` rounds - dropping hypotheses is sound, it only makes the query smaller"""
    hints = [to_z3(getattr(h, 'conclusion', None) if getattr(h, 'conclusion', None) is not None else h.goal)
             for h in getattr(ob, 'hints', []) if h.proved]
    goal = z3.Not(to_z3(ob.goal))
    hyps = list(ob.pc) + list(ob.facts or [])
    if slim == 'pc':
        # path condition + the facts flagged as lemma instances only (the derived library facts are dropped)
        lem = getattr(ob, 'lemma_ids', set())
        hyps = list(ob.pc) + [f for f in (ob.facts or []) if f.get_id() in lem]
    elif slim:
        want = _syms(goal)
        for h in hints:
            want |= _syms(h)
        keep = [False] * len(hyps)
        hs = [_syms(h) for h in hyps]
        for _ in range(slim):
            grew = False
            for k, sy in enumerate(hs):
                if not keep[k] and (sy & want) and len(sy) <= 12:
                    keep[k] = True
                    if not (sy <= want):
                        want |= sy
                        grew = True
            if not grew:
                break
        hyps = [h for h, k in zip(hyps, keep) if k]
    forms = hyps + hints + [goal]
    if not background:
        return forms        # without the quantified lemma library (sound: fewer hypotheses)
    return spec.relevant_background(forms) + forms


ARITH_KINDS = None


def purify(forms):
    """quantifier-free arithmetic core: every uninterpreted application, array read, lambda or quantified
    sub-formula is replaced by a fresh constant (the same term -> the same constant).  The result is implied by
    nothing less than the original, i.e. proving it unsat proves the original unsat (abstraction is sound)."""
    cache = {}
    fresh = {}
    keep = (z3.Z3_OP_AND, z3.Z3_OP_OR, z3.Z3_OP_NOT, z3.Z3_OP_IMPLIES, z3.Z3_OP_EQ, z3.Z3_OP_ITE, z3.Z3_OP_ADD, z3.Z3_OP_SUB,
            z3.Z3_OP_MUL, z3.Z3_OP_DIV, z3.Z3_OP_UMINUS, z3.Z3_OP_LE, z3.Z3_OP_GE, z3.Z3_OP_LT, z3.Z3_OP_GT, z3.Z3_OP_TO_REAL,
            z3.Z3_OP_TO_INT, z3.Z3_OP_IS_INT, z3.Z3_OP_IDIV, z3.Z3_OP_MOD, z3.Z3_OP_TRUE, z3.Z3_OP_FALSE, z3.Z3_OP_ANUM,
            z3.Z3_OP_DISTINCT, z3.Z3_OP_XOR, z3.Z3_OP_IFF if hasattr(z3, 'Z3_OP_IFF') else z3.Z3_OP_EQ)

    alive = []        # keep every visited term alive: z3 re-uses the ids of freed terms
    arith = (z3.Z3_INT_SORT, z3.Z3_REAL_SORT, z3.Z3_BOOL_SORT)

    def const_for(t):
        k = t.get_id()
        if k not in fresh:
            srt = t.sort()
            if srt.kind() not in (z3.Z3_INT_SORT, z3.Z3_REAL_SORT, z3.Z3_BOOL_SORT):
                raise ValueError('non-arithmetic term survives')
            fresh[k] = z3.Const('pur!%d' % len(fresh), srt)
            alive.append(t)
        return fresh[k]

    def go(t):
        k = t.get_id()
        alive.append(t)
        if k in cache:
            return cache[k]
        if z3.is_quantifier(t) or z3.is_var(t):
            r = const_for(t)
        elif z3.is_app(t):
            if t.num_args() == 0:
                r = t if (z3.is_int_value(t) or z3.is_rational_value(t) or z3.is_true(t) or z3.is_false(t)
                          or t.sort().kind() in (z3.Z3_INT_SORT, z3.Z3_REAL_SORT, z3.Z3_BOOL_SORT)) else const_for(t)
            elif t.decl().kind() in keep:
                ch = [go(c) for c in t.children()]
                r = t.decl()(*ch)
            elif (t.decl().kind() == z3.Z3_OP_UNINTERPRETED and t.sort().kind() in arith
                  and all(c.sort().kind() in arith for c in t.children())):
                # uninterpreted function of numbers (sqrt, log, a distribution function, ...): keep the application so that
                # equal arguments give equal values (congruence); its arguments are purified
                ch = [go(c) for c in t.children()]
                r = t.decl()(*ch)
            else:
                r = const_for(t)
        else:
            r = const_for(t)
        cache[k] = r
        return r
    out = []
    for f in forms:
        try:
            # normalise first: syntactically different but simplifier-equal terms must get the same constant
            g = go(z3.simplify(f))
            if z3.is_bool(g):
                out.append(g)
        except (ValueError, z3.Z3Exception):
            continue
    return out


def has_quantifier(f):
    st = [f]
    seen = set()
    while st:
        t = st.pop()
        if t.get_id() in seen:
            continue
        seen.add(t.get_id())
        if z3.is_quantifier(t):
            if t.is_lambda():
                continue          # lambdas only occur under uninterpreted applications, which purify() abstracts
            return True
        if z3.is_app(t):
            st.extend(t.children())
    return False


def core_formulas(ob):
    hints = [to_z3(getattr(h, 'conclusion', None) if getattr(h, 'conclusion', None) is not None else h.goal)
             for h in getattr(ob, 'hints', []) if h.proved]
    hyps = [h for h in list(ob.pc) + list(ob.facts or []) if not has_quantifier(h)]
    goal = z3.Not(to_z3(ob.goal))
    if has_quantifier(goal):
        return None
    return purify(hyps + [h for h in hints if not has_quantifier(h)] + [goal])


def build_solver(ob, timeout_ms=None, slim=0, background=True):
    s = z3.Solver()
    if timeout_ms:
        s.set('timeout', int(timeout_ms))
    for f in obligation_formulas(ob, slim, background):
        s.add(f)
    return s


def _run_cli(cmd, path, timeout_s):
    t0 = time.time()
    try:
        p = subprocess.run(cmd + [path], capture_output=True, text=True, timeout=timeout_s + 5)
        out = (p.stdout or '').strip().splitlines()
        head = out[0].strip() if out else ''
        if head not in ('sat', 'unsat', 'unknown'):
            head = 'unknown'
            detail = (p.stdout + p.stderr)[:300]
        else:
            detail = ''
    except subprocess.TimeoutExpired:
        head, detail = 'unknown', 'timeout'
    return head, time.time() - t0, detail


_GEN_LOCK = threading.Lock()


def _aux(ob, path, kind):
    """auxiliary query files are written on demand (most obligations are decided by the first query): the z3 Python API is
    not re-entrant, hence the lock"""
    suffix = {'core': '.core.smt2', 'nobg': '.nobg.smt2', 'slim1': '.slim1.smt2', 'slim2': '.slim2.smt2', 'slim3': '.slim3.smt2'}[kind]
    out = path.replace('.smt2', suffix)
    if os.path.exists(out):
        return out
    with _GEN_LOCK:
        if os.path.exists(out):
            return out
        try:
            if kind == 'core':
                cf = core_formulas(ob)
                if not cf:
                    return None
                sc = z3.Solver()
                for f in cf:
                    sc.add(f)
                text = sc.to_smt2()
            elif kind == 'nobg':
                text = build_solver(ob, background=False).to_smt2()
            else:
                if len(ob.pc) + len(ob.facts or []) <= 12:
                    return None
                if kind == 'slim3' and not ob.facts:
                    return None
                text = build_solver(ob, slim={'slim1': 1, 'slim2': 2, 'slim3': 'pc'}[kind]).to_smt2()
        except Exception:
            return None
        with open(out, 'w') as fh:
            fh.write(text)
    return out


def _decide(args):
    ob, path, timeout_s = args
    total = 0.0
    # quantifier-free arithmetic core first (cheap; uninterpreted terms abstracted): sound for unsat only
    cp = _aux(ob, path, 'core')
    if cp:
        st4, sec4, _ = _run_cli([Z3_CLI, '-T:3'], cp, 3)
        total += sec4
        if st4 == 'unsat':
            return Verdict(ob, 'unsat', 'z3-5.1/qf-core', total)
    if ob.kind == 'hint':
        # proof steps are mostly pointwise arithmetic that needs none of the quantified lemma library: try without it first
        nb0 = _aux(ob, path, 'nobg')
        if nb0:
            st0, sec0, _ = _run_cli([Z3_CLI, '-T:3'], nb0, 3)
            total += sec0
            if st0 == 'unsat':
                return Verdict(ob, 'unsat', 'z3-5.1/no-library', total)
    # a short slice of the main solver, then the second solver, then the main solver with the whole budget
    first = min(5, timeout_s)
    st, sec, detail = _run_cli([Z3_CLI, '-T:%d' % first], path, first)
    total += sec
    if st in ('sat', 'unsat'):
        return Verdict(ob, st, 'z3-5.1', total)
    if os.path.exists(Z3_OLD):
        st6, sec6, _ = _run_cli([Z3_OLD, '-T:8'], path, 8)
        total += sec6
        if st6 == 'unsat':
            return Verdict(ob, 'unsat', 'z3-4.8.12', total)
    if ob.kind == 'hint' and timeout_s <= 10:
        # proof steps are optional: a step that does not go through quickly is simply not used
        nb = _aux(ob, path, 'nobg')
        if nb:
            st5, sec5, _ = _run_cli([Z3_CLI, '-T:5'], nb, 5)
            total += sec5
            if st5 == 'unsat':
                return Verdict(ob, 'unsat', 'z3-5.1/no-library', total)
        return Verdict(ob, 'unknown', 'z3-5.1', total, (detail or 'incomplete').strip())
    if z3.is_false(ob.goal):
        # "this path is infeasible": only the path condition matters - one more attempt on the path condition and the lemma
        # instances alone, then give up (the long ladder below is for goals with content)
        sp = _aux(ob, path, 'slim3')
        if sp:
            st3, sec3, _ = _run_cli([Z3_CLI, '-T:%d' % max(5, timeout_s // 2)], sp, max(5, timeout_s // 2))
            total += sec3
            if st3 == 'unsat':
                return Verdict(ob, 'unsat', 'z3-5.1/relevant-hyps-3', total)
        return Verdict(ob, 'unknown', 'z3-5.1', total, (detail or 'incomplete').strip())
    if timeout_s > first:
        st, sec, detail = _run_cli([Z3_CLI, '-T:%d' % timeout_s], path, timeout_s)
        total += sec
        if st in ('sat', 'unsat'):
            return Verdict(ob, st, 'z3-5.1', total)
    if sec < 0.5 * timeout_s:
        # gave up early (incomplete quantifier reasoning): second configuration, unsat only
        st2, sec2, detail2 = _run_cli([Z3_CLI, '-T:%d' % max(2, timeout_s // 2), 'smt.mbqi=false', 'smt.auto_config=false'],
                                      path, max(2, timeout_s // 2))
        total += sec2
        if st2 == 'unsat':
            return Verdict(ob, 'unsat', 'z3-5.1/no-mbqi', total)
    # the obligation without the quantified lemma library (many obligations need none of it, and its nested quantifiers can
    # keep the solver busy): sound for unsat only
    nb = _aux(ob, path, 'nobg')
    if nb:
        st5, sec5, _ = _run_cli([Z3_CLI, '-T:4'], nb, 4)
        total += sec5
        if st5 == 'unsat':
            return Verdict(ob, 'unsat', 'z3-5.1/no-library', total)
    if cp:
        st4, sec4, _ = _run_cli([Z3_CLI, '-T:%d' % max(3, timeout_s // 2)], cp, max(3, timeout_s // 2))
        total += sec4
        if st4 == 'unsat':
            return Verdict(ob, 'unsat', 'z3-5.1/qf-core', total)
    # relevance-filtered query (fewer hypotheses: sound for unsat, never used for sat)
    for lvl in (1, 2, 3):
        sp = _aux(ob, path, 'slim%d' % lvl)
        if sp:
            st3, sec3, _ = _run_cli([Z3_CLI, '-T:%d' % max(3, timeout_s // 2)], sp, max(3, timeout_s // 2))
            total += sec3
            if st3 == 'unsat':
                return Verdict(ob, 'unsat', 'z3-5.1/relevant-hyps-%d' % lvl, total)
    return Verdict(ob, 'unknown', 'z3-5.1', total, (detail or 'incomplete').strip())


def _nonlinear_free(forms):
    """no product / quotient of two non-constant terms: the in-process pre-check is reserved for linear cores (the non-linear
    solver can run for minutes without looking at its time limit)"""
    seen = set()
    st = list(forms)
    while st:
        t = st.pop()
        if t.get_id() in seen:
            continue
        seen.add(t.get_id())
        if z3.is_app(t):
            k = t.decl().kind()
            if k in (z3.Z3_OP_MUL, z3.Z3_OP_DIV, z3.Z3_OP_IDIV, z3.Z3_OP_MOD, z3.Z3_OP_POWER):
                nonconst = [c for c in t.children() if not (z3.is_int_value(c) or z3.is_rational_value(c) or z3.is_algebraic_value(c))]
                if len(nonconst) >= 2 or (k != z3.Z3_OP_MUL and nonconst and not (z3.is_int_value(t.arg(1)) or z3.is_rational_value(t.arg(1)))):
                    return False
            st.extend(t.children())
    return True


def _in_process_last_resort(ob, budget_ms=4000):
    """The SMT-LIB round trip (Solver.to_smt2 + CLI) occasionally yields a harder problem than the in-memory terms (lambda /
    quantifier instantiation order).  An obligation every CLI configuration left open is tried once more on the in-memory
    terms, hypotheses filtered by relevance (sound for unsat only).  Serial, so reserved for the few leftovers."""
    for slim in (2, 1, 'pc'):
        try:
            s = build_solver(ob, timeout_ms=budget_ms, slim=slim)
            s.set('rlimit', 20000000)
            t0 = time.time()
            if s.check() == z3.unsat:
                return 'z3-5.1/in-process(relevant-hyps-%s)' % slim, time.time() - t0
        except Exception:
            pass
    return None, 0.0


def discharge(obligations, timeout_s=10, jobs=16, keep_dir=None):
    """returns list of Verdict in the order of `obligations`.  Obligations that depend on
    hints are decided after their hints (rounds)."""
    out = [None] * len(obligations)
    tmp = keep_dir or tempfile.mkdtemp(prefix='pyvc-')
    pending = list(range(len(obligations)))
    try:
        rnd = 0
        while pending:
            ready = [k for k in pending if all(h.proved is not None for h in getattr(obligations[k], 'hints', []))]
            if not ready:
                ready = pending   # hints outside this batch: treat as unproved
            work = []
            for k in ready:
                ob = obligations[k]
                g = ob.goal
                if z3.is_true(g):
                    out[k] = Verdict(ob, 'unsat', 'simplifier', 0.0)
                    ob.proved = True
                    continue
                # quantifier-free core, in process, tiny budget: decides the bulk of the simple obligations without
                # writing a file or starting a solver process (sound for unsat only)
                try:
                    cf = core_formulas(ob)
                except Exception:
                    cf = None
                if cf:
                    try:
                        sc = z3.Solver()
                        sc.set('timeout', 250)
                        # the wall-clock timeout is not honoured inside some non-linear procedures: a resource limit is
                        sc.set('rlimit', 400000)
                        for f in cf:
                            sc.add(f)
                        t0 = time.time()
                        if _nonlinear_free(cf) and sc.check() == z3.unsat:
                            out[k] = Verdict(ob, 'unsat', 'z3-5.1/qf-core(in-process)', time.time() - t0)
                            ob.proved = True
                            continue
                    except z3.Z3Exception:
                        pass        # the shortcut decided nothing: the regular pipeline follows
                s = build_solver(ob)
                path = os.path.join(tmp, 'q%04d.smt2' % k)
                with open(path, 'w') as fh:
                    fh.write(s.to_smt2())
                t = timeout_s if ob.kind != 'hint' else min(timeout_s, 10)
                work.append((k, (ob, path, t)))
            with ThreadPoolExecutor(max_workers=jobs) as ex:
                for (k, _), v in zip(work, ex.map(_decide, [w for _, w in work])):
                    out[k] = v
                    obligations[k].proved = (v.status == 'unsat')
            # leftovers of this round: once more on the in-memory terms (at most 12 per round)
            left = [k for k, _ in work if out[k].status == 'unknown' and not z3.is_false(obligations[k].goal)][:12]
            for k in left:
                be, sec = _in_process_last_resort(obligations[k])
                if be:
                    out[k] = Verdict(obligations[k], 'unsat', be, out[k].seconds + sec)
                    obligations[k].proved = True
            pending = [k for k in pending if k not in set(ready)]
            rnd += 1
    finally:
        if keep_dir is None:
            shutil.rmtree(tmp, ignore_errors=True)
    # models for sat
    for v in out:
        if v.status == 'sat' and v.ob.kind != 'hint':
            s = build_solver(v.ob, timeout_ms=timeout_s * 1000)
            if s.check() == z3.sat:
                v.model = s.model()
    return out


def check_sat_many(formula_lists, timeout_s=2, jobs=16):
    """status ('sat'|'unsat'|'unknown') for each list of formulas, decided in parallel"""
    tmp = tempfile.mkdtemp(prefix='pyvc-cov-')
    try:
        paths = []
        for k, forms in enumerate(formula_lists):
            s = z3.Solver()
            for f in forms:
                s.add(f)
            path = os.path.join(tmp, 'c%04d.smt2' % k)
            with open(path, 'w') as fh:
                fh.write(s.to_smt2())
            paths.append(path)
        with ThreadPoolExecutor(max_workers=jobs) as ex:
            res = list(ex.map(lambda p: _run_cli([Z3_CLI, '-T:%d' % timeout_s], p, timeout_s)[0], paths))
        return res
    finally:
        shutil.rmtree(tmp, ignore_errors=True)


def check_sat(formulas, timeout_ms=5000):
    s = z3.Solver()
    s.set('timeout', timeout_ms)
    for ax in spec.background():
        s.add(ax)
    for f in formulas:
        s.add(f)
    return str(s.check())



def expand_quantifiers(f, N, cache=None):
    """replace every quantifier over integer variables by its instances on 0..N-1.
    Exact for the index-guarded quantifiers the engine emits (0 <= i < len, len <= N);
    quantifiers over other sorts are left in place."""
    if cache is None:
        cache = {}
    key = f.get_id()
    if key in cache:
        return cache[key]
    if z3.is_quantifier(f):
        if f.is_lambda():
            r = f
        else:
            nv = f.num_vars()
            if all(f.var_sort(k) == z3.IntSort() for k in range(nv)) and N ** nv <= 4096:
                import itertools
                body = f.body()
                insts = []
                for vals in itertools.product(range(N), repeat=nv):
                    # de Bruijn: Var(0) is the innermost = last declared variable
                    subst = [z3.IntVal(v) for v in reversed(vals)]
                    insts.append(expand_quantifiers(z3.substitute_vars(body, *subst), N, cache))
                r = z3.And(*insts) if f.is_forall() else z3.Or(*insts)
            else:
                r = f
    elif z3.is_app(f) and f.num_args() > 0:
        ch = [expand_quantifiers(c, N, cache) for c in f.children()]
        if any(a.get_id() != b.get_id() for a, b in zip(ch, f.children())):
            r = f.decl()(*ch)
        else:
            r = f
    else:
        r = f
    cache[key] = r
    return r


def find_counterexample(ob, N=3, timeout_ms=20000):
    """Counter-model search for an undischarged obligation: the spec functions are
    expanded by their definitions for array lengths <= N, the (then redundant) lemma
    instances are dropped and index quantifiers are expanded on 0..N-1.  A model of the
    result is a counter-model of the VC restricted to lengths <= N; it is always
    validated by replaying it on the real code.  Returns a z3 model or None."""
    exps = spec.expansions(N)
    forms = list(ob.pc)
    lem = getattr(ob, 'lemma_ids', set())
    forms += [f for f in (ob.facts or []) if f.get_id() not in lem]
    forms.append(z3.Not(to_z3(ob.goal)))
    lens = spec.length_args(forms)
    forms = [z3.substitute_funs(f, *exps) for f in forms]
    cache = {}
    forms = [expand_quantifiers(f, N, cache) for f in forms]
    s = z3.Solver()
    s.set('timeout', int(timeout_ms))
    for f in forms:
        s.add(f)
    for n in lens:
        s.add(n <= N)
    if s.check() == z3.sat:
        return s.model()
    return None
