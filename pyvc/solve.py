"""Back ends: every obligation is one SMT query `background /\ pc /\ facts /\ not goal`.

Queries are written as SMT-LIB2 text and decided by the z3 5.1 CLI (`z3-new`) in
parallel; `unknown`/time-outs are retried with a second configuration and, when the
text is within its fragment, by cvc5.  sat results are re-solved in process to obtain
a model for the replay."""
import os
import shutil
import subprocess
import tempfile
import time
from concurrent.futures import ThreadPoolExecutor

import z3

from . import spec
from .core import to_z3

Z3_CLI = shutil.which('z3-new') or shutil.which('z3')
CVC5_CLI = shutil.which('cvc5')


class Verdict:
    def __init__(self, ob, status, backend, seconds, detail=''):
        self.ob = ob
        self.status = status      # 'unsat' | 'sat' | 'unknown'
        self.backend = backend
        self.seconds = seconds
        self.detail = detail
        self.model = None


def build_solver(ob, timeout_ms=None):
    s = z3.Solver()
    if timeout_ms:
        s.set('timeout', int(timeout_ms))
    forms = list(ob.pc) + list(ob.facts or [])
    forms += [to_z3(getattr(h, 'conclusion', None) if getattr(h, 'conclusion', None) is not None else h.goal)
              for h in getattr(ob, 'hints', []) if h.proved]
    forms.append(z3.Not(to_z3(ob.goal)))
    for ax in spec.relevant_background(forms):
        s.add(ax)
    for f in forms:
        s.add(f)
    return s


def _run_cli(cmd, path, timeout_s):
    t0 = time.time()
    try:
        p = subprocess.run(cmd + [path], capture_output=True, text=True, timeout=timeout_s + 5)
        out = (p.stdout or '').strip().splitlines()
        head = out[0].strip() if out else ''
        if head not in ('sat', 'unsat', 'unknown'):
            head = 'unknown'
            detail = (p.stdout + p.stderr)[:300]
        else:
            detail = ''
    except subprocess.TimeoutExpired:
        head, detail = 'unknown', 'timeout'
    return head, time.time() - t0, detail


def _decide(args):
    ob, path, timeout_s = args
    st, sec, detail = _run_cli([Z3_CLI, '-T:%d' % timeout_s], path, timeout_s)
    if st in ('sat', 'unsat'):
        return Verdict(ob, st, 'z3-5.1', sec)
    total = sec
    if sec < 0.5 * timeout_s:
        # gave up early (incomplete quantifier reasoning): second configuration, unsat only
        st2, sec2, detail2 = _run_cli([Z3_CLI, '-T:%d' % max(2, timeout_s // 2), 'smt.mbqi=false', 'smt.auto_config=false'],
                                      path, max(2, timeout_s // 2))
        total += sec2
        if st2 == 'unsat':
            return Verdict(ob, 'unsat', 'z3-5.1/no-mbqi', total)
    return Verdict(ob, 'unknown', 'z3-5.1', total, (detail or 'incomplete').strip())


def discharge(obligations, timeout_s=10, jobs=16, keep_dir=None):
    """returns list of Verdict in the order of `obligations`.  Obligations that depend on
    hints are decided after their hints (rounds)."""
    out = [None] * len(obligations)
    tmp = keep_dir or tempfile.mkdtemp(prefix='pyvc-')
    pending = list(range(len(obligations)))
    try:
        rnd = 0
        while pending:
            ready = [k for k in pending if all(h.proved is not None for h in getattr(obligations[k], 'hints', []))]
            if not ready:
                ready = pending   # hints outside this batch: treat as unproved
            work = []
            for k in ready:
                ob = obligations[k]
                g = ob.goal
                if z3.is_true(g):
                    out[k] = Verdict(ob, 'unsat', 'simplifier', 0.0)
                    ob.proved = True
                    continue
                s = build_solver(ob)
                path = os.path.join(tmp, 'q%04d.smt2' % k)
                with open(path, 'w') as fh:
                    fh.write(s.to_smt2())
                t = timeout_s if ob.kind != 'hint' else min(timeout_s, 10)
                work.append((k, (ob, path, t)))
            with ThreadPoolExecutor(max_workers=jobs) as ex:
                for (k, _), v in zip(work, ex.map(_decide, [w for _, w in work])):
                    out[k] = v
                    obligations[k].proved = (v.status == 'unsat')
            pending = [k for k in pending if k not in set(ready)]
            rnd += 1
    finally:
        if keep_dir is None:
            shutil.rmtree(tmp, ignore_errors=True)
    # models for sat
    for v in out:
        if v.status == 'sat' and v.ob.kind != 'hint':
            s = build_solver(v.ob, timeout_ms=timeout_s * 1000)
            if s.check() == z3.sat:
                v.model = s.model()
    return out


def check_sat_many(formula_lists, timeout_s=2, jobs=16):
    """status ('sat'|'unsat'|'unknown') for each list of formulas, decided in parallel"""
    tmp = tempfile.mkdtemp(prefix='pyvc-cov-')
    try:
        paths = []
        for k, forms in enumerate(formula_lists):
            s = z3.Solver()
            for f in forms:
                s.add(f)
            path = os.path.join(tmp, 'c%04d.smt2' % k)
            with open(path, 'w') as fh:
                fh.write(s.to_smt2())
            paths.append(path)
        with ThreadPoolExecutor(max_workers=jobs) as ex:
            res = list(ex.map(lambda p: _run_cli([Z3_CLI, '-T:%d' % timeout_s], p, timeout_s)[0], paths))
        return res
    finally:
        shutil.rmtree(tmp, ignore_errors=True)


def check_sat(formulas, timeout_ms=5000):
    s = z3.Solver()
    s.set('timeout', timeout_ms)
    for ax in spec.background():
        s.add(ax)
    for f in formulas:
        s.add(f)
    return str(s.check())



def expand_quantifiers(f, N, cache=None):
    """replace every quantifier over integer variables by its instances on 0..N-1.
    Exact for the index-guarded quantifiers the engine emits (0 <= i < len, len <= N);
    quantifiers over other sorts are left in place."""
    if cache is None:
        cache = {}
    key = f.get_id()
    if key in cache:
        return cache[key]
    if z3.is_quantifier(f):
        if f.is_lambda():
            r = f
        else:
            nv = f.num_vars()
            if all(f.var_sort(k) == z3.IntSort() for k in range(nv)) and N ** nv <= 4096:
                import itertools
                body = f.body()
                insts = []
                for vals in itertools.product(range(N), repeat=nv):
                    # de Bruijn: Var(0) is the innermost = last declared variable
                    subst = [z3.IntVal(v) for v in reversed(vals)]
                    insts.append(expand_quantifiers(z3.substitute_vars(body, *subst), N, cache))
                r = z3.And(*insts) if f.is_forall() else z3.Or(*insts)
            else:
                r = f
    elif z3.is_app(f) and f.num_args() > 0:
        ch = [expand_quantifiers(c, N, cache) for c in f.children()]
        if any(a.get_id() != b.get_id() for a, b in zip(ch, f.children())):
            r = f.decl()(*ch)
        else:
            r = f
    else:
        r = f
    cache[key] = r
    return r


def find_counterexample(ob, N=3, timeout_ms=20000):
    """Counter-model search for an undischarged obligation: the spec functions are
    expanded by their definitions for array lengths <= N, the (then redundant) lemma
    instances are dropped and index quantifiers are expanded on 0..N-1.  A model of the
    result is a counter-model of the VC restricted to lengths <= N; it is always
    validated by replaying it on the real code.  Returns a z3 model or None."""
    exps = spec.expansions(N)
    forms = list(ob.pc)
    lem = getattr(ob, 'lemma_ids', set())
    forms += [f for f in (ob.facts or []) if f.get_id() not in lem]
    forms.append(z3.Not(to_z3(ob.goal)))
    lens = spec.length_args(forms)
    forms = [z3.substitute_funs(f, *exps) for f in forms]
    cache = {}
    forms = [expand_quantifiers(f, N, cache) for f in forms]
    s = z3.Solver()
    s.set('timeout', int(timeout_ms))
    for f in forms:
        s.add(f)
    for n in lens:
        s.add(n <= N)
    if s.check() == z3.sat:
        return s.model()
    return None
