"""Spec-level vocabulary (DESIGN section 4): counting and summation functions
over arrays, with the lemma instances the contracts may use.

All functions are uninterpreted for the SMT solver; their meaning is fixed by
the lemma library (lemmas/*.lean) whose statements are instantiated here."""
import z3

from .core import Arr, to_real, to_z3, is_sym
from .lib import ArrTerm, RArr, IArr, BArr, SUM, ISUM, CNT

CGE = z3.Function('CGE', RArr, z3.IntSort(), z3.RealSort(), z3.IntSort())
CLE = z3.Function('CLE', RArr, z3.IntSort(), z3.RealSort(), z3.IntSort())
CEQ = z3.Function('CEQ', RArr, z3.IntSort(), z3.RealSort(), z3.IntSort())


I2R = z3.Function('I2R', IArr, RArr)     # embedding of integer arrays (axiom in background())


def rterm(a):
    """real-valued z3 array term of a numeric Arr (ints are embedded)"""
    if isinstance(a, Arr):
        t = getattr(a, 'term', None)
        if t is not None and getattr(a, 'term_f', None) is a.f:
            if t.sort() == RArr:
                return t
            if t.sort() == IArr:
                return I2R(t)
        return ArrTerm.of(a, 'real')
    if a.sort() == RArr:
        return a
    if a.sort() == IArr:
        return I2R(a)
    raise TypeError('rterm')


def cge(a, n, v):
    """#{i < n : a[i] >= v}"""
    return CGE(rterm(a), to_z3(n), to_real(v))


def cle(a, n, v):
    """#{i < n : a[i] <= v}"""
    return CLE(rterm(a), to_z3(n), to_real(v))


def ceq(a, n, v):
    return CEQ(rterm(a), to_z3(n), to_real(v))

def term(a, want=None):
    """z3 array term of an Arr"""
    if isinstance(a, Arr):
        t = getattr(a, 'term', None)
        if t is not None and want is None and getattr(a, 'term_f', None) is a.f:
            return t
        return ArrTerm.of(a, want)
    return a


def count(a_bool, n=None):
    """#{i < n : b[i]} for a boolean Arr or a python predicate on the index"""
    if isinstance(a_bool, Arr):
        return CNT(ArrTerm.of(a_bool, 'bool'), to_z3(a_bool.shape[0] if n is None else n))
    i = z3.Int('i!cnt')
    return CNT(z3.Lambda([i], a_bool(i)), to_z3(n))


def total(a, n=None):
    if isinstance(a, Arr):
        if a.dtype == 'int64':
            return ISUM(ArrTerm.of(a, 'int'), to_z3(a.shape[0] if n is None else n))
        return SUM(ArrTerm.of(a, 'real'), to_z3(a.shape[0] if n is None else n))
    i = z3.Int('i!sum')
    return SUM(z3.Lambda([i], to_real(a(i))), to_z3(n))


# ---------------------------------------------------------------------------
# background axioms added to every query
# ---------------------------------------------------------------------------

def background():
    """axioms added to every query: definitional (floor, I2R) and the counting lemmas
    of the lemma library (lemmas/Counting.lean: L3 family)"""
    from .core import FLOOR
    x = z3.Real('x!bg')
    A = z3.Const('A!bg', RArr)
    B = z3.Const('B!bg', IArr)
    n, i = z3.Ints('n!bg i!bg')
    v = z3.Real('v!bg')
    ax = [z3.ForAll([x], z3.And(z3.ToReal(FLOOR(x)) <= x, x < z3.ToReal(FLOOR(x)) + 1),
                    patterns=[FLOOR(x)]),
          z3.ForAll([B, i], I2R(B)[i] == z3.ToReal(B[i]), patterns=[I2R(B)[i]]),
          ]
    inr = z3.And(0 <= i, i < n)
    for F, hit in ((CGE, lambda e: e >= v), (CLE, lambda e: e <= v), (CEQ, lambda e: e == v)):
        t = F(A, n, v)
        # L3a: bounds
        ax.append(z3.ForAll([A, n, v], z3.Implies(n >= 0, z3.And(t >= 0, t <= n)), patterns=[t]))
        # L3b: nobody hits -> 0 ; everybody hits -> n
        ax.append(z3.ForAll([A, n, v], z3.Implies(z3.And(n >= 0, z3.ForAll([i], z3.Implies(inr, z3.Not(hit(A[i]))))),
                                                  t == 0), patterns=[t]))
        ax.append(z3.ForAll([A, n, v], z3.Implies(z3.And(n >= 0, z3.ForAll([i], z3.Implies(inr, hit(A[i])))),
                                                  t == n), patterns=[t]))
    Bb = z3.Const('Bb!bg', BArr)
    ax.append(z3.ForAll([Bb, n], z3.Implies(n >= 0, z3.And(CNT(Bb, n) >= 0, CNT(Bb, n) <= n)), patterns=[CNT(Bb, n)]))
    ax.append(z3.ForAll([Bb, n], z3.Implies(z3.And(n >= 0, z3.ForAll([i], z3.Implies(inr, z3.Not(Bb[i])))), CNT(Bb, n) == 0),
                        patterns=[CNT(Bb, n)]))
    ax.append(z3.ForAll([Bb, n], z3.Implies(z3.And(n >= 0, z3.ForAll([i], z3.Implies(inr, Bb[i]))), CNT(Bb, n) == n),
                        patterns=[CNT(Bb, n)]))
    # L0_sum_zero / L0_count_zero
    ax.append(z3.ForAll([A], SUM(A, 0) == 0, patterns=[SUM(A, 0)]))
    ax.append(z3.ForAll([Bb], CNT(Bb, 0) == 0, patterns=[CNT(Bb, 0)]))
    # L4 (L4_sum_prefix_mono): prefix sums of a non-negative array are non-decreasing
    j2 = z3.Int('j!bg')
    ax.append(z3.ForAll([A, n, j2], z3.Implies(z3.And(0 <= n, n <= j2, z3.ForAll([i], z3.Implies(z3.And(0 <= i, i < j2), A[i] >= 0))),
                                               SUM(A, n) <= SUM(A, j2)),
                        patterns=[z3.MultiPattern(SUM(A, n), SUM(A, j2))]))
    # L4: sums of pointwise equal arrays are equal (congruence of SUM / ISUM / CNT)
    A2 = z3.Const('A2!bg', RArr)
    ax.append(z3.ForAll([A, A2, n], z3.Implies(z3.ForAll([i], z3.Implies(inr, A[i] == A2[i])), SUM(A, n) == SUM(A2, n)),
                        patterns=[z3.MultiPattern(SUM(A, n), SUM(A2, n))]))
    from .models_sci import dist_axioms
    ax.extend(dist_axioms())
    # L3c: #>= + #<= = n + #=
    ax.append(z3.ForAll([A, n, v], z3.Implies(n >= 0, CGE(A, n, v) + CLE(A, n, v) == n + CEQ(A, n, v)),
                        patterns=[CGE(A, n, v)]))
    return ax


def expansions(N):
    """definitions of the spec functions for lengths n <= N (used only to search for
    counter-models: with these, the lemma axioms are redundant and are dropped)"""
    A, n, v = z3.Var(0, RArr), z3.Var(1, z3.IntSort()), z3.Var(2, z3.RealSort())
    out = []
    for F, hit in ((CGE, lambda e: e >= v), (CLE, lambda e: e <= v), (CEQ, lambda e: e == v)):
        out.append((F, z3.Sum([z3.If(z3.And(k < n, hit(z3.Select(A, k))), 1, 0) for k in range(N)])))
    out.append((SUM, z3.Sum([z3.If(k < n, z3.Select(A, k), z3.RealVal(0)) for k in range(N)])))
    Ai = z3.Var(0, IArr)
    out.append((ISUM, z3.Sum([z3.If(k < n, z3.Select(Ai, k), z3.IntVal(0)) for k in range(N)])))
    Ab = z3.Var(0, BArr)
    out.append((CNT, z3.Sum([z3.If(z3.And(k < n, z3.Select(Ab, k)), 1, 0) for k in range(N)])))
    j = z3.Int('j!i2r')
    out.append((I2R, z3.Lambda([j], z3.ToReal(z3.Select(Ai, j)))))
    return out


SPEC_FUNS = (CGE, CLE, CEQ, SUM, ISUM, CNT)


def definitional_background():
    from .core import FLOOR
    x = z3.Real('x!bg')
    B = z3.Const('B!bg', IArr)
    i = z3.Int('i!bg')
    return [z3.ForAll([x], z3.And(z3.ToReal(FLOOR(x)) <= x, x < z3.ToReal(FLOOR(x)) + 1), patterns=[FLOOR(x)]),
            z3.ForAll([B, i], I2R(B)[i] == z3.ToReal(B[i]), patterns=[I2R(B)[i]])]


def length_args(formulas):
    """the `n` arguments of all spec-function applications in the formulas"""
    names = set(f.name() for f in SPEC_FUNS)
    out = {}
    seen = set()
    stack = list(formulas)
    while stack:
        t = stack.pop()
        if t.get_id() in seen:
            continue
        seen.add(t.get_id())
        if z3.is_quantifier(t):
            stack.append(t.body())
            continue
        if z3.is_app(t):
            if t.decl().name() in names and t.num_args() >= 2:
                a = t.arg(1)
                if not has_var(a):
                    out[a.get_id()] = a
            stack.extend(t.children())
    return list(out.values())


def has_var(e):
    stack = [e]
    while stack:
        t = stack.pop()
        if z3.is_var(t):
            return True
        if z3.is_app(t):
            stack.extend(t.children())
        elif z3.is_quantifier(t):
            return True
    return False


def decl_names(formulas):
    names = set()
    seen = set()
    stack = list(formulas)
    while stack:
        t = stack.pop()
        if t.get_id() in seen:
            continue
        seen.add(t.get_id())
        if z3.is_quantifier(t):
            stack.append(t.body())
        elif z3.is_app(t):
            names.add(t.decl().name())
            stack.extend(t.children())
    return names


def relevant_background(formulas):
    """only the background axioms whose function symbols occur in the query"""
    names = decl_names(formulas)
    out = []
    for ax in background():
        need = decl_names([ax]) & AXIOM_SYMBOLS
        if need & names:
            out.append(ax)
    return out


AXIOM_SYMBOLS = {'floor', 'I2R', 'CGE', 'CLE', 'CEQ', 'SUM', 'ISUM', 'CNT', 'poisson_cdf', 'nbinom_cdf'}
