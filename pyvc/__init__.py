"""pyvc - verification-condition generator for the real pyCSEP sources.

The package parses functions out of the working tree of /repo (never a copy,
never an import), executes their AST symbolically against sidecar contracts
(/verif/contracts) and discharges the resulting obligations with z3 / cvc5.
See /verif/DESIGN.md section 2.
"""
