"""file / json / csv models: an abstract file system held in ctx.ghost['files'] (name -> content).
Assumed contracts (DESIGN 3): json.load(json.dump(v)) == v for JSON-stable values; csv rows are
lists of string fields."""
from .core import Opaque, PyRaise, Unsupported, builtin_exc
from .lib import model, method


@model('builtins.open')
def _open(L, fname, mode='r', **kw):
    files = L.ctx.ghost.setdefault('files', {})
    if 'r' in mode and fname not in files:
        raise PyRaise(builtin_exc('FileNotFoundError'), str(fname))
    return Opaque('file', fname=fname, mode=mode)


def _enter(self, cm):
    return cm


@model('json.load')
def _json_load(L, fh):
    files = L.ctx.ghost.setdefault('files', {})
    v = files.get(fh.fname)
    if not (isinstance(v, tuple) and v[0] == 'json'):
        raise Unsupported('json.load of a file without json content')
    return v[1]


@model('json.dump')
def _json_dump(L, obj, fh, **kw):
    L.ctx.ghost.setdefault('files', {})[fh.fname] = ('json', obj)
    return None


@model('csv.reader')
def _csv_reader(L, fh, **kw):
    files = L.ctx.ghost.setdefault('files', {})
    v = files.get(fh.fname)
    if not (isinstance(v, tuple) and v[0] == 'rows'):
        raise Unsupported('csv.reader of a file without row content')
    return list(v[1])


# ---------------------------------------------------------------- abstract CSV files of symbolic length
# A file with content ('symrows', n) is a sequence of n rows; row i is an abstract record whose fields are abstract strings.
# What the string layer does with a field is ASSUMED (uninterpreted functions of (row, column)):
#   float(field)      parses (FLOAT_OK) to FLOAT_VAL, else ValueError
#   int(field)        INT_VAL (the contract's precondition says where this must parse)
#   field == ''       IS_EMPTY ;  field.lower() == 'lon'  IS_LON
#   strptime(field)   see contracts/catfile.py
import z3
from .core import to_z3, simp

FLOAT_OK = z3.Function('csv_float_ok', z3.IntSort(), z3.IntSort(), z3.BoolSort())
FLOAT_VAL = z3.Function('csv_float', z3.IntSort(), z3.IntSort(), z3.RealSort())
INT_VAL = z3.Function('csv_int', z3.IntSort(), z3.IntSort(), z3.IntSort())
IS_EMPTY = z3.Function('csv_is_empty', z3.IntSort(), z3.IntSort(), z3.BoolSort())
IS_LON = z3.Function('csv_is_lon_header', z3.IntSort(), z3.BoolSort())


def csv_field(row, col, lowered=False):
    row, col = to_z3(row), to_z3(col)

    def as_float(I):
        if I.ctx.branch(z3.Not(FLOAT_OK(row, col))):
            raise PyRaise(builtin_exc('ValueError'), 'could not convert string to float')
        return FLOAT_VAL(row, col)

    def as_int(I):
        return INT_VAL(row, col)

    def eq_value(I, other):
        if other == '':
            return IS_EMPTY(row, col)
        if other is None:
            return False
        if isinstance(other, str) and lowered and other == 'lon' and simp(col == 0) is True:
            return IS_LON(row)
        raise Unsupported('comparison of a csv field with %r' % (other,))
    f = Opaque('csvfield', is_str=True, row=row, col=col, as_float=as_float, as_int=as_int, eq_value=eq_value,
               truth=z3.Not(IS_EMPTY(row, col)))
    return f


@method('csvfield', 'lower')
def _csvfield_lower(L, f):
    return csv_field(f.row, f.col, lowered=True)


def csv_row(i):
    i = to_z3(i)

    def getitem(I, k):
        if isinstance(k, slice):
            raise Unsupported('slice of a csv row')
        return csv_field(i, k)
    return Opaque('csvrow', idx=i, getitem=getitem)


_prev_csv_reader = _csv_reader


@model('csv.reader')
def _csv_reader2(L, fh, **kw):
    files = L.ctx.ghost.setdefault('files', {})
    v = files.get(fh.fname)
    if isinstance(v, tuple) and v[0] == 'symrows':
        return Opaque('csvrows', n=v[1])
    return _prev_csv_reader(L, fh, **kw)


@model('os.path.isfile')
def _isfile(L, name):
    return name in L.ctx.ghost.setdefault('files', {})


@model('os.path.isdir')
def _isdir(L, name):
    return False


@model('os.path.basename')
def _basename(L, name):
    import os
    if not isinstance(name, str):
        raise Unsupported('basename of a symbolic path')
    return os.path.basename(name)


@model('numpy.genfromtxt')
def _genfromtxt(L, fname, skip_header=0, names=None, usecols=None, dtype=None, **kw):
    """a text table of symbolic length read into a structured array: file content ('table', n, {column name: Arr}) - the
    numbers are those written in the file (assumed: the string layer)"""
    files = L.ctx.ghost.setdefault('files', {})
    v = files.get(fname)
    if not (isinstance(v, tuple) and v[0] == 'table'):
        raise Unsupported('genfromtxt of a file without table content')
    from .core import Arr
    n, cols = v[1], v[2]
    a = Arr((n,), lambda ix: None, {k: c.dtype for k, c in cols.items()}, label='table')
    a.fields = {k: c.snapshot() for k, c in cols.items()}
    return a


@model('numpy.atleast_1d')
def _atleast_1d(L, a):
    a = L.as_arr(a)
    if a.ndim == 0:
        from .core import Arr
        return Arr((1,), lambda ix: a.f(()), a.dtype)
    return a
