"""file / json / csv models: an abstract file system held in ctx.ghost['files'] (name -> content).
Assumed contracts (DESIGN 3): json.load(json.dump(v)) == v for JSON-stable values; csv rows are
lists of string fields."""
from .core import Opaque, PyRaise, Unsupported, builtin_exc
from .lib import model, method


@model('builtins.open')
def _open(L, fname, mode='r', **kw):
    files = L.ctx.ghost.setdefault('files', {})
    if 'r' in mode and fname not in files:
        raise PyRaise(builtin_exc('FileNotFoundError'), str(fname))
    return Opaque('file', fname=fname, mode=mode)


def _enter(self, cm):
    return cm


@model('json.load')
def _json_load(L, fh):
    files = L.ctx.ghost.setdefault('files', {})
    v = files.get(fh.fname)
    if not (isinstance(v, tuple) and v[0] == 'json'):
        raise Unsupported('json.load of a file without json content')
    return v[1]


@model('json.dump')
def _json_dump(L, obj, fh, **kw):
    L.ctx.ghost.setdefault('files', {})[fh.fname] = ('json', obj)
    return None


@model('csv.reader')
def _csv_reader(L, fh, **kw):
    files = L.ctx.ghost.setdefault('files', {})
    v = files.get(fh.fname)
    if not (isinstance(v, tuple) and v[0] == 'rows'):
        raise Unsupported('csv.reader of a file without row content')
    return list(v[1])
