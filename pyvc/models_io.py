"""file / json / csv models: an abstract file system held in ctx.ghost['files'] (name -> content).
Assumed contracts (DESIGN 3): json.load(json.dump(v)) == v for JSON-stable values; csv rows are
lists of string fields."""
from .core import Opaque, PyRaise, Unsupported, builtin_exc
from .lib import model, method


@model('builtins.open')
def _open(L, fname, mode='r', **kw):
    files = L.ctx.ghost.setdefault('files', {})
    if 'r' in mode and fname not in files:
        raise PyRaise(builtin_exc('FileNotFoundError'), str(fname))
    return Opaque('file', fname=fname, mode=mode)


def _enter(self, cm):
    return cm


@model('json.load')
def _json_load(L, fh):
    files = L.ctx.ghost.setdefault('files', {})
    v = files.get(fh.fname)
    if not (isinstance(v, tuple) and v[0] == 'json'):
        raise Unsupported('json.load of a file without json content')
    return v[1]


@model('json.dump')
def _json_dump(L, obj, fh, **kw):
    L.ctx.ghost.setdefault('files', {})[fh.fname] = ('json', obj)
    return None


@model('csv.reader')
def _csv_reader(L, fh, **kw):
    files = L.ctx.ghost.setdefault('files', {})
    v = files.get(fh.fname)
    if not (isinstance(v, tuple) and v[0] == 'rows'):
        raise Unsupported('csv.reader of a file without row content')
    return list(v[1])


# ---------------------------------------------------------------- abstract CSV files of symbolic length
# A file with content ('symrows', n) is a sequence of n rows; row i is an abstract record whose fields are abstract strings.
# What the string layer does with a field is ASSUMED (uninterpreted functions of (row, column)):
#   float(field)      parses (FLOAT_OK) to FLOAT_VAL, else ValueError
#   int(field)        INT_VAL (the contract's precondition says where this must parse)
#   field == ''       IS_EMPTY ;  field.lower() == 'lon'  IS_LON
#   strptime(field)   see contracts/catfile.py
import z3
from .core import to_z3, simp

FLOAT_OK = z3.Function('csv_float_ok', z3.IntSort(), z3.IntSort(), z3.BoolSort())
FLOAT_VAL = z3.Function('csv_float', z3.IntSort(), z3.IntSort(), z3.RealSort())
INT_VAL = z3.Function('csv_int', z3.IntSort(), z3.IntSort(), z3.IntSort())
IS_EMPTY = z3.Function('csv_is_empty', z3.IntSort(), z3.IntSort(), z3.BoolSort())
IS_LON = z3.Function('csv_is_lon_header', z3.IntSort(), z3.BoolSort())
IS_LON_EXACT = z3.Function('csv_is_lon_header_exact', z3.IntSort(), z3.BoolSort())      # first field == 'lon' (case sensitive)
INT_OK = z3.Function('csv_int_ok', z3.IntSort(), z3.IntSort(), z3.BoolSort())


_FIELD_IS = {}


def field_is(literal):
    """field (row, col) == literal, one uninterpreted predicate per string literal of the code"""
    if literal not in _FIELD_IS:
        import re
        _FIELD_IS[literal] = z3.Function('csv_field_is_' + re.sub(r'\W', '_', literal), z3.IntSort(), z3.IntSort(), z3.BoolSort())
    return _FIELD_IS[literal]


CSV_INSTANT_US = z3.Function('csv_instant_us', z3.IntSort(), z3.IntSort(), z3.IntSort())      # UTC instant a time field denotes
CSV_UTC_OFFSET_US = z3.Function('csv_utc_offset_us', z3.IntSort(), z3.IntSort(), z3.IntSort())   # its UTC offset (0 without %z)


def csv_field(row, col, lowered=False):
    row, col = to_z3(row), to_z3(col)

    def as_float(I):
        if I.ctx.branch(z3.Not(FLOAT_OK(row, col))):
            raise PyRaise(builtin_exc('ValueError'), 'could not convert string to float')
        return FLOAT_VAL(row, col)

    def as_int(I):
        # contracts that cover fields which need not be integers set ghost['csv_int_may_fail'] (then int() branches on INT_OK)
        if I.ctx.ghost.get('csv_int_may_fail') and I.ctx.branch(z3.Not(INT_OK(row, col))):
            raise PyRaise(builtin_exc('ValueError'), 'invalid literal for int()')
        return INT_VAL(row, col)

    def eq_value(I, other):
        if other == '':
            return IS_EMPTY(row, col)
        if other is None:
            return False
        if isinstance(other, str) and lowered and other == 'lon' and simp(col == 0) is True:
            return IS_LON(row)
        if isinstance(other, str) and not lowered and other == 'lon' and simp(col == 0) is True:
            return IS_LON_EXACT(row)
        if isinstance(other, str) and other and not lowered:
            return field_is(other)(row, col)
        raise Unsupported('comparison of a csv field with %r' % (other,))
    f = Opaque('csvfield', is_str=True, row=row, col=col, as_float=as_float, as_int=as_int, eq_value=eq_value,
               truth=z3.Not(IS_EMPTY(row, col)))
    return f


@method('csvfield', 'lower')
def _csvfield_lower(L, f):
    return csv_field(f.row, f.col, lowered=True)


def csv_row(i):
    i = to_z3(i)

    def getitem(I, k):
        if isinstance(k, slice):
            raise Unsupported('slice of a csv row')
        return csv_field(i, k)
    return Opaque('csvrow', idx=i, getitem=getitem)


_prev_csv_reader = _csv_reader


@model('csv.reader')
def _csv_reader2(L, fh, **kw):
    files = L.ctx.ghost.setdefault('files', {})
    v = files.get(fh.fname)
    if isinstance(v, tuple) and v[0] == 'symrows':
        return Opaque('csvrows', n=v[1])
    return _prev_csv_reader(L, fh, **kw)


@model('os.path.isfile')
def _isfile(L, name):
    return name in L.ctx.ghost.setdefault('files', {})


@model('os.path.isdir')
def _isdir(L, name):
    return False


@model('os.path.basename')
def _basename(L, name):
    import os
    if not isinstance(name, str):
        raise Unsupported('basename of a symbolic path')
    return os.path.basename(name)


@model('numpy.genfromtxt')
def _genfromtxt(L, fname, skip_header=0, names=None, usecols=None, dtype=None, **kw):
    """a text table of symbolic length read into a structured array: file content ('table', n, {column name: Arr}) - the
    numbers are those written in the file (assumed: the string layer)"""
    files = L.ctx.ghost.setdefault('files', {})
    v = files.get(fname)
    if isinstance(v, tuple) and v[0] == 'strtable':
        return _genfromtxt_str(L, v, skip_header, names, usecols, dtype, kw)
    if not (isinstance(v, tuple) and v[0] == 'table'):
        raise Unsupported('genfromtxt of a file without table content')
    from .core import Arr
    n, cols = v[1], v[2]
    a = Arr((n,), lambda ix: None, {k: c.dtype for k, c in cols.items()}, label='table')
    a.fields = {k: c.snapshot() for k, c in cols.items()}
    return a


def _genfromtxt_str(L, v, skip_header, names, usecols, dtype, kw):
    """numpy.genfromtxt(fname, dtype='str'[, delimiter=..]) of a text table: file content ('strtable', n, w, STRID) - n rows of w
    fields, field (r, k) is the abstract string STRID(r, k) (an identity: equal strings <-> equal identities).  A one-row file
    comes back as a vector (numpy squeezes it), any other as an (n, w) array of strings."""
    from .core import Arr
    if dtype != 'str' or skip_header or names is not None or usecols is not None or set(kw) - {'delimiter'}:
        raise Unsupported('genfromtxt of a string table with these options')
    n, w, STRID = v[1], v[2], v[3]
    if L.ctx.branch(to_z3(n) == 1):
        return Arr((w,), lambda ix: STRID(z3.IntVal(0), to_z3(ix[0])), 'str', label='strtable row')
    return Arr((n, w), lambda ix: STRID(to_z3(ix[0]), to_z3(ix[1])), 'str', label='strtable')


@model('numpy.atleast_2d')
def _atleast_2d(L, a):
    from .core import Arr
    a = L.as_arr(a)
    if a.ndim == 1:
        base = a
        return Arr((1, a.shape[0]), lambda ix: base.f((ix[1],)), a.dtype)
    if a.ndim == 2:
        return a
    raise Unsupported('atleast_2d of rank %d' % a.ndim)


@model('numpy.atleast_1d')
def _atleast_1d(L, a):
    a = L.as_arr(a)
    if a.ndim == 0:
        from .core import Arr
        return Arr((1,), lambda ix: a.f(()), a.dtype)
    return a


# ---------------------------------------------------------------- plain numeric tables (numpy.loadtxt) and first occurrences
@model('numpy.loadtxt')
def _loadtxt(L, fname, ndmin=0, delimiter=None, **kw):
    """a whitespace-separated table of symbolic length read into a 2-d float array: file content
    ('table2d', n, [column function, ...]); the numbers are those written in the file (assumed: the string layer)"""
    files = L.ctx.ghost.setdefault('files', {})
    v = files.get(fname)
    if not (isinstance(v, tuple) and v[0] == 'table2d'):
        raise Unsupported('loadtxt of a file without table content')
    if ndmin != 2 or kw:
        raise Unsupported('loadtxt without ndmin=2 (a one-row file would be read as a vector)')
    from .core import Arr
    n, cols = v[1], list(v[2])

    def f(ix):
        k = simp(ix[1])
        if not isinstance(k, int):
            raise Unsupported('symbolic column of a text table')
        return cols[k](to_z3(ix[0]))
    return Arr((n, len(cols)), f, 'float64', label='table2d')


def unique_first_occurrence(L, a, axis):
    """numpy.unique(a, return_index=True[, axis=0]) -> (values, index): ASSUMED numpy contract - `index` holds, in the order of
    the sorted distinct values, the position of the first occurrence of each distinct row (element).  Ghost: FO, the increasing
    enumeration of the first-occurrence positions (what numpy.sort(index) returns):
        FO strictly increasing, in range; no earlier row equals row FO(j); every row t equals row FO(J(t)) with FO(J(t)) <= t."""
    from .core import Arr, to_real
    a = L.as_arr(a)
    ctx = L.ctx
    if a.ndim == 2 and axis == 0 and isinstance(simp(a.shape[1]), int):
        w = simp(a.shape[1])
        roweq = lambda s, t: z3.And(*[to_real(a.f((s, k))) == to_real(a.f((t, k))) for k in range(w)])
        trig = lambda t: a.f((t, 0))
    elif a.ndim == 1 and axis in (None, 0):
        roweq = lambda s, t: to_real(a.f((s,))) == to_real(a.f((t,)))
        trig = lambda t: a.f((t,))
    else:
        raise Unsupported('numpy.unique(return_index) of this shape / axis')
    n = to_z3(a.shape[0])
    U = ctx.fresh_int('n_unique')
    FO = ctx.fresh_fun('first_occ', z3.IntSort(), z3.IntSort())
    J = ctx.fresh_fun('occ_class', z3.IntSort(), z3.IntSort())
    PERM = ctx.fresh_fun('unique_order', z3.IntSort(), z3.IntSort())
    j, j2, t = z3.Ints('j!fo j2!fo t!fo')
    ctx.fact(z3.And(U >= 0, U <= n))
    ctx.fact(z3.ForAll([j], z3.Implies(z3.And(0 <= j, j < U), z3.And(0 <= FO(j), FO(j) < n)), patterns=[FO(j)]))
    ctx.fact(z3.ForAll([j, j2], z3.Implies(z3.And(0 <= j, j < j2, j2 < U), FO(j) < FO(j2)), patterns=[z3.MultiPattern(FO(j), FO(j2))]))
    def mentions(e, v):
        todo, seen = [e], set()
        while todo:
            x = todo.pop()
            if x.get_id() in seen:
                continue
            seen.add(x.get_id())
            if x.eq(v):
                return True
            todo.extend(x.children())
        return False
    tt = to_z3(trig(t))
    row_trigger = mentions(tt, t) and not z3.is_var(tt) and tt.num_args() > 0      # a one-row table has no row index in its terms
    ctx.fact(z3.ForAll([j, t], z3.Implies(z3.And(0 <= j, j < U, 0 <= t, t < FO(j)), z3.Not(roweq(t, FO(j)))),
                       patterns=[z3.MultiPattern(FO(j), tt)] if row_trigger else []))
    ctx.fact(z3.ForAll([t], z3.Implies(z3.And(0 <= t, t < n), z3.And(0 <= J(t), J(t) < U, FO(J(t)) <= t, roweq(FO(J(t)), t))),
                       patterns=[J(t), tt] if row_trigger else [J(t)]))
    fo = Arr((U,), lambda ix: FO(to_z3(ix[0])), 'int64', label='first_occ')
    ctx.fact(z3.ForAll([j], z3.Implies(z3.And(0 <= j, j < U), z3.And(0 <= PERM(j), PERM(j) < U)), patterns=[PERM(j)]))
    idx = Arr((U,), lambda ix: FO(PERM(to_z3(ix[0]))), 'int64', label='unique_index')
    idx.ghost['first_occ'] = fo
    ctx.ghost.setdefault('first_occurrences', []).append(dict(U=U, FO=FO, J=J, n=n, roweq=roweq))
    return (Opaque('unique_values'), idx)


from . import models_sci     # noqa: E402,F401  (its numpy.unique cases are wrapped here)
from .lib import MODELS      # noqa: E402
_prev_unique_io = MODELS['numpy.unique']


@model('numpy.unique')
def _np_unique3(L, a, return_index=False, return_inverse=False, return_counts=False, axis=None, **kw):
    if return_index and not (return_inverse or return_counts or kw):
        return unique_first_occurrence(L, a, axis)
    return _prev_unique_io(L, a, return_index=return_index, return_inverse=return_inverse, return_counts=return_counts, axis=axis, **kw)


@model('os.stat')
def _os_stat(L, name, **kw):
    """size of an abstract file: positive iff it holds at least one row (a table written with one line per row)"""
    files = L.ctx.ghost.setdefault('files', {})
    v = files.get(name)
    if v is None:
        raise PyRaise(builtin_exc('FileNotFoundError'), str(name))
    if isinstance(v, tuple) and v[0] in ('table2d', 'strtable', 'table', 'symrows'):
        n = to_z3(v[1])
        size = L.ctx.fresh_int('st_size')
        L.ctx.fact(z3.And(size >= 0, (size == 0) == (n == 0)))
        return Opaque('stat_result', st_size=size)
    raise Unsupported('os.stat of this file content')


@model('os.path.exists')
def _exists(L, name):
    return name in L.ctx.ghost.setdefault('files', {})


@model('os.path.splitext')
def _splitext(L, name):
    import os
    if not isinstance(name, str):
        raise Unsupported('splitext of a symbolic path')
    return os.path.splitext(name)
