import argparse
import os
import subprocess
import sys


def main():
    if len(sys.argv) > 1 and sys.argv[1] == 'replay':
        from .driver import VENV_PY, VERIF, rt_env
        p = subprocess.run([VENV_PY, '-m', 'rt.main', 'replay', os.path.abspath(sys.argv[2])], cwd=VERIF, env=rt_env())
        return p.returncode
    ap = argparse.ArgumentParser()
    ap.add_argument('prop')
    ap.add_argument('--tier', default=os.environ.get('VERIF_TIER', 'quick'), choices=['quick', 'thorough'])
    ap.add_argument('--seed', type=int, default=int(os.environ.get('VERIF_SEED', '0') or 0))
    ap.add_argument('--only', default=None, choices=['deductive', 'bounded'])
    a = ap.parse_args()
    _guards(a.prop, a.tier)
    from .driver import run_property
    return run_property(a.prop, a.tier, a.seed, a.only)


def _guards(prop, tier):
    """a check must end: (1) the in-process z3 may use at most 24 GB (it raises, the query counts as undecided); (2) a watchdog thread
    ends the process with exit 2 (undecided - never a violation) once the wall-clock budget of the tier is used up.  The budget is
    several times the slowest check on the unchanged tree; PYVC_BUDGET_S overrides it."""
    import threading
    import time
    try:
        import z3
        z3.set_param('memory_max_size', int(os.environ.get('PYVC_Z3_MEMORY_MB', '24000')))
    except Exception:
        pass
    budget = float(os.environ.get('PYVC_BUDGET_S', '2700' if tier == 'quick' else '10800'))

    def watch():
        time.sleep(budget)
        try:
            sys.stdout.write('  UNDECIDED: {"function": "*", "reason": "the checker used up its wall-clock budget of %d s (a solver call did not return)"}\n' % budget)
            sys.stdout.write('%s tier=%s obligations=? discharged=? undecided=1 violations=0 (aborted by the watchdog)\n' % (prop, tier))
            sys.stdout.flush()
        finally:
            os._exit(2)
    threading.Thread(target=watch, daemon=True).start()


if __name__ == '__main__':
    try:
        rc = main()
    except SystemExit as e:
        rc = e.code if isinstance(e.code, int) else (0 if e.code is None else 3)
    except BaseException:
        import traceback
        traceback.print_exc()
        rc = 3
    # leave without tearing the z3 context down: freeing millions of terms one by one at interpreter exit has been seen to
    # take more than twenty minutes after the verdict was already printed
    sys.stdout.flush()
    sys.stderr.flush()
    os._exit(rc if isinstance(rc, int) else 3)
