"""Property runner: deductive part (obligations of every function in the property's
cone), counter-model search + native replay, bounded stand-ins, known findings,
evidence, exit code (DESIGN section 1)."""
import fractions
import importlib
import json
import os
import subprocess
import sys
import time

import z3

from . import solve
from .contracts import REG, run_case
from .core import Arr, REPO, Repo, is_sym, simp, to_z3

VERIF = os.path.dirname(os.path.dirname(os.path.abspath(__file__)))
VENV_PY = os.environ.get('PYVC_VENV_PY', '/venv/bin/python')


def rt_env():
    env = dict(os.environ)
    env['PYTHONPATH'] = REPO + os.pathsep + VERIF
    env['PYTHONWARNINGS'] = 'ignore'
    env['MPLBACKEND'] = 'Agg'
    return env


# ----------------------------------------------------------------- concretise
def model_value(m, v, cap=8):
    """z3 model -> JSON-able python value for a contract parameter"""
    if isinstance(v, Arr):
        shape = []
        for d in v.shape:
            dv = m.eval(to_z3(d), model_completion=True)
            shape.append(min(dv.as_long(), cap) if z3.is_int_value(dv) else 0)
        if len(shape) == 1:
            data = [model_value(m, v.f((k,))) for k in range(shape[0])]
        elif len(shape) == 2:
            data = [[model_value(m, v.f((i, j))) for j in range(shape[1])] for i in range(shape[0])]
        elif len(shape) == 0:
            return model_value(m, v.f(()))
        else:
            raise ValueError('rank')
        dt = v.dtype if isinstance(v.dtype, str) else 'float64'
        return {'__ndarray__': data, 'dtype': dt}
    if is_sym(v):
        e = m.eval(v, model_completion=True)
        if z3.is_int_value(e):
            return e.as_long()
        if z3.is_rational_value(e):
            fr = e.as_fraction()
            return float(fractions.Fraction(fr.numerator, fr.denominator))
        if z3.is_true(e):
            return True
        if z3.is_false(e):
            return False
        if z3.is_algebraic_value(e):
            return float(e.approx(20).as_fraction())
        return str(e)
    if isinstance(v, tuple):
        return {'__tuple__': [model_value(m, x) for x in v]}
    if isinstance(v, list):
        return [model_value(m, x) for x in v]
    if isinstance(v, (int, float, str, bool)) or v is None:
        return v
    if isinstance(v, dict):
        return {k: model_value(m, x) for k, x in v.items()}
    return repr(v)


class PropertyRun:
    def __init__(self, prop, tier, seed):
        self.prop = prop
        self.pid = prop.ID
        self.tier = tier
        self.seed = seed
        self.t0 = time.time()
        self.results = []       # (case, CaseResult, verdicts)
        self.violations = []    # dicts
        self.undecided = []
        self.known = []
        self.bounded = []
        self.notes = []
        self.replay_dir = os.path.join(VERIF, 'replays', self.pid)
        if os.environ.get('PYVC_REPO') and os.path.realpath(os.environ['PYVC_REPO']) != os.path.realpath('/repo'):
            # runs against scratch copies (seeded changes) may overlap in time: one replay directory per process
            self.replay_dir = os.path.join(VERIF, 'replays', '_scratch_%d' % os.getpid(), self.pid)

    # ------------------------------------------------------------ deductive
    def run_deductive(self):
        for m in self.prop.CONTRACT_MODULES:
            importlib.import_module(m)
        repo = Repo()
        timeout = 20 if self.tier == 'quick' else 90
        opts = dict(getattr(self.prop, 'OPTS', {}))
        all_obs = []
        for q in self.prop.CONE:
            cases = REG.cases(q)
            if not cases:
                self.undecided.append({'function': q, 'reason': 'no contract registered'})
                continue
            for case in cases:
                if self.pid not in getattr(case, 'properties', (self.pid,)):
                    continue
                if getattr(case, 'assumed', False) or getattr(case, 'justified_by', None):
                    # assumed contract: usable by callers, never verified, always reported as an assumption;
                    # justified_by: a view of the function that is the statement of a lemma proved elsewhere in the cone
                    continue
                try:
                    res = run_case(case, repo=repo, opts=opts)
                except Exception as e:  # engine crash: never a violation
                    import traceback
                    self.undecided.append({'function': q, 'case': case.case,
                                           'reason': 'engine error: ' + traceback.format_exc()[-600:]})
                    continue
                for u in res.unsupported:
                    self.undecided.append({'function': q, 'case': case.case, 'reason': 'unsupported: ' + u})
                if not res.obligations and not res.unsupported:
                    self.undecided.append({'function': q, 'case': case.case, 'reason': 'zero obligations (vacuity guard)'})
                if res.returns + res.raises == 0 and not res.unsupported:
                    self.undecided.append({'function': q, 'case': case.case, 'reason': 'no path reaches a return (vacuity guard)'})
                self.results.append([case, res, None])
                all_obs.append((len(self.results) - 1, res.obligations))
        flat = [o for _, obs in all_obs for o in obs]
        verdicts = solve.discharge(flat, timeout_s=timeout)
        k = 0
        for idx, obs in all_obs:
            self.results[idx][2] = verdicts[k:k + len(obs)]
            k += len(obs)
        if os.environ.get('PYVC_SLOW'):
            for case, res, vs in self.results:
                for v in vs or []:
                    if v.seconds > float(os.environ['PYVC_SLOW']):
                        print('SLOW %.1fs %s %s %s' % (v.seconds, v.status, v.backend, v.ob.name[-120:]))
        # vacuity: every reported return/raise path must be satisfiable
        self.covers = {'checked': 0, 'not_refuted': 0, 'unreachable': 0}
        cov = [(case, tag, kind, pc) for case, res, _ in self.results for tag, kind, pc in res.covers]
        for (case, tag, kind, pc), st in zip(cov, solve.check_sat_many([c[3] for c in cov])):
            self.covers['checked'] += 1
            if st == 'unsat':
                self.covers['unreachable'] += 1
                if kind == 'return':
                    self.notes.append('vacuity: return path %s of %s/%s is unreachable under the contract'
                                      % (tag, case.qualname, case.case))
            else:
                self.covers['not_refuted'] += 1
        # failed obligations -> counter-model -> replay
        # (bounded effort: stop after 3 confirmed violations / 10 attempts / 150 s; the rest is listed)
        t_open = time.time()
        attempts = 0
        self.open_not_examined = 0
        for case, res, vs in self.results:
            for v in vs:
                if v.status == 'unsat' or v.ob.kind == 'hint':
                    continue
                confirmed = sum(1 for r in self.violations if r.get('kind') == 'obligation+replay')
                if confirmed >= 3 or attempts >= 10 or time.time() - t_open > 150:
                    self.open_not_examined += 1
                    continue
                attempts += 1
                self.handle_open_obligation(case, res, v)
        # paths outside the engine (a construct it does not model): the implicit obligation "every path of the function lies in the
        # verified subset" is open.  If the contract names a directed input family, it is run on the real code; only an input
        # that FAILS there turns the open obligation into a reported violation, otherwise the path stays undecided.
        for case, res, vs in self.results:
            if not res.unsupported or not getattr(case, 'directed', None):
                continue
            if sum(1 for r in self.violations if r.get('kind', '').endswith('replay')) >= 3 or time.time() - t_open > 240:
                break
            self.handle_engine_gap(case, res)
        if self.open_not_examined:
            msg = '%d further undischarged obligations not examined (effort cap)' % self.open_not_examined
            self.notes.append(msg)
            if not self.violations:
                self.undecided.append({'function': '*', 'reason': msg})

    def _counter_model_args(self, case, res, v):
        """counter-model search + witness extraction in a forked child with memory / CPU limits: the expansion of spec
        functions and quantifiers can blow up on large VCs, and that must never take the checker down.
        Returns (args | None, how, model_found)."""
        import resource
        import select
        r, w = os.pipe()
        pid = os.fork()
        if pid == 0:
            out = {'args': None, 'how': None, 'found': False}
            try:
                os.close(r)
                resource.setrlimit(resource.RLIMIT_AS, (6 << 30, 6 << 30))
                resource.setrlimit(resource.RLIMIT_CPU, (90, 90))
                model = v.model
                how = 'solver model (complete query)'
                if model is None:
                    model = solve.find_counterexample(v.ob, N=3, timeout_ms=8000)
                    how = 'counter-model of the VC with spec functions expanded for lengths <= 3'
                if model is not None:
                    out['found'], out['how'] = True, how
                    if getattr(case, 'oracle', None):
                        params = {k: p for k, p in res.witness_terms.items() if not k.startswith('_')}
                        wit = getattr(case, 'witness', None)
                        out['args'] = wit(model, params) if wit else {k: model_value(model, p) for k, p in params.items()}
            except BaseException as e:
                out['error'] = repr(e)[:300]
            try:
                os.write(w, json.dumps(out, default=str).encode())
            finally:
                os._exit(0)
        os.close(w)
        data = b''
        deadline = time.time() + 120
        while time.time() < deadline:
            ready, _, _ = select.select([r], [], [], 1.0)
            if ready:
                chunk = os.read(r, 1 << 16)
                if not chunk:
                    break
                data += chunk
        else:
            try:
                os.kill(pid, 9)
            except OSError:
                pass
        os.close(r)
        try:
            os.waitpid(pid, 0)
        except OSError:
            pass
        try:
            out = json.loads(data.decode()) if data else {}
        except Exception:
            out = {}
        return out.get('args'), out.get('how'), bool(out.get('found'))

    def handle_open_obligation(self, case, res, v):
        args, how, found = self._counter_model_args(case, res, v)
        model = True if found else None
        rec = {'property': self.pid, 'obligation': v.ob.name, 'path': v.ob.path, 'solver_status': v.status,
               'backend': v.backend, 'solver_detail': v.detail, 'function': case.qualname, 'case': case.case,
               'goal': str(v.ob.goal)[:2000]}
        confirmed = False
        if args is not None and getattr(case, 'oracle', None):
            try:
                rec['counter_model_from'] = how
                rec['oracle'] = case.oracle
                rec['oracle_modules'] = getattr(self.prop, 'ORACLE_MODULES', [])
                rec['args'] = args
                path = self.write_replay(rec)
                out = self.run_replay(path)
                rec['replay'] = out
                confirmed = bool(out.get('confirmed'))
                self.write_replay(rec, path)
            except Exception as e:
                rec['replay_error'] = repr(e)
        if not confirmed and getattr(case, 'directed', None):
            # The failed clause is about the shape of a call (which callee, which arguments): the solver's counter-model lives
            # in the contract's abstract records and cannot be turned into real objects.  The contract names a small family of
            # concrete inputs that exercise this call; each is run on the real code against an oracle computed from the
            # property statement.  Only an input that FAILS on the real code confirms the violation.
            fam = case.directed() if callable(case.directed) else case.directed
            for oname, args in fam:
                try:
                    rec2 = dict(rec)
                    rec2.pop('replay', None)
                    rec2['counter_model_from'] = 'directed input family of the contract (the failed clause is structural)'
                    rec2['oracle'] = oname
                    rec2['oracle_modules'] = getattr(self.prop, 'ORACLE_MODULES', [])
                    rec2['args'] = args
                    path = self.write_replay(rec2)
                    out = self.run_replay(path)
                    rec2['replay'] = out
                    if out.get('confirmed'):
                        self.write_replay(rec2, path)
                        rec = rec2
                        confirmed = True
                        break
                    os.remove(path)
                except Exception as e:
                    rec['replay_error'] = repr(e)
        if confirmed:
            rec['kind'] = 'obligation+replay'
            self.add_violation(rec)
        elif v.status == 'sat':
            # genuine counter-model of the VC that does not replay: reported, flagged
            rec['kind'] = 'obligation-sat-no-replay'
            rec['no_failing_input_found'] = True
            rec['pending_directed_search'] = True
            self.add_violation(rec)
        else:
            rec['kind'] = 'undecided'
            self.undecided.append({'function': case.qualname, 'case': case.case, 'obligation': v.ob.name,
                                   'reason': 'solver %s (%s)' % (v.status, v.detail or 'no detail'),
                                   'counter_model_tried': model is not None})

    def handle_engine_gap(self, case, res):
        rec = {'property': self.pid, 'obligation': '%s:%s.every path lies in the verified subset' % (case.qualname, case.case),
               'path': res.unsupported[0].split(':')[0], 'solver_status': 'not-generated', 'backend': 'none',
               'solver_detail': 'path outside the engine: ' + '; '.join(res.unsupported)[:400], 'function': case.qualname, 'case': case.case}
        fam = case.directed() if callable(case.directed) else case.directed
        for oname, args in fam:
            try:
                rec2 = dict(rec)
                rec2['counter_model_from'] = 'directed input family of the contract (no verification condition could be generated for this path)'
                rec2['oracle'] = oname
                rec2['oracle_modules'] = getattr(self.prop, 'ORACLE_MODULES', [])
                rec2['args'] = args
                path = self.write_replay(rec2)
                out = self.run_replay(path)
                rec2['replay'] = out
                if out.get('confirmed'):
                    self.write_replay(rec2, path)
                    rec2['kind'] = 'engine-gap+replay'
                    self.add_violation(rec2)
                    return
                os.remove(path)
            except Exception as e:
                rec['replay_error'] = repr(e)

    def write_replay(self, rec, path=None):
        os.makedirs(self.replay_dir, exist_ok=True)
        if path is None:
            k = len(os.listdir(self.replay_dir))
            path = os.path.join(self.replay_dir, 'v%03d.json' % k)
        with open(path, 'w') as fh:
            json.dump(rec, fh, indent=1, default=str)
        rec['replay_path'] = path
        return path

    def run_replay(self, path):
        p = subprocess.run([VENV_PY, '-m', 'rt.main', 'replay', path], cwd=VERIF, env=rt_env(),
                           capture_output=True, text=True, timeout=600)
        for line in p.stdout.splitlines():
            if line.startswith('REPLAY-RESULT '):
                return json.loads(line[len('REPLAY-RESULT '):])
        return {'confirmed': False, 'error': (p.stdout + p.stderr)[-800:]}

    # --------------------------------------------------------------- bounded
    def run_bounded(self):
        if not getattr(self.prop, 'BOUNDED', False):
            return
        out = os.path.join(self.replay_dir, '_bounded.json')
        os.makedirs(self.replay_dir, exist_ok=True)
        t0 = time.time()
        p = subprocess.run([VENV_PY, '-m', 'rt.main', 'bounded', self.pid, self.tier, str(self.seed), out],
                           cwd=VERIF, env=rt_env(), capture_output=True, text=True,
                           timeout=3600 if self.tier == 'thorough' else 900)
        if p.returncode != 0 or not os.path.exists(out):
            self.undecided.append({'function': 'bounded stand-in', 'reason': 'run-time layer failed: ' + (p.stderr or p.stdout)[-600:]})
            return
        with open(out) as fh:
            res = json.load(fh)
        os.remove(out)
        res['wall_s'] = time.time() - t0
        fails = res.pop('failures', [])
        for kf in res.get('known_findings', []) or []:
            rec = {'what': kf['what'] + ' [%d cases in the bounded suite, e.g. %s]' % (
                kf.get('count', 0), json.dumps(kf.get('example', {}).get('args'), default=str)[:160])}
            if not any(k['what'].startswith(kf['what']) for k in self.known):
                self.known.append(rec)
        self.bounded.append(res)
        for f in fails:
            rec = {'property': self.pid, 'kind': 'bounded-contract-fired', 'oracle': f['oracle'], 'args': f['args'],
                   'oracle_modules': getattr(self.prop, 'ORACLE_MODULES', []),
                   'replay': {'confirmed': True, 'violated_clauses': f['violated_clauses']},
                   'obligation': 'run-time contract %s (bounded stand-in)' % f['oracle']}
            self.write_replay(rec)
            self.add_violation(rec)

    # -------------------------------------------------------- known findings
    def add_violation(self, rec):
        kf = match_known(self.pid, rec)
        if kf is not None:
            if kf not in self.known:
                self.known.append(kf)
            rec['known_finding'] = kf['what']
            return
        self.violations.append(rec)

    # -------------------------------------------------------------- evidence
    def finish(self):
        wall = time.time() - self.t0
        # proof-step hints count only when discharged (an undischarged hint is simply not used)
        n_obl = sum(1 for _, _, vs in self.results for v in vs if v.ob.kind != 'hint' or v.status == 'unsat')
        n_dis = sum(1 for _, _, vs in self.results for v in vs if v.status == 'unsat')
        n_hint_unused = sum(1 for _, _, vs in self.results for v in vs if v.ob.kind == 'hint' and v.status != 'unsat')
        backends = {}
        solver_s = 0.0
        for _, _, vs in self.results:
            for v in vs:
                backends[v.backend] = backends.get(v.backend, 0) + (1 if v.status == 'unsat' else 0)
                solver_s += v.seconds
        funcs = []
        inlined, models, lemmas, used_contracts, dropped = set(), set(), set(), set(), set()
        samples = []
        for case, res, vs in self.results:
            info = dict(res.source or {})
            info.update({'case': case.case, 'paths': res.paths, 'returns': res.returns, 'raises': res.raises,
                         'obligations': len(vs), 'discharged': sum(1 for v in vs if v.status == 'unsat'),
                         'symex_s': round(res.wall, 2)})
            funcs.append(info)
            inlined |= res.inlined
            models |= res.used_models
            lemmas |= res.used_lemmas
            used_contracts |= res.used_contracts
            dropped |= set(res.dropped)
            for v in vs[:2]:
                if len(samples) < 4 and not z3.is_true(v.ob.goal):
                    samples.append({'obligation': v.ob.name, 'status': v.status, 'backend': v.backend,
                                    'path_condition': [str(x)[:160] for x in v.ob.pc[:6]],
                                    'goal': str(v.ob.goal)[:400]})
        for b in self.bounded:
            for s_ in b.get('samples', [])[:1]:
                samples.append({'bounded_case': s_})
        level = self.prop.LEVEL
        proof_ok = (n_obl > 0 and n_dis == n_obl and not self.undecided)
        cov = {
            'obligations': n_obl,
            'discharged': n_dis,
            'checker_cmd': './check %s --tier %s' % (self.pid, self.tier),
            'trusted_base': sorted(list(getattr(self.prop, 'TRUSTED', [])) +
                                   ['library model: ' + m for m in sorted(models)] +
                                   ['lemma instance: ' + l for l in sorted(lemmas)]),
            'explanation': getattr(self.prop, 'EXPLANATION', ''),
            'functions_under_contract': funcs,
            'inlined_callees': sorted(inlined - {f.get('qualname') for f in funcs}),
            'callee_contracts_used': sorted(used_contracts),
            'callee_contracts_not_verified_in_this_check': sorted(
                q for q in used_contracts
                if (q not in self.prop.CONE and not any(getattr(cs, 'justified_by', None) in self.prop.CONE for cs in REG.cases(q)))
                or all(getattr(cs, 'assumed', False) for cs in REG.cases(q))),
            'dropped_statements': sorted(dropped),
            'backends': backends,
            'solver_s': round(solver_s, 2),
            'float_model': getattr(self.prop, 'FLOAT_MODEL', 'R (floats as reals)'),
            'vacuity': getattr(self, 'covers', {}),
            'lemma_library': dict(lemma_library_status(), used={l: LEMMA_MAP.get(l, []) for l in sorted(lemmas)}),
            'proof_step_hints_not_discharged': n_hint_unused,
            'notes': self.notes,
            'undecided': self.undecided,
            'bounded': self.bounded,
            'known_findings_matched': [k['what'] for k in self.known],
            'samples': samples,
            'evaluations': sum(b.get('evaluations', 0) for b in self.bounded) + n_obl,
            'distinct_nontrivial': sum(b.get('distinct_nontrivial', 0) for b in self.bounded) + n_dis,
            'rule': 'obligations: one SMT query per contract clause per path of the real function; '
                    'bounded: see coverage.bounded[*].bound',
        }
        ev = {
            'property_id': self.pid, 'tier': self.tier, 'seed': self.seed, 'level': level,
            'coverage': cov,
            'assumptions': list(getattr(self.prop, 'ASSUMPTIONS', [])),
            'wall_s': round(wall, 2),
            'violations': len(self.violations),
        }
        # a run against a scratch copy of the repository (PYVC_REPO, used for seeded changes) must not overwrite the
        # evidence of the real tree
        scratch = os.environ.get('PYVC_REPO') and os.path.realpath(os.environ['PYVC_REPO']) != os.path.realpath('/repo')
        evdir = os.path.join(VERIF, '.work', 'evidence_scratch') if scratch else os.path.join(VERIF, 'evidence')
        os.makedirs(evdir, exist_ok=True)
        with open(os.path.join(evdir, self.pid + '.json'), 'w') as fh:
            json.dump(ev, fh, indent=1, default=str)
        for k in self.known:
            print('KNOWN-FINDING: property=%s %s' % (self.pid, k['what']))
        print('%s tier=%s obligations=%d discharged=%d undecided=%d bounded_evaluations=%d violations=%d wall=%.1fs'
              % (self.pid, self.tier, n_obl, n_dis, len(self.undecided),
                 sum(b.get('evaluations', 0) for b in self.bounded), len(self.violations), wall))
        if self.violations:
            seen = set()
            shown = 0
            for rec in self.violations:
                key = rec.get('obligation')
                if key in seen or shown >= 8:
                    continue
                seen.add(key)
                shown += 1
                path = os.path.relpath(rec.get('replay_path') or self.write_replay(rec), VERIF)
                tail = ' no-failing-input-found' if rec.get('no_failing_input_found') else ''
                print('  violated: %s' % rec.get('obligation'))
                cl = (rec.get('replay') or {}).get('violated_clauses')
                if cl:
                    print('    real code: %s' % cl[0][:300])
                print('VIOLATION property=%s replay=%s%s' % (self.pid, path, tail))
            return 1
        if self.undecided:
            for u in self.undecided[:20]:
                print('  UNDECIDED: %s' % json.dumps(u, default=str)[:400])
            return 2
        return 0


LEMMA_MAP = {
    'L9.enum_unique': ['L9_enum_unique'],
    'L10.row_layout': ['L10_base_step', 'L10_row_decompose', 'L10_row_compose'],
    'L0.count_unfold': ['L0_count_unfold', 'L0_sum_unfold', 'L0_count_zero', 'L0_sum_zero'],
    'L4.sum_prefix_mono': ['L4_sum_prefix_mono'],
    'L4.sum_point_update': ['L4_sum_point_update'],
    'L1.fibre_weighted': ['L1_fibre_weighted'],
    'L4.sum_neg': ['L4_sum_neg'],
    'L3.count_prefix': ['L3_count_prefix_mono', 'L3_count_prefix_lt'],
    'L3.count_pos': ['L3b_count_pos', 'L3b_count_zero_imp', 'L4_sum_ne_zero_exists'],
    'L7.midrank_strict': ['L7_midrank_strict'],
    'L0.isum_cast': ['L0_isum_cast'],
    'L1.fibre_sum(add.at)': ['L1_fibre_sum', 'L1_add_at_sum'],
    'L3.partition_count': ['L3_partition_left', 'L3_partition_right', 'L3a_count_bounds', 'L3b_count_none', 'L3b_count_all', 'L3c_ge_le_eq'],
    'L4.sum_congruence': ['L4_sum_congr', 'L4_sum_const'],
    'L4.count_congruence': ['L4_count_congr'],
    'L4.count_over_selection': ['L4_count_over_selection', 'L4_sum_over_selection'],
    'L5.permutation_preserves_counts': ['L5_perm_cge', 'L5_perm_cle', 'L5_perm_ceq', 'L5_perm_sum'],
}


def lemma_library_status():
    """is the Lean lemma library checked for the lemma files as they are now? (tools/build_lemmas.sh
    writes lemmas/CHECKED.json with the sha256 of every file it checked)"""
    import hashlib
    d = os.path.join(VERIF, 'lemmas')
    try:
        with open(os.path.join(d, 'CHECKED.json')) as fh:
            chk = json.load(fh)
    except Exception:
        return {'checked': False, 'reason': 'lemmas/CHECKED.json missing (run tools/build_lemmas.sh)'}
    for fn, sha in chk.get('files', {}).items():
        try:
            with open(os.path.join(d, fn), 'rb') as fh:
                cur = hashlib.sha256(fh.read()).hexdigest()
        except Exception:
            return {'checked': False, 'reason': fn + ' missing'}
        if cur != sha:
            return {'checked': False, 'reason': fn + ' changed since it was checked'}
    return {'checked': bool(chk.get('ok')), 'lean': chk.get('lean'), 'theorems': len(chk.get('theorems', [])),
            'files': chk.get('files')}


_KNOWN = None


def load_known():
    global _KNOWN
    if _KNOWN is None:
        p = os.path.join(VERIF, 'known_findings.json')
        if os.path.exists(p):
            with open(p) as fh:
                _KNOWN = json.load(fh).get('findings', [])
        else:
            _KNOWN = []
    return _KNOWN


def match_known(pid, rec):
    """an open finding matches a violation by oracle/function and witness class"""
    for kf in load_known():
        if kf.get('kind') != 'open' or kf.get('property') != pid:
            continue
        if kf.get('oracle') and kf['oracle'] != rec.get('oracle'):
            continue
        if kf.get('oracles') and rec.get('oracle') not in kf['oracles']:
            continue
        cls = kf.get('witness_class')
        if cls:
            mod, fn = cls.rsplit('.', 1)
            pred = getattr(importlib.import_module(mod), fn)
            try:
                if not pred(rec.get('args') or {}, rec):
                    continue
            except Exception:
                continue
        return kf
    return None


def run_property(pid, tier='quick', seed=0, only=None):
    prop = importlib.import_module('props.' + pid)
    run = PropertyRun(prop, tier, seed)
    # replays of one run replace those of the previous one
    if os.path.isdir(run.replay_dir):
        for f in os.listdir(run.replay_dir):
            os.remove(os.path.join(run.replay_dir, f))
    try:
        if only in (None, 'deductive'):
            run.run_deductive()
        if only in (None, 'bounded'):
            run.run_bounded()
    except Exception:
        import traceback
        traceback.print_exc()
        print('%s: checker crash' % pid)
        return 3
    return run.finish()
