"""Library models: builtins, numpy, scipy.  Everything here is *assumed*
(DESIGN section 3); each model used by a run is listed in the evidence."""
import ast
import math

import z3

from .core import (SymList, Arr, BoundMethod, ClassV, ExcInstance, ExcType, Func, Lam, LibMethod,
                   LibRef, Obj, Opaque, PyRaise, Unsupported, builtin_exc, is_bool_sym, is_sym,
                   ite, rv, simp, sort_kind, sym_floor, to_int_of_bool, to_real, to_z3, unify,
                   RepoModRef, FLOOR)

MODELS = {}
NAN = Opaque('nan', is_nan=True)      # model R has no NaN: it is carried as an opaque token
METHODS = {}
EXISTS = None   # table of external dotted names known to exist (filled by driver)


def model(*names):
    def deco(fn):
        for n in names:
            MODELS[n] = fn
        return fn
    return deco


def method(typ, *names):
    def deco(fn):
        for n in names:
            METHODS[(typ, n)] = fn
        return fn
    return deco


FLOAT_DT = ('float64', 'float32')
EPS64 = 2.0 ** -52
EPS32 = 2.0 ** -23

# spec-level uninterpreted functions over arrays  (Array Int Real, length) ------
RArr = z3.ArraySort(z3.IntSort(), z3.RealSort())
IArr = z3.ArraySort(z3.IntSort(), z3.IntSort())
BArr = z3.ArraySort(z3.IntSort(), z3.BoolSort())
SUM = z3.Function('SUM', RArr, z3.IntSort(), z3.RealSort())        # sum_{i<n} a[i]
ISUM = z3.Function('ISUM', IArr, z3.IntSort(), z3.IntSort())
CNT = z3.Function('CNT', BArr, z3.IntSort(), z3.IntSort())         # #{i<n : b[i]}
LOG = z3.Function('log', z3.RealSort(), z3.RealSort())
EXP = z3.Function('exp', z3.RealSort(), z3.RealSort())
SQRT = z3.Function('sqrt', z3.RealSort(), z3.RealSort())
LOGGAMMA = z3.Function('loggamma', z3.RealSort(), z3.RealSort())
LOG10 = z3.Function('log10', z3.RealSort(), z3.RealSort())


def dt_of_scalar(v):
    k = sort_kind(v)
    return {'int': 'int64', 'float': 'float64', 'bool': 'bool'}.get(k, 'obj')


def elem_sort(dtype):
    if dtype in FLOAT_DT:
        return z3.RealSort()
    if dtype == 'int64':
        return z3.IntSort()
    if dtype == 'bool':
        return z3.BoolSort()
    if dtype == 'str':
        return z3.IntSort()     # abstract strings: an element is the identity of a string
    raise Unsupported('no z3 sort for dtype %r' % (dtype,))


# float(s) of an abstract string s (string layer: assumed total on the columns a contract declares numeric)
STR_NUM = z3.Function('float_of_string', z3.IntSort(), z3.RealSort())


def coerce_elem(v, dtype):
    if dtype in FLOAT_DT:
        return to_real(v) if is_sym(v) else float(v)
    if dtype == 'int64':
        if is_sym(v):
            v = to_int_of_bool(v)
            if v.sort() == z3.RealSort():
                return trunc_real(None, v)
            return v
        return int(v)
    return v


def trunc_real(ctx, x):
    """C-style truncation of a real (astype(int), int())"""
    x = to_z3(x)
    if x.sort() == z3.IntSort():
        return x
    fl = FLOOR(x)
    fn = FLOOR(-x)
    if ctx is not None:
        ctx.fact(z3.And(z3.ToReal(fl) <= x, x < z3.ToReal(fl) + 1))
        ctx.fact(z3.And(z3.ToReal(fn) <= -x, -x < z3.ToReal(fn) + 1))
    return z3.If(x >= 0, fl, -fn)


def has_binder(e):
    """quantifier / lambda / if-then-else inside e (none of which z3 accepts in a pattern)"""
    seen = set()
    stack = [e]
    while stack:
        t = stack.pop()
        if t.get_id() in seen:
            continue
        seen.add(t.get_id())
        if z3.is_quantifier(t):
            return True
        if z3.is_app(t):
            if t.decl().kind() == z3.Z3_OP_ITE:
                return True
            stack.extend(t.children())
    return False


def ok_patterns(pats):
    """keep only pattern terms that z3 accepts (no lambdas / quantifiers inside)"""
    out = []
    for p in pats:
        parts = p if isinstance(p, (list, tuple)) else [p]
        if any(has_binder(x) for x in parts):
            continue
        # a pattern must be an uninterpreted application / array read, not an arithmetic or boolean term
        if any(not (z3.is_app(x) and x.decl().kind() in (z3.Z3_OP_UNINTERPRETED, z3.Z3_OP_SELECT) and x.num_args() > 0) for x in parts):
            continue
        out.append(p if not isinstance(p, (list, tuple)) else z3.MultiPattern(*parts))
    return out


def pattern_candidates(term, var, limit=3):
    """uninterpreted applications / array reads inside `term` that mention `var` (usable as
    E-matching patterns); smallest ones first"""
    out = []
    seen = set()

    def mentions(t):
        st = [t]
        while st:
            u = st.pop()
            if u.eq(var):
                return True
            if z3.is_app(u):
                st.extend(u.children())
        return False

    def walk(t):
        if t.get_id() in seen or not z3.is_app(t):
            return
        seen.add(t.get_id())
        for ch in t.children():
            walk(ch)
        k = t.decl().kind()
        if (k == z3.Z3_OP_UNINTERPRETED and t.num_args() > 0) or k == z3.Z3_OP_SELECT:
            if mentions(t) and not has_binder(t):
                out.append(t)
    walk(term)
    # keep minimal ones (no candidate strictly inside)
    mins = [t for t in out if not any((o is not t) and _inside(o, t) for o in out)]
    return mins[:limit]


def _inside(small, big):
    st = list(big.children())
    while st:
        u = st.pop()
        if u.eq(small):
            return True
        if z3.is_app(u):
            st.extend(u.children())
    return False


class ArrTerm:
    """helpers to turn an Arr into a first class z3 array term (Lambda)"""

    @staticmethod
    def of(a, want=None):
        if a.ndim != 1:
            raise Unsupported('array term of %d-d array' % a.ndim)
        i = z3.Int('i!lam')
        e = a.f((i,))
        if want == 'real' or (want is None and a.dtype in FLOAT_DT):
            e = to_real(e)
        elif want == 'int' or (want is None and a.dtype == 'int64'):
            e = to_int_of_bool(to_z3(e))
        else:
            e = to_z3(e)
        return z3.Lambda([i], e)


class Lib:
    def __init__(self, interp):
        self.I = interp

    @property
    def ctx(self):
        return self.I.ctx

    # ------------------------------------------------------------------ utils
    def fresh_arr(self, base, shape, dtype):
        """array of unconstrained contents"""
        ctx = self.ctx
        if len(shape) == 0:
            v = ctx.fresh(base, elem_sort(dtype))
            return Arr((), lambda ix, v=v: v, dtype, label=str(v))
        if len(shape) == 1:
            A = ctx.fresh(base, z3.ArraySort(z3.IntSort(), elem_sort(dtype)))
            a = Arr(shape, lambda ix, A=A: A[to_z3(ix[0])], dtype, label=str(A))
            a.term = A
            a.term_f = a.f
            return a
        if len(shape) == 2:
            F = ctx.fresh_fun(base, z3.IntSort(), z3.IntSort(), elem_sort(dtype))
            a = Arr(shape, lambda ix, F=F: F(to_z3(ix[0]), to_z3(ix[1])), dtype, label=str(F))
            a.fun = F
            return a
        raise Unsupported('fresh array of rank %d' % len(shape))

    def as_arr(self, v, dtype=None):
        if isinstance(v, Arr):
            return v
        if isinstance(v, SymList):
            f = v.f
            probe = f(z3.Int('i!probe'))
            from .core import MaybeNan
            if isinstance(probe, (list, tuple)) and probe and all(is_sym(x) or isinstance(x, (int, float)) for x in probe):
                # list of symbolic length whose elements are rows of a fixed width: a 2-d array
                w = len(probe)
                dt = dtype or self._common_dtype(list(probe))

                def cell(ix, f=f, w=w):
                    row = f(ix[0])
                    j = simp(ix[1])
                    if isinstance(j, int):
                        return row[j]
                    e = row[w - 1]
                    for k in range(w - 2, -1, -1):
                        e = ite(to_z3(j) == k, row[k], e)
                    return e
                return Arr((v.n, w), cell, dt)
            if isinstance(probe, MaybeNan) or (isinstance(probe, Opaque) and getattr(probe, 'is_nan', False)):
                # list of floats some of which may be NaN: value array + NaN flag
                a = Arr((v.n,), lambda ix: MaybeNan.of(f(ix[0])).val, 'float64')
                a.nan_f = lambda ix: MaybeNan.of(f(ix[0])).isnan
                return a
            return Arr((v.n,), lambda ix: f(ix[0]), dtype or dt_of_scalar(probe))
        if isinstance(v, (list, tuple)):
            items = list(v)
            if items and all(isinstance(x, (list, tuple)) for x in items):
                rows = [list(r) for r in items]
                w = len(rows[0])
                if any(len(r) != w for r in rows):
                    raise Unsupported('ragged nested list')
                dt = dtype or self._common_dtype([x for r in rows for x in r])
                return Arr((len(rows), w), lambda ix, rows=rows: self._pick2(rows, ix), dt)
            if any(isinstance(x, Arr) for x in items):
                raise Unsupported('list of arrays -> array')
            dt = dtype or self._common_dtype(items)
            return Arr((len(items),), lambda ix, items=items: self._pick(items, ix[0]), dt)
        if is_sym(v) or isinstance(v, (int, float, bool)):
            return Arr((), lambda ix, v=v: v, dtype or dt_of_scalar(v))
        raise Unsupported('asarray of %r' % type(v))

    def _common_dtype(self, items):
        if not items:
            return 'float64'
        kinds = set(sort_kind(x) for x in items)
        if kinds <= {'bool'}:
            return 'bool'
        if kinds <= {'int', 'bool'}:
            return 'int64'
        if kinds <= {'int', 'float', 'bool'}:
            return 'float64'
        if all(isinstance(x, str) for x in items):
            return 'str'
        return 'obj'

    def _pick(self, items, i):
        i = simp(i)
        if isinstance(i, int):
            return items[i]
        if not items:
            raise Unsupported('index into empty concrete list')
        r = items[-1]
        for k in range(len(items) - 2, -1, -1):
            r = ite(to_z3(i) == k, items[k], r)
        return r

    def _pick2(self, rows, ix):
        i = simp(ix[0])
        if isinstance(i, int):
            return self._pick(rows[i], ix[1])
        r = self._pick(rows[-1], ix[1])
        for k in range(len(rows) - 2, -1, -1):
            r = ite(to_z3(i) == k, self._pick(rows[k], ix[1]), r)
        return r

    # ------------------------------------------------------- pointwise lifting
    def _bshape(self, a, b):
        """broadcast shapes of two Arr (scalars are rank 0)"""
        if a.ndim == 0:
            return b.shape
        if b.ndim == 0:
            return a.shape
        if a.ndim == b.ndim:
            for da, db in zip(a.shape, b.shape):
                e = simp(to_z3(da) == to_z3(db)) if (is_sym(da) or is_sym(db)) else (da == db)
                if e is False:
                    ia, ib = simp(da), simp(db)
                    if ia == 1 or ib == 1:
                        raise Unsupported('size-1 broadcasting')
                    raise PyRaise(builtin_exc('ValueError'), 'operands could not be broadcast together')
                if e is not True:
                    # shapes must agree: numpy raises otherwise
                    if self.ctx.branch(z3.Not(e)):
                        raise PyRaise(builtin_exc('ValueError'), 'operands could not be broadcast together')
            return a.shape
        if a.ndim == 2 and b.ndim == 1:
            self._same_dim(a.shape[1], b.shape[0])
            return a.shape
        if a.ndim == 1 and b.ndim == 2:
            self._same_dim(a.shape[0], b.shape[1])
            return b.shape
        raise Unsupported('broadcast of ranks %d,%d' % (a.ndim, b.ndim))

    def _same_dim(self, da, db):
        e = simp(to_z3(da) == to_z3(db))
        if e is False:
            raise PyRaise(builtin_exc('ValueError'), 'operands could not be broadcast together')
        if e is not True and self.ctx.branch(z3.Not(e)):
            raise PyRaise(builtin_exc('ValueError'), 'operands could not be broadcast together')

    def _bget(self, a, ix, shape):
        if a.ndim == 0:
            return a.f(())
        if a.ndim == len(shape):
            return a.f(ix)
        if a.ndim == 1 and len(shape) == 2:
            return a.f((ix[1],))
        raise Unsupported('broadcast get')

    def lift2(self, fn, a, b, dtype):
        A = self.as_arr(a)
        B = self.as_arr(b)
        shape = self._bshape(A, B)
        fa, fb = A.snapshot(), B.snapshot()
        return Arr(shape, lambda ix: fn(self._bget(fa, ix, shape), self._bget(fb, ix, shape)), dtype)

    def lift1(self, fn, a, dtype):
        A = self.as_arr(a)
        fa = A.f
        return Arr(A.shape, lambda ix: fn(fa(ix)), dtype)

    def _res_dtype(self, op, a, b):
        da = a.dtype if isinstance(a, Arr) else dt_of_scalar(a)
        db = b.dtype if isinstance(b, Arr) else dt_of_scalar(b)
        if isinstance(op, ast.Div):
            if 'float32' in (da, db) and 'float64' not in (da, db) and \
                    not (isinstance(a, Arr) and isinstance(b, Arr) and 'int64' in (da, db)):
                return 'float32'
            return 'float64'
        if isinstance(op, (ast.BitAnd, ast.BitOr, ast.BitXor)):
            if da == 'bool' and db == 'bool':
                return 'bool'
            return 'int64'
        # numpy 2 (NEP 50): python scalars are weak
        if 'float64' in (da, db):
            if 'float32' in (da, db):
                # float32 array with python float stays float32
                if (da == 'float32' and not isinstance(b, Arr)) or (db == 'float32' and not isinstance(a, Arr)):
                    return 'float32'
            return 'float64'
        if 'float32' in (da, db):
            return 'float32'
        if da == 'bool' and db == 'bool':
            if isinstance(op, (ast.Add, ast.Mult)):
                return 'bool'
            raise Unsupported('bool array arithmetic')
        return 'int64'

    def arr_binop(self, op, a, b):
        dt = self._res_dtype(op, a, b)
        S = self.I.S

        def fn(x, y):
            if dt == 'bool' and isinstance(op, ast.Add):
                return z3.Or(to_z3(x), to_z3(y))
            if dt == 'bool' and isinstance(op, ast.Mult):
                return z3.And(to_z3(x), to_z3(y))
            if isinstance(op, ast.Div):
                # numpy division by zero gives inf/nan + warning, never raises:
                # under model R the quotient by 0 is an unspecified real
                return to_real(x) / to_real(y) if (is_sym(x) or is_sym(y)) else \
                    (x / y if y != 0 else self._unspec_div(x))
            if is_bool_sym(x) or isinstance(x, bool):
                if not isinstance(op, (ast.BitAnd, ast.BitOr, ast.BitXor)):
                    x = to_int_of_bool(to_z3(x)) if is_sym(x) else int(x)
            if is_bool_sym(y) or isinstance(y, bool):
                if not isinstance(op, (ast.BitAnd, ast.BitOr, ast.BitXor)):
                    y = to_int_of_bool(to_z3(y)) if is_sym(y) else int(y)
            r = S.binop(op, x, y)
            return coerce_elem(r, dt) if dt in FLOAT_DT else r
        return self.lift2(fn, a, b, dt)

    def _unspec_div(self, x):
        return self.ctx.fresh_real('divzero')

    def arr_inplace(self, op, cur, val):
        new = self.arr_binop(op, cur, val)
        if new.dtype != cur.dtype and not (new.dtype in FLOAT_DT and cur.dtype in FLOAT_DT):
            if cur.dtype == 'int64' and new.dtype in FLOAT_DT:
                raise PyRaise(builtin_exc('TypeError'), 'cannot cast ufunc output from float to int')
        cur.f = new.f
        return cur

    def arr_compare(self, op, a, b):
        S = self.I.S
        return self.lift2(lambda x, y: S.compare(op, x, y), a, b, 'bool')

    def arr_unop(self, kind, a):
        if kind == 'neg':
            return self.lift1(lambda x: self.I.S.neg(x), a, a.dtype)
        if kind == 'invert':
            if a.dtype != 'bool':
                raise Unsupported('~ on non-bool array')
            return self.lift1(lambda x: (not x) if isinstance(x, bool) else z3.Not(x), a, 'bool')
        raise Unsupported(kind)

    # --------------------------------------------------------------- indexing
    def wrap_index(self, i, n, what='index'):
        """python negative index rule with IndexError outside [-n, n)"""
        i = simp(i)
        n = simp(n)
        if isinstance(i, int) and isinstance(n, int):
            if not (-n <= i < n):
                raise PyRaise(builtin_exc('IndexError'), '%s %d out of bounds for size %d' % (what, i, n))
            return i + n if i < 0 else i
        zi, zn = to_z3(i), to_z3(n)
        if zi.sort() != z3.IntSort():
            raise PyRaise(builtin_exc('IndexError'), 'non-integer index')
        oob = z3.Or(zi < -zn, zi >= zn)
        if self.ctx.branch(oob):
            raise PyRaise(builtin_exc('IndexError'), '%s out of bounds' % what)
        if isinstance(i, int):
            return i + zn if i < 0 else i
        # sign known on this path: no case split in the term
        if not self.ctx.feasible(zi < 0):
            return zi
        if not self.ctx.feasible(zi >= 0):
            return simp(zi + zn)
        return simp(z3.If(zi < 0, zi + zn, zi))

    def getitem(self, v, idx):
        if isinstance(v, Arr):
            return self.arr_getitem(v, idx)
        if isinstance(v, (list, tuple, str)):
            if isinstance(idx, slice):
                if any(is_sym(x) for x in (idx.start, idx.stop, idx.step)):
                    raise Unsupported('symbolic slice of python sequence')
                return v[idx]
            i = simp(idx)
            if isinstance(i, int):
                try:
                    return v[i]
                except IndexError as e:
                    raise PyRaise(builtin_exc('IndexError'), str(e))
            if is_sym(i) and not isinstance(v, str):
                k = self.wrap_index(i, len(v))
                return self._pick(list(v), k)
            if isinstance(i, Opaque) and getattr(i, 'enum_member', False):
                raise PyRaise(builtin_exc('TypeError'), 'indices must be integers')
            raise Unsupported('index %r into sequence' % (idx,))
        if isinstance(v, SymList):
            k = self.wrap_index(idx, v.n, 'list index')
            return v.f(k)
        if isinstance(v, dict):
            if is_sym(idx):
                raise Unsupported('symbolic dict key')
            try:
                return v[idx]
            except KeyError:
                raise PyRaise(builtin_exc('KeyError'), repr(idx))
            except TypeError:
                raise Unsupported('unhashable dict key')
        if isinstance(v, Opaque) and hasattr(v, 'getitem'):
            return v.getitem(self.I, idx)
        if isinstance(v, Obj):
            gi = v.cls.lookup('__getitem__') if isinstance(v.cls, ClassV) else None
            if gi is not None:
                return self.I.call_repo(gi, [v, idx], {})
        raise Unsupported('subscript of %r' % type(v))

    def arr_getitem(self, a, idx):
        if isinstance(idx, str):
            if a.fields is None or idx not in a.fields:
                if a.fields is None:
                    raise PyRaise(builtin_exc('IndexError'), 'only integers, slices ... are valid indices')
                raise PyRaise(builtin_exc('ValueError'), 'no field of name ' + idx)
            return a.fields[idx]
        if isinstance(idx, Opaque) and getattr(idx, 'enum_member', False):
            raise PyRaise(builtin_exc('IndexError'), 'only integers, slices (`:`), ellipsis ... are valid indices')
        if isinstance(idx, tuple):
            return self._arr_getitem_tuple(a, idx)
        if isinstance(idx, slice):
            return self._arr_slice(a, idx)
        if isinstance(idx, Arr):
            if idx.dtype == 'bool':
                return self.mask_select(a, idx)
            if idx.dtype == 'int64':
                return self.fancy_select(a, idx)
            raise PyRaise(builtin_exc('IndexError'), 'arrays used as indices must be of integer (or boolean) type')
        if isinstance(idx, list):
            return self.arr_getitem(a, self.as_arr(idx))
        if a.ndim == 0:
            raise PyRaise(builtin_exc('IndexError'), 'too many indices for array')
        if isinstance(idx, float) or (is_sym(idx) and sort_kind(idx) == 'float'):
            raise PyRaise(builtin_exc('IndexError'), 'only integers ... are valid indices')
        k = self.wrap_index(idx, a.shape[0])
        if a.ndim == 1:
            if a.fields is not None:
                def rec_set(I, nm, v, a=a, k=k):
                    # writing a field of a record writes through to the structured array (numpy gives a view)
                    self.arr_setitem(a.fields[nm], k, v)
                return Opaque('record', rec=(a, k), getitem=lambda I, nm, a=a, k=k: a.fields[nm].f((k,)), setitem=rec_set)
            return a.f((k,))
        base = a
        r = Arr(a.shape[1:], lambda ix: base.f((k,) + tuple(ix)), a.dtype)
        r.view_of = (a, k)
        return r

    def _arr_getitem_tuple(self, a, idx):
        if len(idx) == 1 and isinstance(idx[0], Arr) and a.ndim == 1:
            return self.arr_getitem(a, idx[0])
        if len(idx) == a.ndim and all(not isinstance(x, (slice, Arr, list)) for x in idx):
            ks = tuple(self.wrap_index(i, n) for i, n in zip(idx, a.shape))
            return a.f(ks)
        fullsl = lambda s: isinstance(s, slice) and s.start is None and s.stop is None and s.step is None
        if a.ndim >= 3 and len(idx) == a.ndim and all(fullsl(x) or not isinstance(x, (slice, Arr, list)) for x in idx):
            # a[:, :, k] : view over the sliced axes
            ks = [None if fullsl(x) else self.wrap_index(x, n) for x, n in zip(idx, a.shape)]
            shape = tuple(n for x, n in zip(idx, a.shape) if fullsl(x))
            base = a

            def fview(ix, ks=ks):
                it = iter(ix)
                return base.f(tuple(next(it) if k is None else k for k in ks))
            r = Arr(shape, fview, a.dtype)
            r.view_of = (a, tuple(ks))
            return r
        if len(idx) == 2 and a.ndim == 2:
            i0, i1 = idx
            full = lambda s: isinstance(s, slice) and s.start is None and s.stop is None and s.step is None
            if full(i0) and not isinstance(i1, (slice, Arr, list)):
                k = self.wrap_index(i1, a.shape[1])
                base = a
                r = Arr((a.shape[0],), lambda ix: base.f((ix[0], k)), a.dtype)
                r.view_of = (a, (None, k))
                return r
            if full(i1) and not isinstance(i0, (slice, Arr, list)):
                return self.arr_getitem(a, i0)
            basic = lambda x: (isinstance(x, slice) and x.step in (None, 1)) or not isinstance(x, (slice, Arr, list))
            if basic(i0) and basic(i1) and (isinstance(i0, slice) or isinstance(i1, slice)):
                # basic indexing a[r, c] with r, c each an integer or a slice lo:hi (step 1): a view
                axes = [self._axis_view(x, n) for x, n in zip(idx, a.shape)]
                base = a
                shape = tuple(ln for kind, off, ln in axes if kind == 'slice')

                def fview(ix, axes=axes):
                    it = iter(ix)
                    return base.f(tuple(off if kind == 'int' else simp(next(it) + off) for kind, off, ln in axes))
                return Arr(shape, fview, a.dtype)
            if isinstance(i0, Arr) and isinstance(i1, Arr) and i0.dtype == 'int64' and i1.dtype == 'int64':
                shape = self._bshape(i0, i1)
                f0, f1, fa = i0.f, i1.f, a.f
                # in-bounds is an obligation over all elements (numpy raises IndexError)
                self._fancy_bounds(i0, a.shape[0])
                self._fancy_bounds(i1, a.shape[1])
                n0, n1 = a.shape
                return Arr(shape, lambda ix: fa((self._wrap_pure(f0(ix), n0), self._wrap_pure(f1(ix), n1))), a.dtype)
        raise Unsupported('tuple index %r' % (idx,))

    def _axis_view(self, x, n):
        """('int', index, None) or ('slice', offset, length) for one axis of a basic index"""
        if not isinstance(x, slice):
            return ('int', self.wrap_index(x, n), None)
        lo = None if x.start is None else simp(x.start)
        hi = None if x.stop is None else simp(x.stop)
        nn = simp(n)
        if isinstance(nn, int) and all(v is None or isinstance(v, int) for v in (lo, hi)):
            a, b, _ = slice(lo, hi).indices(nn)
            return ('slice', a, max(0, b - a))
        if not all(v is None or (isinstance(v, int) and v >= 0) for v in (lo, hi)):
            raise Unsupported('slice with symbolic or negative bounds on an axis of symbolic length')
        zn = to_z3(n)
        a = 0 if lo is None else lo
        # python clamps: start = min(lo, n), stop = min(hi, n), length = max(stop - start, 0)
        stop = zn if hi is None else z3.If(zn < hi, zn, z3.IntVal(hi))
        ln = simp(stop - a)
        if self.ctx.feasible(to_z3(ln) < 0):
            ln = simp(z3.If(to_z3(ln) > 0, to_z3(ln), 0))
        return ('slice', a, ln)

    def _wrap_pure(self, i, n):
        i = simp(i)
        if isinstance(i, int):
            return i + n if i < 0 else i
        return z3.If(to_z3(i) < 0, to_z3(i) + to_z3(n), to_z3(i))

    def _fancy_bounds(self, I, n):
        """IndexError iff some index is outside [-n, n)"""
        if I.ndim != 1:
            raise Unsupported('fancy index of rank %d' % I.ndim)
        ctx = self.ctx
        j = ctx.fresh_int('oob')
        e = to_z3(I.f((j,)))
        some_oob = z3.And(j >= 0, j < to_z3(I.shape[0]), z3.Or(e < -to_z3(n), e >= to_z3(n)))
        t = ctx.fresh_int('t')
        et = to_z3(I.f((t,)))
        all_in = z3.ForAll([t], z3.Implies(z3.And(t >= 0, t < to_z3(I.shape[0])),
                                           z3.And(et >= -to_z3(n), et < to_z3(n))))
        # fork: either a witness j is out of bounds (raise) or all are in bounds
        if ctx.branch(some_oob):
            raise PyRaise(builtin_exc('IndexError'), 'index out of bounds (fancy)')
        # in the non-raising branch we know *all* are in bounds, not just j
        ctx.pc.pop()
        ctx.solver.add(all_in)
        ctx.pc.append(all_in)

    def _arr_slice(self, a, s):
        if a.ndim < 1:
            raise PyRaise(builtin_exc('IndexError'), 'too many indices')
        n = a.shape[0]
        base = a
        if s.start is None and s.stop is None and s.step is None:
            r = Arr(a.shape, lambda ix: base.f(ix), a.dtype)
            r.view_of = (a, None)
            r.fields = a.fields
            return r
        if s.start is None and s.stop is None and s.step == -1:
            if a.ndim != 1:
                raise Unsupported('reverse of nd array')
            r = Arr(a.shape, lambda ix: base.f((to_z3(n) - 1 - to_z3(ix[0]) if (is_sym(n) or is_sym(ix[0])) else n - 1 - ix[0],)), a.dtype)
            return r
        if s.step in (None, 1) and a.ndim == 1:
            lo = 0 if s.start is None else s.start
            hi = n if s.stop is None else s.stop
            lo_c, hi_c = simp(lo), simp(hi)
            nn = simp(n)
            if isinstance(lo_c, int) and isinstance(hi_c, int) and isinstance(nn, int):
                lo_c, hi_c, _ = slice(lo_c, hi_c).indices(nn)
                m = max(0, hi_c - lo_c)
                return Arr((m,), lambda ix: base.f((ix[0] + lo_c,)), a.dtype)
            # symbolic: support a[:-1], a[1:], a[k:], a[:k] with clamping
            def clamp(v):
                v = to_z3(v)
                v = z3.If(v < 0, v + to_z3(n), v)
                return z3.If(v < 0, 0, z3.If(v > to_z3(n), to_z3(n), v))
            zlo, zhi = clamp(lo), clamp(hi)
            m = simp(z3.If(zhi - zlo > 0, zhi - zlo, 0))
            return Arr((m,), lambda ix: base.f((simp(to_z3(ix[0]) + zlo),)), a.dtype)
        raise Unsupported('slice %r' % (s,))

    def mask_select(self, a, mask):
        """a[mask] : order preserving sub-sequence of the True positions (assumed
        numpy contract).  Ghost: strictly increasing index map sel, its inverse."""
        ctx = self.ctx
        if a.ndim != 1 or mask.ndim != 1:
            raise Unsupported('mask selection on rank %d' % a.ndim)
        self._same_dim(a.shape[0], mask.shape[0])
        n = to_z3(a.shape[0])
        # the same mask (same object, not written since) selects the same positions: one index map
        cache = ctx.ghost.setdefault('sel_by_mask', {})
        ck = (id(mask), id(mask.f))
        if ck in cache and cache[ck][0] is mask:
            _, m, sel, inv, msnap = cache[ck]
            return self._selected(a, m, sel, inv, msnap)
        m = ctx.fresh_int('m')
        sel = ctx.fresh_fun('sel', z3.IntSort(), z3.IntSort())
        inv = ctx.fresh_fun('selinv', z3.IntSort(), z3.IntSort())
        mf = mask.f
        j, j2, i = z3.Ints('j!s j2!s i!s')
        ctx.fact(z3.And(m >= 0, m <= n))
        ctx.fact(z3.ForAll([j], z3.Implies(z3.And(j >= 0, j < m),
                                           z3.And(sel(j) >= 0, sel(j) < n, to_z3(mf((sel(j),))),
                                                  inv(sel(j)) == j), ), patterns=[sel(j)]))
        ctx.fact(z3.ForAll([j, j2], z3.Implies(z3.And(j >= 0, j < j2, j2 < m), sel(j) < sel(j2)),
                           patterns=[z3.MultiPattern(sel(j), sel(j2))]))
        mterm = to_z3(mf((i,)))
        ctx.fact(z3.ForAll([i], z3.Implies(z3.And(i >= 0, i < n, mterm),
                                           z3.And(inv(i) >= 0, inv(i) < m, sel(inv(i)) == i)),
                           patterns=[inv(i)] + pattern_candidates(mterm, i)))
        # m == CNT(mask, n)
        ctx.fact(m == CNT(ArrTerm.of(mask, 'bool'), n))
        msnap = mask.snapshot()
        cache[ck] = (mask, m, sel, inv, msnap)
        ctx.ghost.setdefault('selections', {})[m.get_id()] = dict(sel=sel, n=n, mask=msnap, m=m, inv=inv)
        return self._selected(a, m, sel, inv, msnap)

    def _selected(self, a, m, sel, inv, msnap):
        def mk(src):
            fs = src.f
            return Arr((m,), lambda ix: fs((sel(to_z3(ix[0])),)), src.dtype)
        r = mk(a)
        if getattr(a, 'nan_f', None) is not None:
            nf = a.nan_f
            r.nan_f = lambda ix: nf((sel(to_z3(ix[0])),))
        if a.fields is not None:
            r.fields = {k: mk(v) for k, v in a.fields.items()}
        r.ghost['selection'] = dict(base=a, mask=msnap, sel=sel, inv=inv, m=m,
                                    parent=a.ghost.get('selection'))
        return r

    def fancy_select(self, a, I):
        if a.ndim != 1 or I.ndim != 1:
            if a.ndim == 2 and I.ndim == 1:
                self._fancy_bounds(I, a.shape[0])
                fI, fa, n0 = I.f, a.f, a.shape[0]
                return Arr((I.shape[0], a.shape[1]), lambda ix: fa((self._wrap_pure(fI((ix[0],)), n0), ix[1])), a.dtype)
            raise Unsupported('fancy selection on rank %d' % a.ndim)
        self._fancy_bounds(I, a.shape[0])
        fI, fa, n = I.f, a.f, a.shape[0]
        return Arr(I.shape, lambda ix: fa((self._wrap_pure(fI(ix), n),)), a.dtype)

    def setitem(self, base, idx, v):
        if isinstance(base, Arr):
            return self.arr_setitem(base, idx, v)
        if isinstance(base, list):
            i = simp(idx)
            if isinstance(i, int):
                try:
                    base[i] = v
                except IndexError as e:
                    raise PyRaise(builtin_exc('IndexError'), str(e))
                return
            raise Unsupported('symbolic list store')
        if isinstance(base, dict):
            if is_sym(idx):
                raise Unsupported('symbolic dict key')
            base[idx] = v
            return
        if isinstance(base, Opaque) and hasattr(base, 'setitem'):
            return base.setitem(self.I, idx, v)
        raise Unsupported('item assignment on %r' % type(base))

    def arr_setitem(self, a, idx, v):
        old = a.f
        dt = a.dtype
        if isinstance(idx, Arr) and idx.dtype == 'bool':
            if isinstance(v, Arr):
                raise Unsupported('a[mask] = array')
            shape = self._bshape(a, idx)
            mf = idx.f
            vv = coerce_elem(v, dt)
            a.f = lambda ix: ite(to_z3(mf(ix)), vv, old(ix))
            return
        if isinstance(idx, (Arr, list)):
            I = self.as_arr(idx)
            if I.dtype != 'int64':
                raise Unsupported('index array dtype')
            if isinstance(v, Arr):
                raise Unsupported('a[I] = array')
            if a.ndim != 1:
                raise Unsupported('fancy store rank')
            self._fancy_bounds(I, a.shape[0])
            fI, n = I.f, a.shape[0]
            m = I.shape[0]
            vv = coerce_elem(v, dt)
            t = z3.Int('t!st')

            def newf(ix):
                hit = z3.Exists([t], z3.And(t >= 0, t < to_z3(m),
                                            to_z3(self._wrap_pure(fI((t,)), n)) == to_z3(ix[0])))
                return ite(hit, vv, old(ix))
            a.f = newf
            return
        if isinstance(idx, tuple) and len(idx) == 1 and isinstance(idx[0], Arr) and a.ndim == 1:
            return self.arr_setitem(a, idx[0], v)
        if isinstance(idx, tuple):
            full = lambda s: isinstance(s, slice) and s.start is None and s.stop is None and s.step is None
            stores_nan = isinstance(v, Opaque) and getattr(v, 'is_nan', False)
            if stores_nan:
                # model R has no NaN: a NaN fill is an unspecified number (sound for everything that does not test for NaN);
                # element stores additionally keep a NaN flag per position (below)
                v = self.ctx.fresh_real('nan_fill')
            if len(idx) == a.ndim and any(full(x) for x in idx) and all(full(x) or not isinstance(x, (slice, Arr, list)) for x in idx) \
                    and not isinstance(v, Arr):
                # a[:, :, k] = scalar : every position whose non-slice coordinates match
                ks = [None if full(x) else self.wrap_index(x, n) for x, n in zip(idx, a.shape)]
                vv = coerce_elem(v, dt)

                def newf_s(ix, ks=ks, vv=vv):
                    conds = [to_z3(x) == to_z3(k) for x, k in zip(ix, ks) if k is not None]
                    c = simp(z3.And(*conds)) if conds else True
                    return vv if c is True else (old(ix) if c is False else ite(c, vv, old(ix)))
                a.f = newf_s
                return
            if len(idx) != a.ndim or any(isinstance(x, (slice, Arr, list)) for x in idx):
                raise Unsupported('tuple store %r' % (idx,))
            ks = tuple(self.wrap_index(i, n) for i, n in zip(idx, a.shape))
            vv = coerce_elem(v, dt)

            def newf(ix):
                c = z3.And(*[to_z3(x) == to_z3(k) for x, k in zip(ix, ks)])
                return ite(c, vv, old(ix))
            a.f = newf
            old_nf = getattr(a, 'nan_f', None)
            if stores_nan or old_nf is not None:
                # NaN flag of the position written: set by a NaN store, cleared by a number store
                prev = old_nf if old_nf is not None else (lambda ix: z3.BoolVal(False))
                a.nan_f = lambda ix, prev=prev: z3.If(z3.And(*[to_z3(x) == to_z3(k) for x, k in zip(ix, ks)]), z3.BoolVal(stores_nan), to_z3(prev(ix)))
            return
        if isinstance(idx, slice):
            if idx.start is None and idx.stop is None and idx.step is None and not isinstance(v, Arr):
                vv = coerce_elem(v, dt)
                a.f = lambda ix: vv
                return
            raise Unsupported('slice store')
        if isinstance(idx, str):
            raise Unsupported('field store')
        if a.ndim != 1:
            raise Unsupported('row store')
        k = self.wrap_index(idx, a.shape[0])
        vv = coerce_elem(v, dt)
        a.f = lambda ix: ite(to_z3(ix[0]) == to_z3(k), vv, old(ix))

    # ----------------------------------------------------- attribute / methods
    def lib_getattr(self, ref, name):
        d = ref.dotted + '.' + name
        if d == 'numpy.pi':
            return math.pi
        if d in ('numpy.nan', 'numpy.NaN'):
            return NAN
        if d in ('numpy.inf', 'numpy.Inf', 'numpy.infty'):
            return Opaque('inf', sign=1)
        if d == 'os.name':
            return 'posix'      # platform assumption (listed in evidence)
        if d == 'datetime.timezone.utc':
            from . import models_time
            return models_time.UTC
        if EXISTS is not None and d in EXISTS and EXISTS[d] is False:
            raise PyRaise(builtin_exc('AttributeError'), "module '%s' has no attribute '%s'" % (ref.dotted, name))
        return LibRef(d)

    def value_getattr(self, v, name):
        if isinstance(v, Arr):
            return self.arr_getattr(v, name)
        if is_sym(v) and sort_kind(v) in ('int', 'float', 'bool'):
            if name == 'dtype':
                return Opaque('dtype', kind=dt_of_scalar(v))
            if name in ('real',):
                return v
            if name == 'shape':
                return ()
            if name == 'size':
                return 1
            import numpy as _np
            if not any(hasattr(t, name) for t in (_np.float64, _np.int64, _np.bool_)):
                raise PyRaise(builtin_exc('AttributeError'), "numeric scalar has no attribute '%s'" % name)
            return LibMethod(v, name)
        if isinstance(v, Opaque) and v.name == 'super':
            return self.super_lookup(v, name)
        if isinstance(v, Opaque) and v.name == 'datetime':
            if name == 'tzinfo':
                from . import models_time
                if v.tz is None:
                    return None
                return models_time.UTC if v.tz == 'UTC' else Opaque('tzinfo', tzname=v.tz)
            import datetime as _dt
            if not hasattr(_dt.datetime, name):
                raise PyRaise(builtin_exc('AttributeError'), "'datetime.datetime' object has no attribute '%s'" % name)
            return LibMethod(v, name)
        if isinstance(v, Opaque) and v.name == 'timedelta' and name in ('days', 'seconds', 'microseconds'):
            # CPython normal form: us = ((days*86400 + seconds) * 10**6 + microseconds), 0 <= seconds < 86400, 0 <= microseconds < 10**6
            us = to_z3(v.us)
            d, sec, mic = (self.ctx.fresh_int('td_' + k) for k in ('days', 'seconds', 'microseconds'))
            self.ctx.assume(z3.And(us == (d * 86400 + sec) * 1000000 + mic, 0 <= sec, sec < 86400, 0 <= mic, mic < 1000000))
            return {'days': d, 'seconds': sec, 'microseconds': mic}[name]
        if isinstance(v, Opaque):
            if v.name == 'dtype':
                if name == 'type':
                    return LibRef('numpy.' + v.kind)
                if name == 'names':
                    return getattr(v, 'names', None)
                if name == 'kind':
                    return {'float64': 'f', 'float32': 'f', 'int64': 'i', 'bool': 'b'}.get(v.kind, 'O')
            if name in v.__dict__ and name not in ('name',):
                return v.__dict__[name]
            if hasattr(v, 'getattr'):
                return v.getattr(self.I, name)
            if getattr(v, 'is_str', False) and not hasattr(str, name):
                raise PyRaise(builtin_exc('AttributeError'), "'str' object has no attribute '%s'" % name)
            return LibMethod(v, name)
        if isinstance(v, SymList):
            if not hasattr(list, name):
                raise PyRaise(builtin_exc('AttributeError'), "'list' object has no attribute '%s'" % name)
            return LibMethod(v, name)
        if isinstance(v, (str, list, tuple, dict, set, int, float)):
            if not hasattr(type(v), name):
                raise PyRaise(builtin_exc('AttributeError'), "'%s' object has no attribute '%s'" % (type(v).__name__, name))
            return LibMethod(v, name)
        if isinstance(v, Func) and name == '__name__':
            return v.node.name if not isinstance(v.node, ast.Lambda) else '<lambda>'
        if v is None:
            raise PyRaise(builtin_exc('AttributeError'), "'NoneType' object has no attribute '%s'" % name)
        raise Unsupported('attribute %s of %r' % (name, type(v)))

    def arr_getattr(self, a, name):
        if name == 'shape':
            return tuple(a.shape)
        if name == 'size':
            return simp(a.size())
        if name == 'ndim':
            return a.ndim
        if name == 'dtype':
            if isinstance(a.dtype, dict):
                return Opaque('dtype', kind='struct', names=tuple(a.dtype.keys()))
            return Opaque('dtype', kind=a.dtype)
        if name == 'T':
            if a.ndim == 1:
                return a
            if a.ndim == 2:
                base = a
                return Arr((a.shape[1], a.shape[0]), lambda ix: base.f((ix[1], ix[0])), a.dtype)
        if name == 'data':
            # masked array: the raw data; plain ndarray: a buffer that numpy reads back as the array
            f = a.f
            return Arr(a.shape, f, a.dtype)
        return LibMethod(a, name)

    def obj_getattr(self, o, name):
        raise PyRaise(builtin_exc('AttributeError'), "object has no attribute '%s'" % name)

    def obj_setattr(self, base, name, v):
        if isinstance(base, Opaque) and hasattr(base, 'setattr'):
            return base.setattr(self.I, name, v)
        if isinstance(base, Opaque) and base.name == 'catalog':
            base.__dict__.setdefault('attrs', {})[name] = v     # abstract catalog: attribute binding is recorded only
            return None
        raise Unsupported('setattr on %r' % type(base))

    def obj_binop(self, op, a, b):
        from . import models_time
        if any(isinstance(x, Opaque) and x.name in ('datetime', 'timedelta') for x in (a, b)):
            return models_time.dt_binop(self.I, op, a, b)
        for x in (a, b):
            if isinstance(x, Opaque) and hasattr(x, 'binop'):
                return x.binop(self.I, op, a, b)
        raise Unsupported('binop on objects')

    def enter_context(self, cm):
        if isinstance(cm, Opaque) and cm.name in ('errstate', 'ctx', 'file'):
            return cm
        raise Unsupported('with-context %r' % (cm,))

    def make_super(self, fr):
        f = fr.func
        if f is None or f.cls is None:
            raise Unsupported('super() outside method')
        selfv = fr.locals.get(f.node.args.args[0].arg)
        return Opaque('super', cls=f.cls, selfv=selfv, getattr=self._super_getattr)

    def _super_getattr(self, I, name):
        raise Unsupported('super().%s' % name)

    def super_lookup(self, sup, name):
        cls, selfv = sup.cls, sup.selfv
        start = selfv.cls if isinstance(selfv, Obj) and isinstance(selfv.cls, ClassV) else cls
        mro = start.mro()
        if cls in mro:
            mro = mro[mro.index(cls) + 1:]
        for c in mro:
            if name in c.methods:
                return BoundMethod(c.methods[name], selfv)
        if name == '__init__':
            return Lam(lambda *a, **k: None, 'object.__init__')
        raise PyRaise(builtin_exc('AttributeError'), "'super' object has no attribute '%s'" % name)

    def instantiate_foreign(self, cls, o, args, kwargs):
        raise Unsupported('instantiate class with foreign base')

    def iterate(self, v):
        if isinstance(v, Opaque) and hasattr(v, 'iterate'):
            return v.iterate(self.I)
        raise Unsupported('iteration over %r' % type(v))

    def run_generator(self, fn, fr):
        raise Unsupported('generator function (needs contract)')

    def str_format_percent(self, a, b):
        return '<fmt>'

    # ------------------------------------------------------------------ calls
    def call(self, ref, args, kwargs):
        m = MODELS.get(ref.dotted)
        if m is None:
            raise Unsupported('no model for ' + ref.dotted)
        self.I.used_models.add(ref.dotted)
        return m(self, *args, **kwargs)

    def call_method(self, recv, name, args, kwargs):
        if isinstance(recv, Arr):
            key = ('Arr', name)
        elif isinstance(recv, SymList):
            if name == 'append':
                recv.append(args[0])
                return None
            raise Unsupported('list.%s on a list of symbolic length' % name)
        elif isinstance(recv, str):
            return self._str_method(recv, name, args, kwargs)
        elif isinstance(recv, list):
            return self._list_method(recv, name, args, kwargs)
        elif isinstance(recv, dict):
            return self._dict_method(recv, name, args, kwargs)
        elif isinstance(recv, tuple):
            if name == 'index' or name == 'count':
                return getattr(recv, name)(*args)
            raise Unsupported('tuple.' + name)
        elif isinstance(recv, Opaque):
            key = (recv.name, name)
        elif is_sym(recv) or isinstance(recv, (int, float)):
            key = ('scalar', name)
        else:
            raise Unsupported('method %s on %r' % (name, type(recv)))
        m = METHODS.get(key)
        if m is None:
            raise Unsupported('no model for method %s.%s' % key)
        self.I.used_models.add('%s.%s' % key)
        return m(self, recv, *args, **kwargs)

    def _str_method(self, s, name, args, kwargs):
        if any(is_sym(a) or isinstance(a, (Arr, Obj, Opaque)) for a in args):
            raise Unsupported('str.%s with symbolic args' % name)
        if name in ('split', 'strip', 'startswith', 'endswith', 'replace', 'join', 'lower', 'upper',
                    'rstrip', 'lstrip', 'format', 'count', 'find', 'index', 'isdigit', 'rsplit', 'encode'):
            try:
                r = getattr(s, name)(*args, **kwargs)
            except (ValueError, TypeError, IndexError, KeyError) as e:
                raise PyRaise(builtin_exc(type(e).__name__), str(e))
            return r
        raise Unsupported('str.' + name)

    def _list_method(self, l, name, args, kwargs):
        if name == 'append':
            l.append(args[0])
            return None
        if name == 'extend':
            l.extend(self.I.iterate(args[0]))
            return None
        if name == 'pop':
            try:
                return l.pop(*args)
            except IndexError as e:
                raise PyRaise(builtin_exc('IndexError'), str(e))
        if name == 'insert':
            l.insert(*args)
            return None
        if name == 'copy':
            return list(l)
        if name == 'index':
            for k, x in enumerate(l):
                e = simp(self.I.S.compare(ast.Eq(), x, args[0]))
                if e is True:
                    return k
                if e is not False:
                    raise Unsupported('symbolic list.index')
            raise PyRaise(builtin_exc('ValueError'), 'not in list')
        raise Unsupported('list.' + name)

    def _dict_method(self, d, name, args, kwargs):
        if name == 'get':
            if is_sym(args[0]):
                raise Unsupported('symbolic dict key')
            return d.get(*args)
        if name == 'items':
            return list(d.items())
        if name == 'keys':
            return list(d.keys())
        if name == 'values':
            return list(d.values())
        if name == 'update':
            d.update(*args, **kwargs)
            return None
        if name == 'pop':
            try:
                return d.pop(*args)
            except KeyError as e:
                raise PyRaise(builtin_exc('KeyError'), str(e))
        if name == 'copy':
            return dict(d)
        if name == 'setdefault':
            return d.setdefault(*args)
        raise Unsupported('dict.' + name)


# ============================================================================
# builtins
# ============================================================================

@model('builtins.len')
def _len(L, x):
    if isinstance(x, Arr):
        if x.ndim == 0:
            raise PyRaise(builtin_exc('TypeError'), 'len() of unsized object')
        return x.shape[0]
    if isinstance(x, (list, tuple, str, dict, set)):
        return len(x)
    if isinstance(x, SymList):
        return x.n
    if isinstance(x, Opaque) and getattr(x, 'no_len', False):
        raise PyRaise(builtin_exc('TypeError'), "object of type 'generator' has no len()")
    if isinstance(x, Opaque) and hasattr(x, 'len'):
        return x.len(L.I)
    if isinstance(x, Obj):
        f = x.cls.lookup('__len__') if isinstance(x.cls, ClassV) else None
        if f is not None:
            return L.I.call_repo(f, [x], {})
    if x is None or is_sym(x) or isinstance(x, (int, float)):
        raise PyRaise(builtin_exc('TypeError'), 'object has no len()')
    raise Unsupported('len of %r' % type(x))


@model('builtins.range')
def _range(L, *a):
    if all(isinstance(simp(x), int) for x in a):
        return range(*[simp(x) for x in a])
    return Opaque('range', args=tuple(a))


@model('builtins.float', 'numpy.float64')
def _float(L, x=0.0):
    if isinstance(x, Arr):
        if simp(x.size()) == 1 or x.ndim == 0:
            x = x.f(tuple(0 for _ in x.shape))
        else:
            raise PyRaise(builtin_exc('TypeError'), 'only length-1 arrays can be converted')
    if is_sym(x):
        return to_real(x)
    if isinstance(x, Opaque) and hasattr(x, 'as_float'):
        return x.as_float(L.I)
    if isinstance(x, str):
        toks = L.ctx.ghost.get('tokens', {})
        if x in toks:
            return to_real(toks[x])
        try:
            return float(x)
        except ValueError as e:
            raise PyRaise(builtin_exc('ValueError'), str(e))
    if isinstance(x, (int, float)):
        return float(x)
    if x is None:
        raise PyRaise(builtin_exc('TypeError'), 'float() argument must be a string or a real number')
    raise Unsupported('float(%r)' % type(x))


@model('builtins.int', 'numpy.int64')
def _int(L, x=0, *rest):
    if isinstance(x, Arr):
        if x.ndim == 0 or simp(x.size()) == 1:
            x = x.f(tuple(0 for _ in x.shape))
        else:
            raise PyRaise(builtin_exc('TypeError'), 'only length-1 arrays can be converted')
    if is_sym(x):
        if sort_kind(x) == 'float':
            return trunc_real(L.ctx, x)
        return to_int_of_bool(x)
    if isinstance(x, Opaque) and hasattr(x, 'as_int'):
        return x.as_int(L.I)
    if isinstance(x, (int, float, str)):
        try:
            return int(x, *rest)
        except (ValueError, TypeError, OverflowError) as e:
            raise PyRaise(builtin_exc(type(e).__name__), str(e))
    raise Unsupported('int(%r)' % type(x))


@model('builtins.next')
def _next(L, it, *default):
    if isinstance(it, Opaque) and hasattr(it, 'next'):
        return it.next(L.I)
    raise Unsupported('next() of %r' % (it,))


@model('builtins.bool')
def _bool(L, x=False):
    return L.I.S.truth(x)


@model('builtins.str')
def _str(L, x=''):
    if isinstance(x, (str, int, float, bool)) or x is None:
        return str(x)
    if isinstance(x, Opaque) and hasattr(x, 'as_str'):
        return x.as_str(L.I)
    if isinstance(x, Opaque) and x.name == 'tzinfo':
        return x.tzname
    if isinstance(x, Obj):
        cls = x.cls
        f = cls.lookup('__str__') if isinstance(cls, ClassV) else None
        if f is not None:
            return L.I.call_function(f, [x], {})
        # default object.__str__ / an abstract record: some string, contents not specified
        return Opaque('str', is_str=True, of=x)
    raise Unsupported('str(%r)' % type(x))


@model('builtins.abs', 'numpy.abs', 'numpy.absolute', 'numpy.fabs')
def _abs(L, x):
    if isinstance(x, Arr):
        return L.lift1(lambda e: _abs(L, e), x, x.dtype)
    if is_sym(x):
        x = to_int_of_bool(x)
        return z3.If(x >= 0, x, -x)
    return abs(x)


def _ew_minmax(L, a, b, ismax):
    """numpy.maximum / numpy.minimum (elementwise, broadcasting; NaN propagation is outside model R)"""
    def one(x, y):
        if is_sym(x) or is_sym(y):
            zx, zy = to_z3(x), to_z3(y)
            if zx.sort() != zy.sort():
                zx, zy = to_real(zx), to_real(zy)
            return z3.If(zx >= zy, zx, zy) if ismax else z3.If(zx <= zy, zx, zy)
        return max(x, y) if ismax else min(x, y)
    if isinstance(a, Arr) or isinstance(b, Arr):
        da = a.dtype if isinstance(a, Arr) else ('float64' if isinstance(a, float) or (is_sym(a) and sort_kind(a) == 'float') else 'int64')
        db = b.dtype if isinstance(b, Arr) else ('float64' if isinstance(b, float) or (is_sym(b) and sort_kind(b) == 'float') else 'int64')
        dt = 'float64' if 'float64' in (da, db) else ('float32' if 'float32' in (da, db) else da)
        return L.lift2(one, a, b, dt)
    return one(a, b)


@model('numpy.maximum', 'numpy.fmax')
def _np_maximum(L, a, b, **kw):
    if kw:
        raise Unsupported('numpy.maximum keywords')
    return _ew_minmax(L, a, b, True)


@model('numpy.minimum', 'numpy.fmin')
def _np_minimum(L, a, b, **kw):
    if kw:
        raise Unsupported('numpy.minimum keywords')
    return _ew_minmax(L, a, b, False)


@model('builtins.min')
def _min(L, *a, **kw):
    return _minmax(L, a, kw, True)


@model('builtins.max')
def _max(L, *a, **kw):
    return _minmax(L, a, kw, False)


def _minmax(L, a, kw, ismin):
    if kw:
        raise Unsupported('min/max with key')
    if len(a) == 1 and isinstance(a[0], Arr) and a[0].ndim == 1 and not isinstance(simp(a[0].shape[0]), int):
        # extreme value of an array of symbolic length: bounds every element and is attained (ValueError if empty)
        arr = a[0]
        n = to_z3(arr.shape[0])
        if L.ctx.branch(n <= 0):
            raise PyRaise(builtin_exc('ValueError'), 'min()/max() arg is an empty sequence')
        v = L.ctx.fresh_real('extreme') if arr.dtype in FLOAT_DT else L.ctx.fresh_int('extreme')
        w = L.ctx.fresh_int('attained_at')
        i = z3.Int('i!mm')
        ei = to_z3(arr.f((i,)))
        L.ctx.fact(z3.ForAll([i], z3.Implies(z3.And(0 <= i, i < n), (ei >= v) if ismin else (ei <= v)), patterns=[ei]))
        L.ctx.fact(z3.And(0 <= w, w < n, to_z3(arr.f((w,))) == v))
        return v
    if len(a) == 1:
        items = L.I.iterate(a[0])
    else:
        items = list(a)
    if not items:
        raise PyRaise(builtin_exc('ValueError'), 'min()/max() arg is an empty sequence')
    r = items[0]
    for x in items[1:]:
        if not is_sym(r) and not is_sym(x):
            r = (x if x < r else r) if ismin else (x if x > r else r)
        else:
            ur, ux = unify(r, x)
            r = z3.If(ux < ur, ux, ur) if ismin else z3.If(ux > ur, ux, ur)
    return r


@model('builtins.sum')
def _sum(L, it, start=0):
    if isinstance(it, Arr) and it.ndim == 1 and not isinstance(simp(it.shape[0]), int) and start == 0:
        return sum_term(L, it)
    r = start
    for x in L.I.iterate(it):
        r = L.I.binop(ast.Add(), r, x)
    return r


@model('builtins.isinstance')
def _isinstance(L, v, t):
    if isinstance(t, tuple):
        rs = [_isinstance(L, v, x) for x in t]
        return any(rs)
    if isinstance(t, LibRef):
        d = t.dotted
        if d == 'builtins.str':
            if isinstance(v, Opaque) and getattr(v, 'is_str', False):
                return True
            return isinstance(v, str)
        if d == 'builtins.int':
            return (isinstance(v, int) or (is_sym(v) and sort_kind(v) in ('int', 'bool')))
        if d == 'builtins.float':
            return isinstance(v, float) or (is_sym(v) and sort_kind(v) == 'float')
        if d == 'builtins.bool':
            return isinstance(v, bool) or is_bool_sym(v)
        if d == 'builtins.list':
            return isinstance(v, (list, SymList))
        if d == 'builtins.tuple':
            return isinstance(v, tuple)
        if d == 'builtins.dict':
            return isinstance(v, dict)
        if d in ('numpy.ndarray',):
            return isinstance(v, Arr)
        if d in ('datetime.datetime',):
            return isinstance(v, Opaque) and v.name == 'datetime'
        if d in ('numpy.floating',):
            return is_sym(v) and sort_kind(v) == 'float'
        if d in ('numpy.integer',):
            return False
        if isinstance(v, Opaque) and hasattr(v, 'isinstance'):
            return v.isinstance(d)
        if isinstance(v, (Arr, str, int, float, list, tuple, dict)) or v is None or is_sym(v):
            if d.startswith(('numpy.', 'builtins.', 'datetime.', 'pandas.')):
                return False
        raise Unsupported('isinstance(_, %s)' % d)
    if isinstance(t, ClassV):
        return isinstance(v, Obj) and isinstance(v.cls, ClassV) and t in v.cls.mro()
    if isinstance(t, ExcType):
        return isinstance(v, ExcInstance) and t.name in v.cls.mro_names()
    raise Unsupported('isinstance against %r' % (t,))


NUMPY_FLOATING = ('numpy.float64', 'numpy.float32', 'numpy.floating', 'numpy.float16')


@model('builtins.issubclass')
def _issubclass(L, c, t):
    if isinstance(c, LibRef) and isinstance(t, LibRef):
        if t.dotted == 'numpy.floating':
            return c.dotted in NUMPY_FLOATING
        if t.dotted == 'numpy.integer':
            return c.dotted in ('numpy.int64', 'numpy.int32', 'numpy.integer')
        if t.dotted == 'numpy.number':
            return c.dotted.startswith('numpy.') and c.dotted != 'numpy.bool'
        return c.dotted == t.dotted
    if isinstance(c, ClassV) and isinstance(t, ClassV):
        return t in c.mro()
    raise Unsupported('issubclass')


@model('builtins.list')
def _list(L, it=()):
    if isinstance(it, Arr) and getattr(it, 'lazy_seq', False):
        return it
    if isinstance(it, SymList):
        return SymList(it.n, it.f, it.label)     # a new list with the same elements
    return list(L.I.iterate(it))


@model('builtins.tuple')
def _tuple(L, it=()):
    return tuple(L.I.iterate(it))


@model('builtins.dict')
def _dict(L, *a, **kw):
    d = {}
    if a:
        src = a[0]
        if isinstance(src, dict):
            d.update(src)
        else:
            for k, v in L.I.iterate(src):
                d[k] = v
    d.update(kw)
    return d


@model('builtins.set')
def _set(L, it=()):
    items = L.I.iterate(it)
    if any(is_sym(x) for x in items):
        raise Unsupported('set of symbolic values')
    return set(items)


@model('builtins.enumerate')
def _enumerate(L, it, start=0):
    if isinstance(it, Obj):
        return Opaque('enumerate', inner=it, start=start)
    if isinstance(it, Opaque) or (isinstance(it, Arr) and not isinstance(simp(it.shape[0]), int)):
        return Opaque('enumerate', inner=it, start=start)
    return [(i + start, x) for i, x in enumerate(L.I.iterate(it))]


@model('builtins.zip')
def _zip(L, *its):
    if any(isinstance(it, Opaque) or (isinstance(it, Arr) and not isinstance(simp(it.shape[0]), int)) for it in its):
        return Opaque('zip', inner=its)
    return list(zip(*[L.I.iterate(i) for i in its]))


@model('builtins.map')
def _map(L, fn, *its):
    if len(its) == 1 and isinstance(its[0], Arr) and not isinstance(simp(its[0].shape[0]), int):
        # lazily lifted: element k is fn(inner[k]); fn must be side-effect free and
        # branch free on this element (holds for callees used through their contract)
        inner = its[0].snapshot()
        I = L.I
        probe = I.call(fn, [inner.f((L.ctx.fresh_int('probe'),))], {})
        dt = dt_of_scalar(probe)
        r = Arr(inner.shape, lambda ix: I.call(fn, [inner.f(ix)], {}), dt)
        r.lazy_seq = True
        return r
    return [L.I.call(fn, list(xs), {}) for xs in zip(*[L.I.iterate(i) for i in its])]


@model('builtins.any')
def _any(L, it):
    acc = False
    for x in L.I.iterate(it):
        t = simp(L.I.S.truth(x))
        if t is True:
            return True
        if t is not False:
            acc = t if acc is False else z3.Or(acc, t)
    return acc


@model('builtins.all')
def _all(L, it):
    acc = True
    for x in L.I.iterate(it):
        t = simp(L.I.S.truth(x))
        if t is False:
            return False
        if t is not True:
            acc = t if acc is True else z3.And(acc, t)
    return acc


@model('builtins.round')
def _round(L, x, nd=None):
    if not is_sym(x):
        return round(x, nd) if nd is not None else round(x)
    if nd is not None:
        raise Unsupported('round(x, n) symbolic')
    return round_half_even(L.ctx, x)


def round_half_even(ctx, x):
    x = to_real(x)
    k = sym_floor(ctx, x)
    fr = x - z3.ToReal(k)
    even = (k % 2 == 0)
    return z3.If(fr < rv(0.5), k, z3.If(fr > rv(0.5), k + 1, z3.If(even, k, k + 1)))


@model('builtins.hasattr')
def _hasattr(L, o, name):
    try:
        L.I.getattr(o, name)
        return True
    except PyRaise as e:
        if 'AttributeError' in e.cls.mro_names():
            return False
        raise


@model('builtins.getattr')
def _getattr(L, o, name, *default):
    try:
        return L.I.getattr(o, name)
    except PyRaise as e:
        if default and 'AttributeError' in e.cls.mro_names():
            return default[0]
        raise


@model('builtins.setattr')
def _setattr(L, o, name, value):
    if not isinstance(name, str):
        raise Unsupported('setattr with a symbolic name')
    L.I.setattr(o, name, value)
    return None


@model('builtins.callable')
def _callable(L, v):
    return isinstance(v, (Func, BoundMethod, ClassV, LibRef, Lam, LibMethod))


@model('builtins.type')
def _type(L, v):
    if isinstance(v, Obj):
        return v.cls
    raise Unsupported('type()')


@model('builtins.sorted')
def _sorted(L, it, **kw):
    items = L.I.iterate(it)
    if any(is_sym(x) for x in items) or kw:
        raise Unsupported('sorted symbolic')
    return sorted(items)


@model('builtins.reversed')
def _reversed(L, it):
    return list(reversed(L.I.iterate(it)))


@model('builtins.print')
def _print(L, *a, **k):
    return None


# ============================================================================
# numpy
# ============================================================================

@model('numpy.asarray', 'numpy.array', 'numpy.asanyarray')
def _asarray(L, x, dtype=None, **kw):
    if isinstance(x, Arr):
        if kw.get('copy') or False:
            return x.snapshot()
        # numpy.array copies, asarray does not; a copy is observationally a snapshot
        return x
    return L.as_arr(x)


MODELS['numpy.array'] = lambda L, x, dtype=None, **kw: (x.snapshot() if isinstance(x, Arr) else L.as_arr(x))


@model('numpy.copy')
def _copy(L, x):
    a = L.as_arr(x)
    c = a.snapshot()
    c.ghost = dict(a.ghost)
    return c


@method('Arr', 'copy')
def _arr_copy(L, a):
    return _copy(L, a)


@model('numpy.floor')
def _floor(L, x):
    if isinstance(x, Arr):
        return L.lift1(lambda e: _floor(L, e), x, x.dtype if x.dtype in FLOAT_DT else 'float64')
    if is_sym(x):
        return z3.ToReal(sym_floor(L.ctx, x))
    return float(math.floor(x))


@model('numpy.ceil')
def _ceil(L, x):
    if isinstance(x, Arr):
        return L.lift1(lambda e: _ceil(L, e), x, x.dtype if x.dtype in FLOAT_DT else 'float64')
    if is_sym(x):
        return -z3.ToReal(sym_floor(L.ctx, -to_real(x)))
    return float(math.ceil(x))


ROUND_DEC = z3.Function('round_decimals', z3.RealSort(), z3.IntSort(), z3.RealSort())


@model('numpy.round', 'numpy.around', 'numpy.rint')
def _np_round(L, x, decimals=0):
    if decimals != 0:
        # rounding to a number of decimals: an uninterpreted function of the value (float layer, not modelled)
        if isinstance(x, Arr) and x.ndim == 0:
            x = x.f(())
        if isinstance(x, Arr) or is_sym(decimals):
            raise Unsupported('numpy.round with decimals of an array')
        if is_sym(x):
            return ROUND_DEC(to_real(x), z3.IntVal(int(decimals)))
        return float(round(x, decimals))
    if isinstance(x, Arr):
        return L.lift1(lambda e: _np_round(L, e), x, x.dtype)
    if is_sym(x):
        if sort_kind(x) == 'int':
            return x
        return z3.ToReal(round_half_even(L.ctx, x))
    return float(round(x))


@model('numpy.finfo')
def _finfo(L, dt):
    kind = dt.kind if isinstance(dt, Opaque) else (dt.dotted.split('.')[-1] if isinstance(dt, LibRef) else None)
    if kind in ('float64', 'float'):
        return Opaque('finfo', eps=EPS64, tiny=2.2250738585072014e-308, max=1.7976931348623157e+308, min=-1.7976931348623157e+308)
    if kind == 'float32':
        return Opaque('finfo', eps=EPS32)
    raise PyRaise(builtin_exc('ValueError'), 'finfo of non-float dtype')


@model('numpy.column_stack')
def _column_stack(L, tup):
    """numpy.column_stack of 2-d arrays with the same number of rows (1-d arrays count as one column each)"""
    arrs = [L.as_arr(a) for a in tup]
    cols = []
    for a in arrs:
        if a.ndim == 1:
            cols.append((a, None))
        elif a.ndim == 2:
            w = simp(a.shape[1])
            if not isinstance(w, int):
                raise Unsupported('column_stack of an array with a symbolic number of columns')
            for k in range(w):
                cols.append((a, k))
        else:
            raise Unsupported('column_stack rank')
    n = arrs[0].shape[0]
    dt = 'float64' if any(a.dtype in FLOAT_DT for a in arrs) else arrs[0].dtype

    def f(ix):
        j = simp(ix[1])
        def cell(k):
            a, c_ = cols[k]
            return a.f((ix[0],)) if c_ is None else a.f((ix[0], c_))
        if isinstance(j, int):
            return cell(j)
        e = cell(len(cols) - 1)
        for k in range(len(cols) - 2, -1, -1):
            e = ite(to_z3(j) == k, cell(k), e)
        return e
    return Arr((n, len(cols)), f, dt)


@model('numpy.append')
def _np_append(L, arr, values, axis=None):
    """numpy.append(a, v) without axis: flattened a followed by flattened v.  Supported: 1-d a (array or python list) and a
    scalar or a 1-d array v; the result is float64 unless both are integer (numpy's promotion: [] is float64)."""
    if axis is not None:
        raise Unsupported('numpy.append with axis')
    a = L.as_arr(arr) if not (isinstance(arr, list) and not arr) else Arr((0,), lambda ix: 0.0, 'float64')
    if a.ndim != 1:
        raise Unsupported('numpy.append rank')
    if isinstance(values, Arr):
        v = values
        if v.ndim != 1:
            raise Unsupported('numpy.append of nd values')
    else:
        v = L.as_arr(values)
        v = Arr((1,), lambda ix, v=v: v.f(()), v.dtype)
    dt = 'int64' if (a.dtype == 'int64' and v.dtype in ('int64', 'bool')) else 'float64'
    n0, fa, fv = a.shape[0], a.f, v.f
    n = simp(to_z3(n0) + to_z3(v.shape[0]))

    def f(ix):
        i = to_z3(ix[0])
        x, y = fa((i,)), fv((simp(i - to_z3(n0)),))
        if dt == 'float64':
            x, y = to_real(x), to_real(y)
        c = simp(i < to_z3(n0))
        return x if c is True else (y if c is False else ite(c, x, y))
    return Arr((n,), f, dt)


@method('Arr', 'astype')
def _astype(L, a, dt, **kw):
    kind = _dtype_kind(dt)
    if kind == a.dtype:
        return a.snapshot()
    f = a.f
    if kind == 'int64':
        if a.dtype in FLOAT_DT:
            ctx = L.ctx
            return Arr(a.shape, lambda ix: trunc_real(ctx, f(ix)), 'int64')
        if a.dtype == 'bool':
            return Arr(a.shape, lambda ix: to_int_of_bool(to_z3(f(ix))), 'int64')
    if kind in FLOAT_DT:
        if a.dtype in ('int64', 'bool') or a.dtype in FLOAT_DT:
            return Arr(a.shape, lambda ix: to_real(f(ix)) if is_sym(f(ix)) else float(f(ix)), kind)
    if kind == 'bool' and a.dtype in ('int64',) + FLOAT_DT:
        return Arr(a.shape, lambda ix: to_z3(f(ix)) != 0, 'bool')
    if a.dtype == 'str' and kind in FLOAT_DT:
        return Arr(a.shape, lambda ix: STR_NUM(to_z3(f(ix))), kind)
    raise Unsupported('astype %s -> %s' % (a.dtype, kind))


def _dtype_kind(dt):
    if isinstance(dt, LibRef):
        d = dt.dotted
        return {'numpy.int64': 'int64', 'builtins.int': 'int64', 'numpy.int32': 'int64', 'numpy.float64': 'float64',
                'builtins.float': 'float64', 'numpy.float32': 'float32', 'builtins.bool': 'bool',
                'numpy.bool_': 'bool', 'numpy.bool': 'bool'}.get(d) or _unsup('dtype ' + d)
    if isinstance(dt, str):
        return {'int': 'int64', 'int64': 'int64', 'float': 'float64', 'float64': 'float64', 'bool': 'bool',
                'i8': 'int64', 'f8': 'float64', '<f8': 'float64', '<i8': 'int64'}.get(dt) or _unsup('dtype ' + dt)
    if isinstance(dt, Opaque) and dt.name == 'dtype':
        return dt.kind
    raise Unsupported('dtype %r' % (dt,))


def _unsup(msg):
    raise Unsupported(msg)


def _shape_arg(shape):
    if isinstance(shape, (tuple, list)):
        return tuple(shape)
    return (shape,)


@model('numpy.zeros')
def _zeros(L, shape, dtype=None, **kw):
    dt = _dtype_kind(dtype) if dtype is not None else 'float64'
    z = {'float64': 0.0, 'float32': 0.0, 'int64': 0, 'bool': False}[dt]
    sh = _shape_arg(shape)
    _check_shape(L, sh)
    return Arr(sh, lambda ix: z, dt)


@model('numpy.ones')
def _ones(L, shape, dtype=None, **kw):
    dt = _dtype_kind(dtype) if dtype is not None else 'float64'
    o = {'float64': 1.0, 'float32': 1.0, 'int64': 1, 'bool': True}[dt]
    sh = _shape_arg(shape)
    _check_shape(L, sh)
    return Arr(sh, lambda ix: o, dt)


@model('numpy.empty')
def _empty(L, shape, dtype=None, **kw):
    dt = _dtype_kind(dtype) if dtype is not None else 'float64'
    sh = _shape_arg(shape)
    _check_shape(L, sh)
    return L.fresh_arr('empty', sh, dt)


@model('numpy.zeros_like')
def _zeros_like(L, a, dtype=None):
    a = L.as_arr(a)
    return _zeros(L, a.shape, dtype if dtype is not None else Opaque('dtype', kind=a.dtype))


@model('numpy.ones_like')
def _ones_like(L, a, dtype=None):
    a = L.as_arr(a)
    return _ones(L, a.shape, dtype if dtype is not None else Opaque('dtype', kind=a.dtype))


def _check_shape(L, sh):
    for d in sh:
        if is_sym(d):
            if sort_kind(d) != 'int':
                raise PyRaise(builtin_exc('TypeError'), 'shape must be integers')
            if L.ctx.branch(d < 0):
                raise PyRaise(builtin_exc('ValueError'), 'negative dimensions are not allowed')
        elif isinstance(d, float):
            raise PyRaise(builtin_exc('TypeError'), 'float cannot be interpreted as an integer')
        elif d < 0:
            raise PyRaise(builtin_exc('ValueError'), 'negative dimensions are not allowed')


@model('numpy.arange')
def _arange(L, *a, **kw):
    if len(a) == 1:
        lo, hi, st = 0, a[0], 1
    elif len(a) == 2:
        lo, hi, st = a[0], a[1], 1
    else:
        lo, hi, st = a
    kinds = set(sort_kind(x) for x in (lo, hi, st))
    if kinds <= {'int'}:
        if st != 1 and not (isinstance(st, int) and st > 0):
            raise Unsupported('arange step')
        zlo, zhi = to_z3(lo), to_z3(hi)
        if isinstance(st, int) and st == 1:
            n = simp(z3.If(zhi - zlo > 0, zhi - zlo, 0))
        else:
            d = zhi - zlo
            n = simp(z3.If(d > 0, (d + st - 1) / st, 0))
        return Arr((n,), lambda ix: simp(zlo + to_z3(ix[0]) * st) if (is_sym(ix[0]) or is_sym(lo)) else lo + ix[0] * st, 'int64')
    # float arange: length ceil((hi-lo)/st)
    ctx = L.ctx
    zlo, zhi, zst = to_real(lo), to_real(hi), to_real(st)
    q = (zhi - zlo) / zst
    n = -sym_floor(ctx, -q)
    n = simp(z3.If(n > 0, n, 0))
    return Arr((n,), lambda ix: zlo + z3.ToReal(to_z3(ix[0])) * zst, 'float64')


@model('numpy.sort')
def _sort(L, a, **kw):
    """assumed: result is a sorted permutation (multiset preserved: all threshold counts equal)"""
    a = L.as_arr(a)
    if a.ghost.get('first_occ') is not None:
        # the index array of numpy.unique(.., return_index=True): sorted, it enumerates the first-occurrence positions in
        # increasing order (see models_io.unique_first_occurrence)
        return a.ghost['first_occ']
    if a.ndim != 1:
        raise Unsupported('sort of nd array')
    if a.dtype not in FLOAT_DT + ('int64',):
        raise Unsupported('sort dtype')
    ctx = L.ctx
    n = to_z3(a.shape[0])
    r = L.fresh_arr('sorted', (a.shape[0],), a.dtype)
    R = r.term
    i, j = z3.Ints('i!so j!so')
    ctx.fact(z3.ForAll([i, j], z3.Implies(z3.And(0 <= i, i <= j, j < n), R[i] <= R[j]),
                       patterns=[z3.MultiPattern(R[i], R[j])]))
    r.ghost['sorted'] = True
    r.ghost['perm_of'] = a.snapshot()
    # multiset preservation, expressed through counting functions
    v = z3.Real('v!so')
    from . import spec
    ctx.fact(z3.ForAll([v], z3.And(spec.cge(r, n, v) == spec.cge(a, n, v),
                                   spec.cle(r, n, v) == spec.cle(a, n, v),
                                   spec.ceq(r, n, v) == spec.ceq(a, n, v)),
                       patterns=ok_patterns([spec.cge(r, n, v), spec.cle(r, n, v), spec.cge(a, n, v), spec.cle(a, n, v)])),
             lemma=True)
    L.I.used_lemmas.add('L5.permutation_preserves_counts')
    # every element of the result occurs in the input and vice versa
    p = ctx.fresh_fun('perm', z3.IntSort(), z3.IntSort())
    q = ctx.fresh_fun('perminv', z3.IntSort(), z3.IntSort())
    ctx.fact(z3.ForAll([i], z3.Implies(z3.And(0 <= i, i < n),
                                       z3.And(0 <= p(i), p(i) < n, q(p(i)) == i,
                                              R[i] == to_z3(a.f((p(i),))))), patterns=[R[i]]))
    ctx.fact(z3.ForAll([i], z3.Implies(z3.And(0 <= i, i < n),
                                       z3.And(0 <= q(i), q(i) < n, p(q(i)) == i)), patterns=[q(i)]))
    return r


@model('numpy.searchsorted')
def _searchsorted(L, a, v, side='left', sorter=None):
    """assumed contract (for sorted a): left: a[:i] < v <= a[i:]; right: a[:i] <= v < a[i:]"""
    a = L.as_arr(a)
    if a.ndim != 1 or sorter is not None:
        raise Unsupported('searchsorted rank')
    if side not in ('left', 'right'):
        raise PyRaise(builtin_exc('ValueError'), 'side must be left or right')
    ctx = L.ctx
    n = to_z3(a.shape[0])
    fa = a.f

    def one(val, k):
        t = z3.Int('t!ss')
        val = to_z3(val)
        e = to_z3(fa((t,)))
        e, val2 = unify(e, val)
        if side == 'left':
            below, above = e < val2, e >= val2
        else:
            below, above = e <= val2, e > val2
        ctx.fact(z3.And(k >= 0, k <= n))
        ctx.fact(z3.ForAll([t], z3.Implies(z3.And(0 <= t, t < k), below)))
        ctx.fact(z3.ForAll([t], z3.Implies(z3.And(k <= t, t < n), above)))
        # lemma L3 (partition point = count), instantiated for this call
        from . import spec
        if side == 'left':
            ctx.fact(spec.cge(a, n, val) == n - k, lemma=True)
        else:
            ctx.fact(spec.cle(a, n, val) == k, lemma=True)
        L.I.used_lemmas.add('L3.partition_count')
        return k
    # precondition: a is sorted (numpy's result is unspecified otherwise)
    i, j = z3.Ints('i!ss j!ss')
    if not a.ghost.get('sorted'):
        ei, ej = to_z3(fa((i,))), to_z3(fa((j,)))
        ctx.oblige('searchsorted.requires.sorted',
                   z3.ForAll([i, j], z3.Implies(z3.And(0 <= i, i <= j, j < n), ei <= ej)), kind='callpre')
    if isinstance(v, Arr):
        if v.ndim != 1:
            raise Unsupported('searchsorted of nd values')
        K = ctx.fresh_fun('ss', z3.IntSort(), z3.IntSort())
        fv = v.snapshot().f
        # quantified over the element index q (facts for every element, not only the ones evaluated)
        q, t = z3.Int('q!ss'), z3.Int('t!ss')
        vq = to_z3(fv((q,)))
        e = to_z3(fa((t,)))
        e, vq2 = unify(e, vq)
        if side == 'left':
            below, above = e < vq2, e >= vq2
        else:
            below, above = e <= vq2, e > vq2
        inq = z3.And(0 <= q, q < to_z3(v.shape[0]))
        ctx.fact(z3.ForAll([q], z3.Implies(inq, z3.And(K(q) >= 0, K(q) <= n)), patterns=[K(q)]))
        ctx.fact(z3.ForAll([q, t], z3.Implies(z3.And(inq, 0 <= t, t < K(q)), below),
                           patterns=[z3.MultiPattern(K(q), fa((t,)))] if not has_binder(to_z3(fa((t,)))) else []))
        ctx.fact(z3.ForAll([q, t], z3.Implies(z3.And(inq, K(q) <= t, t < n), above),
                           patterns=[z3.MultiPattern(K(q), fa((t,)))] if not has_binder(to_z3(fa((t,)))) else []))
        from . import spec
        if side == 'left':
            ctx.fact(z3.ForAll([q], z3.Implies(inq, spec.cge(a, n, vq) == n - K(q)), patterns=[K(q)]), lemma=True)
        else:
            ctx.fact(z3.ForAll([q], z3.Implies(inq, spec.cle(a, n, vq) == K(q)), patterns=[K(q)]), lemma=True)
        L.I.used_lemmas.add('L3.partition_count')
        r = Arr(v.shape, lambda ix: K(to_z3(ix[0])), 'int64')
        r.ghost['searchsorted'] = dict(a=a.snapshot(), v=v.snapshot(), side=side, K=K)
        return r
    k = ctx.fresh_int('ss')
    return one(v, k)


@model('numpy.any')
def _np_any(L, a, **kw):
    a = L.as_arr(a)
    if a.ndim == 0:
        return L.I.S.truth(a.f(()))
    sz = [simp(d) for d in a.shape]
    if a.ndim == 1 and isinstance(sz[0], int) and sz[0] <= 16:
        return _any(L, [a.f((k,)) for k in range(sz[0])])
    if a.ndim != 1:
        raise Unsupported('numpy.any rank')
    i = z3.Int('i!any')
    return z3.Exists([i], z3.And(0 <= i, i < to_z3(a.shape[0]), L.I.S.truth(a.f((i,)))))


@model('numpy.all')
def _np_all(L, a, **kw):
    a = L.as_arr(a)
    if a.ndim == 0:
        return L.I.S.truth(a.f(()))
    if a.ndim != 1:
        raise Unsupported('numpy.all rank')
    sz = simp(a.shape[0])
    if isinstance(sz, int) and sz <= 16:
        return _all(L, [a.f((k,)) for k in range(sz)])
    i = z3.Int('i!all')
    return z3.ForAll([i], z3.Implies(z3.And(0 <= i, i < to_z3(a.shape[0])), L.I.S.truth(a.f((i,)))))


@method('Arr', 'any')
def _m_any(L, a, **kw):
    return _np_any(L, a, **kw)


@method('Arr', 'all')
def _m_all(L, a, **kw):
    return _np_all(L, a, **kw)


def flat_view(L, a):
    """C-order flattened view of a (rank <= 2)"""
    if a.ndim == 1:
        return a
    fb = getattr(a, 'flat_backing', None)
    if fb is not None:
        return fb         # a C-contiguous array given by its flat storage: ravel() is that storage
    if a.ndim == 0:
        base = a
        return Arr((1,), lambda ix: base.f(()), a.dtype)
    if a.ndim == 2:
        base = a
        n1 = a.shape[1]
        ctx = L.ctx
        if isinstance(simp(n1), int) and simp(n1) > 0:
            n1c = simp(n1)

            def f(ix):
                k = ix[0]
                if isinstance(simp(k), int):
                    return base.f((simp(k) // n1c, simp(k) % n1c))
                zk = to_z3(k)
                return base.f((zk / n1c, zk % n1c))
        else:
            def f(ix):
                zk = to_z3(ix[0])
                return base.f((zk / to_z3(n1), zk % to_z3(n1)))
        r = Arr((simp(to_z3(a.shape[0]) * to_z3(a.shape[1])),), f, a.dtype)
        r.flat_of = a
        return r
    raise Unsupported('ravel rank %d' % a.ndim)


@method('Arr', 'ravel', 'flatten')
def _ravel(L, a, *args):
    r = flat_view(L, a)
    if hasattr(a, 'mask') and r is not a:
        from .models_sci import MArr
        return MArr(r, flat_view(L, a.mask))
    return r


@model('numpy.ravel')
def _np_ravel(L, a):
    return flat_view(L, L.as_arr(a))


@method('Arr', 'reshape')
def _reshape(L, a, *shape):
    if len(shape) == 1 and isinstance(shape[0], (tuple, list)):
        shape = tuple(shape[0])
    flat = flat_view(L, a)
    if len(shape) == 1:
        return flat
    if len(shape) == 2:
        n0, n1 = shape
        if simp(n0) == -1:
            raise Unsupported('reshape -1')
        if simp(n1) == -1:
            raise Unsupported('reshape -1')
        size = to_z3(flat.shape[0])
        bad = simp(to_z3(n0) * to_z3(n1) != size)
        if bad is True or (bad is not False and L.ctx.branch(bad)):
            raise PyRaise(builtin_exc('ValueError'), 'cannot reshape array into the requested shape')
        return Arr((n0, n1), lambda ix: flat.f((simp(to_z3(ix[0]) * to_z3(n1) + to_z3(ix[1])),)), a.dtype)
    raise Unsupported('reshape rank')


@method('Arr', 'fill')
def _fill(L, a, v):
    vv = coerce_elem(v, a.dtype)
    tgt = a
    base = getattr(a, 'flat_of', None)
    a.f = lambda ix: vv
    if base is not None:
        base.f = lambda ix: vv
    return None


@method('Arr', 'sum')
def _m_sum(L, a, axis=None, **kw):
    return _np_sum(L, a, axis=axis, **kw)


def _mentions(t, var):
    st = [t]
    seen = set()
    while st:
        u = st.pop()
        if u.get_id() in seen:
            continue
        seen.add(u.get_id())
        if u.eq(var):
            return True
        if z3.is_app(u):
            st.extend(u.children())
        elif z3.is_quantifier(u):
            st.append(u.body())
    return False


def _selection_sum_lemma(L, a, st):
    """lemma L4_sum_over_selection: a sum over a mask selection is the sum over all positions of
    [mask ? term : 0]  - emitted when the summand reads the selection only through sel(j)"""
    m = to_z3(a.shape[0])
    reg = L.ctx.ghost.get('selections', {}).get(m.get_id()) if is_sym(m) else None
    if reg is None:
        return
    j = z3.Int('j!sl')
    i = z3.Int('i!lam')
    e = to_real(a.f((j,)))
    e2 = z3.substitute(e, (reg['sel'](j), i))
    if _mentions(e2, j):
        return
    full = z3.Lambda([i], z3.If(to_z3(reg['mask'].f((i,))), e2, z3.RealVal(0)))
    L.ctx.fact(st == SUM(full, reg['n']), lemma=True)
    L.I.used_lemmas.add('L4.count_over_selection')


def sum_term(L, a):
    """sum over a 1-d Arr as a z3 term (concrete length: expanded)"""
    n = simp(a.shape[0])
    if isinstance(n, int) and n <= 12:
        r = 0 if a.dtype in ('int64', 'bool') else 0.0
        for k in range(n):
            e = a.f((k,))
            if is_bool_sym(e) or isinstance(e, bool):
                e = to_int_of_bool(to_z3(e)) if is_sym(e) else int(e)
            r = L.I.S.binop(ast.Add(), r, e)
        return r
    probe = z3.Int('i!probe')
    e = a.f((probe,))
    if not is_sym(e) or not _mentions(to_z3(e), probe):
        # constant array: n * c (exact)
        if a.dtype == 'bool':
            e = to_int_of_bool(to_z3(e))
        return simp(to_z3(L.I.S.binop(ast.Mult(), e, to_z3(a.shape[0]))))
    g = a.ghost.get('add_at')
    if g is not None and g.get('newf') is a.f and a.dtype in FLOAT_DT:
        # lemma L1+L4 instance: after add.at(a, I, v) with all indices in range, sum(a) = sum(old) + v*len(I)
        old = Arr(a.shape, g['old'], a.dtype)
        so = sum_term(L, old)
        st = SUM(ArrTerm.of(a, 'real'), to_z3(a.shape[0]))
        L.ctx.fact(st == to_real(so) + to_real(g['v']) * z3.ToReal(to_z3(g['idx'].shape[0])), lemma=True)
        L.I.used_lemmas.add('L1.fibre_sum(add.at)')
        return st
    if a.dtype in FLOAT_DT:
        st = SUM(ArrTerm.of(a, 'real'), to_z3(a.shape[0]))
        _selection_sum_lemma(L, a, st)
        return st
    if a.dtype == 'int64':
        ist = ISUM(ArrTerm.of(a, 'int'), to_z3(a.shape[0]))
        m = to_z3(a.shape[0])
        if is_sym(m) and L.ctx.ghost.get('selections', {}).get(m.get_id()) is not None:
            # integer sum over a mask selection: its cast is the real sum of the casts (L0_isum_cast), to which the
            # selection-sum lemma applies
            fa = a.f
            ra = Arr(a.shape, lambda ix: to_real(fa(ix)), 'float64')
            st = SUM(ArrTerm.of(ra, 'real'), m)
            L.ctx.fact(z3.ToReal(ist) == st, lemma=True)
            L.I.used_lemmas.add('L0.isum_cast')
            _selection_sum_lemma(L, ra, st)
        return ist
    if a.dtype == 'bool':
        return CNT(ArrTerm.of(a, 'bool'), to_z3(a.shape[0]))
    raise Unsupported('sum dtype %r' % (a.dtype,))


@model('numpy.sum')
def _np_sum(L, a, axis=None, **kw):
    if isinstance(a, list) and all(not isinstance(x, (list, tuple, Arr)) for x in a) and axis is None:
        a = L.as_arr(a)
    if isinstance(a, Opaque) and hasattr(a, 'np_sum'):
        return a.np_sum(L.I, axis)
    a = L.as_arr(a)
    if getattr(a, 'nan_f', None) is not None and a.ndim == 1 and axis in (None, 0, -1):
        # a sum is NaN exactly when some entry is
        from .core import MaybeNan
        i = z3.Int('i!nan')
        plain = Arr(a.shape, a.f, a.dtype)
        return MaybeNan(z3.Exists([i], z3.And(0 <= i, i < to_z3(a.shape[0]), to_z3(a.nan_f((i,))))), to_real(sum_term(L, plain)))
    if a.ndim == 0:
        return a.f(())
    if axis is None:
        return sum_term(L, flat_view(L, a))
    if a.ndim == 1 and axis in (0, -1):
        return sum_term(L, a)
    if a.ndim == 2:
        base = a
        if axis in (1, -1):
            def f(ix):
                row = Arr((base.shape[1],), lambda jx: base.f((ix[0], jx[0])), base.dtype)
                return sum_term(L, row)
            return Arr((a.shape[0],), f, a.dtype if a.dtype != 'bool' else 'int64')
        if axis == 0:
            def f(ix):
                col = Arr((base.shape[0],), lambda jx: base.f((jx[0], ix[0])), base.dtype)
                return sum_term(L, col)
            return Arr((a.shape[1],), f, a.dtype if a.dtype != 'bool' else 'int64')
    raise Unsupported('sum axis')


@model('numpy.cumsum')
def _cumsum(L, a, **kw):
    a = L.as_arr(a)
    if a.ndim != 1:
        a = flat_view(L, a)
    snap = a.snapshot()
    def f(ix):
        pre = Arr((simp(to_z3(ix[0]) + 1),), snap.f, snap.dtype)
        return sum_term(L, pre)
    r = Arr(a.shape, f, a.dtype)
    r.ghost['cumsum_of'] = snap
    return r


@model('numpy.log')
def _log(L, x):
    return _ufunc(L, x, LOG, math.log)


@model('numpy.log10')
def _log10(L, x):
    return _ufunc(L, x, LOG10, math.log10)


@model('numpy.exp')
def _exp(L, x):
    return _ufunc(L, x, EXP, math.exp)


COS = z3.Function('cosine', z3.RealSort(), z3.RealSort())


@model('numpy.cos')
def _cos(L, x):
    return _ufunc(L, x, COS, math.cos)


@model('numpy.expm1')
def _expm1(L, x):
    """exp(x) - 1 (model R: the better conditioning of expm1 is a float matter)"""
    if isinstance(x, Arr):
        return L.lift1(lambda e: _expm1(L, e), x, 'float64' if x.dtype not in FLOAT_DT else x.dtype)
    return EXP(to_real(x) if is_sym(x) else to_real(rv(x))) - 1


@model('numpy.log1p')
def _log1p(L, x):
    if isinstance(x, Arr):
        return L.lift1(lambda e: _log1p(L, e), x, 'float64' if x.dtype not in FLOAT_DT else x.dtype)
    return LOG(1 + (to_real(x) if is_sym(x) else to_real(rv(x))))


@model('numpy.mean')
def _np_mean(L, a, axis=None, **kw):
    a = L.as_arr(a)
    if axis is not None or kw:
        raise Unsupported('mean with axis/options')
    n = 1
    for d in a.shape:
        n = simp(to_z3(n) * to_z3(d)) if (is_sym(n) or is_sym(d)) else n * d
    tot = _np_sum(L, a)
    # numpy: mean of an empty array is nan (+ warning); model R: unspecified quotient
    return to_real(tot) / z3.ToReal(to_z3(n)) if is_sym(n) else (to_real(tot) / rv(float(n)) if n else L._unspec_div(tot))


@method('Arr', 'mean')
def _m_mean(L, a, axis=None, **kw):
    return _np_mean(L, a, axis=axis, **kw)


@model('numpy.sqrt')
def _sqrt(L, x):
    return _ufunc(L, x, SQRT, math.sqrt)


@model('scipy.special.loggamma', 'scipy.special.gammaln')
def _loggamma(L, x):
    return _ufunc(L, x, LOGGAMMA, math.lgamma)


def _ufunc(L, x, F, pyf):
    if isinstance(x, Arr):
        return L.lift1(lambda e: _ufunc(L, e, F, pyf), x, 'float64' if x.dtype not in FLOAT_DT else x.dtype)
    if is_sym(x):
        return F(to_real(x))
    # keep transcendental values symbolic even for concrete arguments: exact reals
    return F(to_real(rv(x)))


@model('numpy.power')
def _power(L, a, b):
    if isinstance(a, Arr) or isinstance(b, Arr):
        return L.lift2(lambda x, y: L.I.S.power(x, y), a, b, 'float64')
    return L.I.S.power(a, b)


@model('numpy.square')
def _square(L, a):
    return _power(L, a, 2)


@model('numpy.nonzero')
def _nonzero(L, a):
    a = L.as_arr(a)
    if a.ndim != 1:
        raise Unsupported('nonzero rank')
    f = a.f
    mask = Arr(a.shape, lambda ix: L.I.S.truth(f(ix)) if not isinstance(f(ix), (int, float)) else bool(f(ix)), 'bool')
    idx = Arr(a.shape, lambda ix: ix[0], 'int64')
    r = L.mask_select(idx, mask)
    r.ghost['index_selection'] = True       # positions of the True entries: distinct, ascending
    return (r,)


@model('numpy.where')
def _where(L, c, a=None, b=None):
    if a is None:
        return _nonzero(L, c)
    C = L.as_arr(c)
    A = L.as_arr(a)
    B = L.as_arr(b)
    sh = L._bshape(C, L.as_arr(L.lift2(lambda x, y: x, A, B, A.dtype)))
    dt = A.dtype if A.dtype == B.dtype else 'float64'
    return Arr(sh, lambda ix: ite(to_z3(L._bget(C, ix, sh)), L._bget(A, ix, sh), L._bget(B, ix, sh)), dt)


@model('numpy.logical_and')
def _land(L, a, b):
    return L.lift2(lambda x, y: z3.And(to_z3(L.I.S.truth(x)), to_z3(L.I.S.truth(y))), a, b, 'bool')


@model('numpy.logical_or')
def _lor(L, a, b):
    return L.lift2(lambda x, y: z3.Or(to_z3(L.I.S.truth(x)), to_z3(L.I.S.truth(y))), a, b, 'bool')


@model('numpy.logical_not')
def _lnot(L, a):
    return L.lift1(lambda x: z3.Not(to_z3(L.I.S.truth(x))), a, 'bool')


@model('numpy.add.at')
def _add_at(L, a, I, v):
    """a'[j] = a[j] + v * #{t : wrap(I[t]) = j}; IndexError if some I[t] out of range"""
    if not isinstance(a, Arr):
        raise Unsupported('add.at target')
    I = L.as_arr(I)
    if isinstance(v, Arr):
        raise Unsupported('add.at with array values')
    if a.ndim != 1:
        raise Unsupported('add.at rank')
    if I.dtype != 'int64':
        raise PyRaise(builtin_exc('IndexError'), 'arrays used as indices must be of integer type')
    if I.ndim == 0:
        I = Arr((1,), lambda ix, f=I.f: f(()), 'int64')
    L._fancy_bounds(I, a.shape[0])
    old = a.f
    fI = I.snapshot().f
    n = a.shape[0]
    m = to_z3(I.shape[0])
    t = z3.Int('t!at')

    selg = I.ghost.get('selection')

    def newf(ix):
        hits = z3.Lambda([t], to_z3(L._wrap_pure(fI((t,)), n)) == to_z3(ix[0]))
        c = CNT(hits, m)
        L.ctx.fact(c >= 0, lemma=True)
        if selg is not None:
            # lemma L4 (re-indexing a count over a mask selection):
            # #{j < m : g(sel j)} = #{i < n0 : mask(i) and g(i)}
            base, msk = selg['base'], selg['mask']
            fb, fm = base.f, msk.f
            full = z3.Lambda([t], z3.And(to_z3(fm((t,))), to_z3(L._wrap_pure(fb((t,)), n)) == to_z3(ix[0])))
            L.ctx.fact(c == CNT(full, to_z3(base.shape[0])), lemma=True)
            L.I.used_lemmas.add('L4.count_over_selection')
        inc = L.I.S.binop(ast.Mult(), v, c)
        return L.I.S.binop(ast.Add(), old(ix), inc)
    a.f = newf
    a.ghost['add_at'] = dict(idx=I.snapshot(), v=v, old=old, newf=newf)
    return None


for _nm, _op in (('gt', ast.Gt), ('lt', ast.Lt), ('ge', ast.GtE), ('le', ast.LtE), ('eq', ast.Eq), ('ne', ast.NotEq)):
    MODELS['operator.' + _nm] = (lambda opc: (lambda L, a, b: L.I.S.compare(opc(), a, b)))(_op)


@model('numpy.errstate')
def _errstate(L, **kw):
    return Opaque('errstate')


@model('numpy.isnan')
def _isnan(L, x):
    """model R has no NaN among the reals; NaN exists only as the token numpy.nan and as MaybeNan values / arrays with a
    NaN flag (`nan_f`), which the library produces on purpose for undefined statistics"""
    from .core import MaybeNan
    if isinstance(x, Arr):
        nf = getattr(x, 'nan_f', None)
        if nf is not None:
            return Arr(x.shape, lambda ix: nf(ix), 'bool')
        return L.lift1(lambda e: False, x, 'bool')
    if isinstance(x, MaybeNan):
        return x.isnan
    if isinstance(x, Opaque) and getattr(x, 'is_nan', False):
        return True
    return False


@model('numpy.isclose')
def _isclose(L, a, b, rtol=1e-05, atol=1e-08, equal_nan=False):
    """|a - b| <= atol + rtol * |b| (element-wise)"""
    def one(x, y):
        x, y = to_real(x), to_real(y)
        d = z3.If(x - y >= 0, x - y, y - x)
        ay = z3.If(y >= 0, y, -y)
        return d <= to_real(rv(float(atol))) + to_real(rv(float(rtol))) * ay
    if isinstance(a, Arr) or isinstance(b, Arr):
        return L.lift2(one, a, b, 'bool')
    return one(a, b)


@model('numpy.nan_to_num')
def _nan_to_num(L, x, copy=True, nan=0.0, **kw):
    """NaN entries become `nan` (default 0.0); model R has no infinities to replace"""
    from .core import MaybeNan
    if kw:
        raise Unsupported('nan_to_num options')
    if isinstance(x, Arr):
        nf = getattr(x, 'nan_f', None)
        if nf is None:
            return x.snapshot()
        f = x.f
        return Arr(x.shape, lambda ix: ite(to_z3(nf(ix)), coerce_elem(nan, 'float64'), f(ix)), 'float64')
    if isinstance(x, MaybeNan):
        return z3.If(x.isnan, to_real(nan), x.val)
    if isinstance(x, Opaque) and getattr(x, 'is_nan', False):
        return nan
    return x


@model('numpy.min', 'numpy.amin')
def _np_min(L, a, **kw):
    return _np_minmax(L, a, True)


@model('numpy.max', 'numpy.amax')
def _np_max(L, a, **kw):
    return _np_minmax(L, a, False)


@method('Arr', 'min')
def _m_min(L, a, **kw):
    return _np_minmax(L, a, True)


@method('Arr', 'max')
def _m_max(L, a, **kw):
    return _np_minmax(L, a, False)


def _np_minmax(L, a, ismin):
    a = L.as_arr(a)
    if a.ndim == 0:
        return a.f(())
    if a.ndim != 1:
        a = flat_view(L, a)
    n = simp(a.shape[0])
    if isinstance(n, int):
        if n == 0:
            raise PyRaise(builtin_exc('ValueError'), 'zero-size array to reduction operation')
        return _minmax(L, ([a.f((k,)) for k in range(n)],), {}, ismin)
    ctx = L.ctx
    if ctx.branch(to_z3(n) == 0):
        raise PyRaise(builtin_exc('ValueError'), 'zero-size array to reduction operation')
    r = ctx.fresh('ext', elem_sort(a.dtype))
    w = ctx.fresh_int('argext')
    i = z3.Int('i!mm')
    e = to_z3(a.f((i,)))
    ctx.fact(z3.And(0 <= w, w < to_z3(n), to_z3(a.f((w,))) == r))
    ctx.fact(z3.ForAll([i], z3.Implies(z3.And(0 <= i, i < to_z3(n)), (r <= e) if ismin else (r >= e))))
    return r
