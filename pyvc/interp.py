"""AST interpreter (statements, expressions, calls) on top of pyvc.core."""
import ast

import z3

from .core import (Abort, Arr, SymList, BoundMethod, BreakSig, ClassV, ContinueSig, ExcInstance,
                   ExcType, Func, Lam, LibMethod, LibRef, ModuleEnv, Obj, Opaque, PathCtx,
                   PathInfeasible, PyRaise, Repo, RepoModRef, ReturnSig, Scalars, Unsupported,
                   builtin_exc, exc_matches, is_bool_sym, is_sym, ite, simp, sort_kind,
                   to_z3)


class Frame:
    def __init__(self, func, locals_, module, parent=None):
        self.func = func
        self.locals = locals_
        self.module = module
        self.parent = parent      # enclosing frame for closures
        self.loop_ordinal = 0
        self.old = {}


OUTPUT_CALLS = ('print', 'warnings.warn', 'time.time')


def _is_output_call(node):
    """calls whose only effect is output / logging / timing (DESIGN 1: dropped)"""
    if not isinstance(node, ast.Call):
        return False
    try:
        t = ast.unparse(node.func)
    except Exception:
        return False
    if t in OUTPUT_CALLS:
        return True
    if t.startswith('self.log.') or t.startswith('log.') or t.startswith('logging.'):
        return True
    return False


class Interp:
    def __init__(self, repo=None, registry=None, opts=None):
        from . import lib as _lib
        from . import models_time  # noqa: registers the datetime models
        from . import models_sci  # noqa: scipy / numpy.ma models
        from . import models_io  # noqa: file / json / csv models
        self.repo = repo or Repo()
        self.registry = registry       # contracts by qualified name
        self.opts = opts or {}
        self.ctx = None
        self.S = Scalars(self)
        self.lib = _lib.Lib(self)
        self.depth = 0
        self.inlined = set()
        self.used_contracts = set()
        self.used_models = set()
        self.used_lemmas = set()
        self.used_axioms = set()
        self.dropped = []
        self.call_hook = None

    # ------------------------------------------------------------------ names
    def lookup(self, name, frame):
        f = frame
        while f is not None:
            if name in f.locals:
                v = f.locals[name]
                if v is _UNBOUND:
                    raise PyRaise(builtin_exc('UnboundLocalError'), name)
                return v
            if f is frame and name in getattr(f, 'local_names', ()):
                raise PyRaise(builtin_exc('UnboundLocalError'), name)
            f = f.parent
        mod = frame.module
        if self.ctx is not None:
            # contract-level stand-ins for module globals (abstract constructors): {(module name, global name): value}
            ov = self.ctx.ghost.get('global_overrides')
            if ov and (mod.name, name) in ov:
                return ov[(mod.name, name)]
        if mod.has(name):
            return mod.get(name, self)
        return self.builtin(name)

    def builtin(self, name):
        import builtins
        if name in ('True', 'False', 'None'):
            return {'True': True, 'False': False, 'None': None}[name]
        if hasattr(builtins, name):
            py = getattr(builtins, name)
            if isinstance(py, type) and issubclass(py, BaseException):
                return builtin_exc(name)
            return LibRef('builtins.' + name)
        raise PyRaise(builtin_exc('NameError'), "name '%s' is not defined" % name)

    def eval_in_module(self, module, node):
        fr = Frame(None, {}, module)
        saved = self.ctx
        if self.ctx is None:
            self.ctx = PathCtx([], [])
        try:
            return self.eval(node, fr)
        finally:
            self.ctx = saved

    # ------------------------------------------------------------ expressions
    def eval(self, node, fr):
        m = getattr(self, 'e_' + type(node).__name__, None)
        if m is None:
            raise Unsupported('expression %s' % type(node).__name__)
        return m(node, fr)

    def e_Constant(self, node, fr):
        return node.value

    def e_Name(self, node, fr):
        return self.lookup(node.id, fr)

    def e_Tuple(self, node, fr):
        out = []
        for e in node.elts:
            if isinstance(e, ast.Starred):
                out.extend(self.iterate(self.eval(e.value, fr)))
            else:
                out.append(self.eval(e, fr))
        return tuple(out)

    def e_List(self, node, fr):
        return list(self.e_Tuple(node, fr))

    def e_Set(self, node, fr):
        return set(self.e_Tuple(node, fr))

    def e_Dict(self, node, fr):
        d = {}
        for k, v in zip(node.keys, node.values):
            if k is None:
                d.update(self.eval(v, fr))
            else:
                kk = self.eval(k, fr)
                if is_sym(kk):
                    raise Unsupported('symbolic dict key')
                d[kk] = self.eval(v, fr)
        return d

    def e_JoinedStr(self, node, fr):
        parts = []
        for v in node.values:
            if isinstance(v, ast.Constant):
                parts.append(str(v.value))
            else:
                val = self.eval(v.value, fr)
                if is_sym(val) or isinstance(val, (Arr, Obj, Opaque)):
                    parts.append('<sym>')
                else:
                    parts.append(str(val))
        return ''.join(parts)

    def e_UnaryOp(self, node, fr):
        v = self.eval(node.operand, fr)
        if isinstance(node.op, ast.USub):
            return self.S.neg(v)
        if isinstance(node.op, ast.UAdd):
            return v
        if isinstance(node.op, ast.Not):
            return self.S.not_(v)
        if isinstance(node.op, ast.Invert):
            if isinstance(v, Arr):
                return self.lib.arr_unop('invert', v)
            if isinstance(v, bool) or is_bool_sym(v):
                raise Unsupported('~ on python bool')
            if isinstance(v, int):
                return ~v
        raise Unsupported('unary op')

    def e_BinOp(self, node, fr):
        a = self.eval(node.left, fr)
        b = self.eval(node.right, fr)
        return self.binop(node.op, a, b)

    def binop(self, op, a, b):
        if isinstance(a, str) and isinstance(op, ast.Mod):
            return self.lib.str_format_percent(a, b)
        if isinstance(a, (str, list, tuple)) and not isinstance(b, Arr) and not is_sym(b):
            if isinstance(op, ast.Add) and type(a) == type(b):
                return a + b
            if isinstance(op, ast.Mult) and isinstance(b, int):
                return a * b
        if isinstance(a, (Opaque, Obj)) or isinstance(b, (Opaque, Obj)):
            return self.lib.obj_binop(op, a, b)
        return self.S.binop(op, a, b)

    def e_BoolOp(self, node, fr):
        isand = isinstance(node.op, ast.And)
        val = None
        for i, e in enumerate(node.values):
            val = self.eval(e, fr)
            if i == len(node.values) - 1:
                return val
            t = self.S.truth(val)
            if not isinstance(t, bool):
                # python returns an operand; if both operands are boolean terms we
                # can stay purely symbolic, otherwise fork
                if is_bool_sym(val) and i == len(node.values) - 2:
                    nxt_node = node.values[i + 1]
                    if self._pure_bool_expr(nxt_node):
                        try:
                            nxt = self.eval(nxt_node, fr)
                        except PyRaise:
                            nxt = None
                        if is_bool_sym(nxt) or isinstance(nxt, bool):
                            return z3.And(val, to_z3(nxt)) if isand else z3.Or(val, to_z3(nxt))
                t = self.ctx.branch(t)
            if isand and not t:
                return val
            if not isand and t:
                return val
        return val

    def _pure_bool_expr(self, node):
        for sub in ast.walk(node):
            if isinstance(sub, (ast.Call, ast.Subscript, ast.Attribute)):
                return False
        return True

    def e_Compare(self, node, fr):
        left = self.eval(node.left, fr)
        acc = True
        for op, rn in zip(node.ops, node.comparators):
            right = self.eval(rn, fr)
            r = self.S.compare(op, left, right)
            if isinstance(r, Arr):
                if len(node.ops) != 1:
                    raise Unsupported('chained array comparison')
                return r
            r = simp(r)
            if r is False:
                return False
            if r is not True:
                acc = r if acc is True else z3.And(acc, r)
            left = right
        return acc

    def e_IfExp(self, node, fr):
        t = self.S.truth(self.eval(node.test, fr))
        if not isinstance(t, bool):
            t = self.ctx.branch(t)
        return self.eval(node.body if t else node.orelse, fr)

    def e_Yield(self, node, fr):
        """generator functions are executed eagerly: the function is identified with the SEQUENCE of values it yields
        (`__yielded__` in its frame, a python list or, under a loop invariant, a list of symbolic length)"""
        out = fr.locals.get('__yielded__')
        if out is None:
            raise Unsupported('yield outside an eagerly executed generator')
        v = self.eval(node.value, fr) if node.value is not None else None
        if isinstance(out, SymList):
            out.append(v)
        else:
            out.append(v)
        return None

    def e_Lambda(self, node, fr):
        return Func(fr.module, '<lambda>', node, closure=fr)

    def e_Attribute(self, node, fr):
        v = self.eval(node.value, fr)
        return self.getattr(v, node.attr)

    def getattr(self, v, name):
        if isinstance(v, Obj):
            if name in v.fields:
                return v.fields[name]
            cls = v.cls
            if isinstance(cls, ClassV):
                f = cls.lookup(name)
                if f is not None:
                    decs = getattr(f, 'decorators', [])
                    if 'property' in decs:
                        return self.call_function(f, [v], {})
                    if 'staticmethod' in decs:
                        return f
                    if 'classmethod' in decs:
                        return BoundMethod(f, cls)
                    return BoundMethod(f, v)
                for c in cls.mro():
                    if name in c.attrs:
                        return self.eval_in_module(c.module, c.attrs[name][1])
                if name == '__class__':
                    return cls
                if name == '__dict__':
                    return v.fields
                if getattr(v, 'abstract', False) and name not in getattr(v, 'absent', ()):
                    # the contract's abstract object does not describe this field: the contract is out of date
                    # with the code (e.g. a new cached attribute) - undecided, never a violation
                    raise Unsupported("abstract %s object of the contract has no field '%s'" % (cls.name, name))
                return self.lib.obj_getattr(v, name)
            if name == '__dict__':
                return v.fields
            if getattr(v, 'abstract', False) and name not in getattr(v, 'absent', ()):
                raise Unsupported("abstract record of the contract has no field '%s'" % name)
            raise PyRaise(builtin_exc('AttributeError'), "record has no attribute '%s'" % name)
        if isinstance(v, ClassV):
            f = v.lookup(name)
            if f is not None:
                decs = getattr(f, 'decorators', [])
                if 'classmethod' in decs:
                    return BoundMethod(f, v)
                return f
            for c in v.mro():
                if name in c.attrs:
                    return self.eval_in_module(c.module, c.attrs[name][1])
            if name == '__name__':
                return v.name
            raise PyRaise(builtin_exc('AttributeError'), name)
        if isinstance(v, RepoModRef):
            sub = v.dotted + '.' + name
            if self.repo.find_module(sub):
                return RepoModRef(self.repo, sub)
            m = self.repo.module(v.dotted)
            try:
                return m.get(name, self)
            except KeyError:
                raise PyRaise(builtin_exc('AttributeError'), "module '%s' has no attribute '%s'" % (v.dotted, name))
        if isinstance(v, LibRef):
            return self.lib.lib_getattr(v, name)
        if isinstance(v, ExcInstance):
            if name == 'args':
                return v.args
            raise Unsupported('exception attribute')
        return self.lib.value_getattr(v, name)

    def e_Subscript(self, node, fr):
        v = self.eval(node.value, fr)
        idx = self.eval_index(node.slice, fr)
        return self.lib.getitem(v, idx)

    def eval_index(self, node, fr):
        if isinstance(node, ast.Slice):
            return slice(None if node.lower is None else self.eval(node.lower, fr),
                         None if node.upper is None else self.eval(node.upper, fr),
                         None if node.step is None else self.eval(node.step, fr))
        if isinstance(node, ast.Tuple):
            return tuple(self.eval_index(e, fr) for e in node.elts)
        return self.eval(node, fr)

    def e_Slice(self, node, fr):
        return self.eval_index(node, fr)

    def e_Call(self, node, fr):
        if _is_output_call(node):
            self.dropped.append(ast.unparse(node)[:80])
            return None
        fn = self.eval(node.func, fr)
        args = []
        for a in node.args:
            if isinstance(a, ast.Starred):
                args.extend(self.iterate(self.eval(a.value, fr)))
            else:
                args.append(self.eval(a, fr))
        kwargs = {}
        for kw in node.keywords:
            if kw.arg is None:
                d = self.eval(kw.value, fr)
                if not isinstance(d, dict):
                    raise Unsupported('**kwargs of non-dict')
                kwargs.update(d)
            else:
                kwargs[kw.arg] = self.eval(kw.value, fr)
        if isinstance(fn, LibRef) and fn.dotted == 'builtins.super':
            return self.lib.make_super(fr)
        return self.call(fn, args, kwargs, node=node, frame=fr)

    def e_ListComp(self, node, fr):
        if len(node.generators) == 1 and not node.generators[0].ifs and not node.generators[0].is_async:
            g = node.generators[0]
            src = self.eval(g.iter, fr)
            if isinstance(src, Arr) and src.ndim >= 1 and not isinstance(simp(src.shape[0]), int):
                # the rows (elements) of an array of symbolic length
                def row(k, a=src):
                    if a.ndim == 1:
                        return a.f((k,))
                    v = Arr(a.shape[1:], lambda ix: a.f((k,) + tuple(ix)), a.dtype)
                    v.view_of = (a, k)
                    return v
                src = SymList(src.shape[0], row, 'array rows')
            if isinstance(src, SymList):
                # map over a list of symbolic length: element k of the result is elt[target := src[k]].  The element
                # expression is evaluated once at an arbitrary index (exceptions and branches surface there; a branch on
                # the element is not supported), then per index on demand.
                n, f0 = src.n, src.f

                def at(k):
                    sub = Frame(fr.func, {}, fr.module, parent=fr)
                    self.assign(g.target, f0(k), sub)
                    return self.eval(node.elt, sub)
                # the element expression is probed at an arbitrary index of a NON-EMPTY list only (assuming an index in range would
                # otherwise silently exclude the empty list from everything that follows)
                nz = simp(to_z3(n) > 0)
                if nz is False or (nz is not True and not self.ctx.branch(nz)):
                    return SymList(n, at, 'comprehension')
                k0 = self.ctx.fresh_int('k!comp')
                self.ctx.assume(z3.And(0 <= k0, k0 < to_z3(n)))
                depth = len(self.ctx.worklist) if hasattr(self.ctx, 'worklist') else None
                at(k0)
                if depth is not None and len(self.ctx.worklist) != depth:
                    raise Unsupported('branching element expression in a comprehension over a symbolic list')
                return SymList(n, at, 'comprehension')
        return list(self._comp(node, fr))

    def e_GeneratorExp(self, node, fr):
        return list(self._comp(node, fr))

    def e_SetComp(self, node, fr):
        return set(self._comp(node, fr))

    def e_DictComp(self, node, fr):
        out = {}
        for sub in self._comp_frames(node.generators, fr):
            out[self.eval(node.key, sub)] = self.eval(node.value, sub)
        return out

    def _comp(self, node, fr):
        for sub in self._comp_frames(node.generators, fr):
            yield self.eval(node.elt, sub)

    def _comp_frames(self, gens, fr):
        sub = Frame(fr.func, {}, fr.module, parent=fr)

        def rec(k):
            if k == len(gens):
                yield sub
                return
            g = gens[k]
            for item in self.iterate(self.eval(g.iter, sub)):
                self.assign(g.target, item, sub)
                ok = True
                for c in g.ifs:
                    t = self.S.truth(self.eval(c, sub))
                    if not isinstance(t, bool):
                        t = self.ctx.branch(t)
                    if not t:
                        ok = False
                        break
                if ok:
                    yield from rec(k + 1)
        yield from rec(0)

    # ---------------------------------------------------------------- iterate
    def iterate(self, v):
        """concrete-spine iteration; symbolic-length iteration needs an invariant"""
        if isinstance(v, (list, tuple)):
            return list(v)
        if isinstance(v, (set, frozenset)):
            return list(v)
        if isinstance(v, dict):
            return list(v.keys())
        if isinstance(v, str):
            return list(v)
        if isinstance(v, range):
            return list(v)
        if isinstance(v, Arr):
            n = simp(v.shape[0]) if v.ndim else None
            if isinstance(n, int):
                return [self.lib.getitem(v, i) for i in range(n)]
            raise Unsupported('iteration over array of symbolic length (needs invariant)')
        return self.lib.iterate(v)

    # ------------------------------------------------------------- statements
    def exec_block(self, stmts, fr):
        for st in stmts:
            self.exec(st, fr)

    def exec(self, st, fr):
        m = getattr(self, 's_' + type(st).__name__, None)
        if m is None:
            raise Unsupported('statement %s' % type(st).__name__)
        return m(st, fr)

    def s_Expr(self, st, fr):
        if isinstance(st.value, ast.Constant):
            return  # docstring / bare constant
        self.eval(st.value, fr)

    def s_Pass(self, st, fr):
        pass

    def s_Import(self, st, fr):
        for al in st.names:
            top = al.name.split('.')[0]
            ref = fr.module._modref(al.name if al.asname else top)
            fr.locals[al.asname or top] = ref

    def s_ImportFrom(self, st, fr):
        for al in st.names:
            mod = st.module or ''
            if mod.split('.')[0] == 'csep':
                m = self.repo.module(mod)
                fr.locals[al.asname or al.name] = m.get(al.name, self)
            else:
                fr.locals[al.asname or al.name] = LibRef(mod + '.' + al.name)

    def s_Assign(self, st, fr):
        v = self.eval(st.value, fr)
        for t in st.targets:
            self.assign(t, v, fr)

    def s_AnnAssign(self, st, fr):
        if st.value is not None:
            self.assign(st.target, self.eval(st.value, fr), fr)

    def s_AugAssign(self, st, fr):
        t = st.target
        if isinstance(t, ast.Name):
            cur = self.lookup(t.id, fr)
            if isinstance(cur, Arr):
                new = self.lib.arr_inplace(st.op, cur, self.eval(st.value, fr))
                self.assign(t, new, fr)
                return
            if isinstance(cur, list) and isinstance(st.op, ast.Add):
                cur.extend(self.iterate(self.eval(st.value, fr)))
                return
            self.assign(t, self.binop(st.op, cur, self.eval(st.value, fr)), fr)
        elif isinstance(t, ast.Subscript):
            base = self.eval(t.value, fr)
            idx = self.eval_index(t.slice, fr)
            cur = self.lib.getitem(base, idx)
            val = self.eval(st.value, fr)
            if isinstance(base, Arr) and isinstance(idx, Arr):
                # fancy a[I] += v : buffered, no accumulation (numpy semantics): every position that occurs in I gets
                # old + v exactly once, however often it occurs
                if not isinstance(val, Arr) and base.ndim == 1 and idx.ndim == 1 and idx.dtype == 'int64':
                    self.lib._fancy_bounds(idx, base.shape[0])
                    old, fI, n, m = base.f, idx.f, base.shape[0], idx.shape[0]
                    t = z3.Int('t!st')
                    op = st.op

                    def newf(ix, old=old):
                        hit = z3.Exists([t], z3.And(t >= 0, t < to_z3(m),
                                                    to_z3(self.lib._wrap_pure(fI((t,)), n)) == to_z3(ix[0])))
                        return ite(hit, self.binop(op, old(ix), val), old(ix))
                    base.f = newf
                    return
                new = self.binop(st.op, cur, val)
                self.lib.setitem(base, idx, new)
                return
            self.lib.setitem(base, idx, self.binop(st.op, cur, val))
        elif isinstance(t, ast.Attribute):
            base = self.eval(t.value, fr)
            cur = self.getattr(base, t.attr)
            self.setattr(base, t.attr, self.binop(st.op, cur, self.eval(st.value, fr)))
        else:
            raise Unsupported('augassign target')

    def assign(self, target, v, fr):
        if isinstance(target, ast.Name):
            fr.locals[target.id] = v
        elif isinstance(target, (ast.Tuple, ast.List)):
            items = self.iterate(v)
            if any(isinstance(e, ast.Starred) for e in target.elts):
                raise Unsupported('starred assignment')
            if len(items) != len(target.elts):
                raise PyRaise(builtin_exc('ValueError'), 'unpack: expected %d got %d' % (len(target.elts), len(items)))
            for e, it in zip(target.elts, items):
                self.assign(e, it, fr)
        elif isinstance(target, ast.Subscript):
            base = self.eval(target.value, fr)
            idx = self.eval_index(target.slice, fr)
            self.lib.setitem(base, idx, v)
        elif isinstance(target, ast.Attribute):
            base = self.eval(target.value, fr)
            self.setattr(base, target.attr, v)
        else:
            raise Unsupported('assignment target %s' % type(target).__name__)

    def setattr(self, base, name, v):
        if isinstance(base, Obj):
            cls = base.cls
            if isinstance(cls, ClassV):
                f = cls.lookup(name)
                if f is not None and getattr(f, 'setter', None) is not None:
                    self.call_function(f.setter, [base, v], {})
                    return
            base.fields[name] = v
            base.written.add(name)
            return
        self.lib.obj_setattr(base, name, v)

    def s_Delete(self, st, fr):
        for t in st.targets:
            if isinstance(t, ast.Name):
                fr.locals.pop(t.id, None)
            elif isinstance(t, ast.Attribute):
                base = self.eval(t.value, fr)
                if isinstance(base, Obj) and t.attr in base.fields:
                    del base.fields[t.attr]
                    base.written.add(t.attr)
                else:
                    raise PyRaise(builtin_exc('AttributeError'), t.attr)
            else:
                raise Unsupported('del of non-name')

    def s_Return(self, st, fr):
        raise ReturnSig(None if st.value is None else self.eval(st.value, fr))

    def s_Break(self, st, fr):
        raise BreakSig()

    def s_Continue(self, st, fr):
        raise ContinueSig()

    def s_Global(self, st, fr):
        raise Unsupported('global statement')

    def s_Nonlocal(self, st, fr):
        raise Unsupported('nonlocal statement')

    def s_If(self, st, fr):
        if self._droppable_if(st):
            self.dropped.append('if %s: <output only>' % ast.unparse(st.test)[:60])
            return
        t = self.S.truth(self.eval(st.test, fr))
        if not isinstance(t, bool):
            t = self.ctx.branch(t)
        self.exec_block(st.body if t else st.orelse, fr)

    def _droppable_if(self, st):
        """`if verbose:` blocks that only print (DESIGN 1: what extraction drops)"""
        if st.orelse:
            return False
        try:
            test = ast.unparse(st.test)
        except Exception:
            return False
        if test not in ('verbose', 'self.verbose'):
            return False

        def only_output(stmts):
            for s in stmts:
                if isinstance(s, ast.Expr) and _is_output_call(s.value):
                    continue
                if isinstance(s, ast.If) and not s.orelse and only_output(s.body):
                    continue
                return False
            return True
        return only_output(st.body)

    def s_Assert(self, st, fr):
        t = self.S.truth(self.eval(st.test, fr))
        if not isinstance(t, bool):
            t = self.ctx.branch(t)
        if not t:
            raise PyRaise(builtin_exc('AssertionError'), None if st.msg is None else 'assert')

    def s_Raise(self, st, fr):
        if st.exc is None:
            cur = getattr(fr, 'current_exc', None)
            f = fr
            while cur is None and f is not None:
                cur = getattr(f, 'current_exc', None)
                f = f.parent
            if cur is None:
                raise Unsupported('bare raise outside handler')
            raise cur
        e = self.eval(st.exc, fr)
        if isinstance(e, ExcType):
            raise PyRaise(e, None)
        if isinstance(e, ExcInstance):
            raise PyRaise(e.cls, e.args)
        if isinstance(e, ClassV) and e.exc is not None:
            raise PyRaise(e.exc, None)
        if isinstance(e, Obj) and isinstance(e.cls, ClassV) and e.cls.exc is not None:
            raise PyRaise(e.cls.exc, None)
        raise Unsupported('raise of %r' % (e,))

    def s_Try(self, st, fr):
        try:
            try:
                self.exec_block(st.body, fr)
            except PyRaise as pr:
                for h in st.handlers:
                    if h.type is None:
                        match = True
                    else:
                        ht = self.eval(h.type, fr)
                        ht = self._as_exctype(ht)
                        match = exc_matches(pr.cls, ht)
                    if match:
                        if h.name:
                            fr.locals[h.name] = ExcInstance(pr.cls, pr.msg)
                        prev = getattr(fr, 'current_exc', None)
                        fr.current_exc = pr
                        try:
                            self.exec_block(h.body, fr)
                        finally:
                            fr.current_exc = prev
                        break
                else:
                    raise
            else:
                self.exec_block(st.orelse, fr)
        finally:
            if st.finalbody:
                self.exec_block(st.finalbody, fr)

    def _as_exctype(self, ht):
        if isinstance(ht, tuple):
            return tuple(self._as_exctype(h) for h in ht)
        if isinstance(ht, ClassV) and ht.exc is not None:
            return ht.exc
        if isinstance(ht, LibRef):
            # third-party exception class: cannot match repository/builtin raises
            return ExcType(ht.dotted, [builtin_exc('Exception')])
        return ht

    def s_With(self, st, fr):
        for item in st.items:
            cm = self.eval(item.context_expr, fr)
            v = self.lib.enter_context(cm)
            if item.optional_vars is not None:
                self.assign(item.optional_vars, v, fr)
        self.exec_block(st.body, fr)

    def s_FunctionDef(self, st, fr):
        fr.locals[st.name] = Func(fr.module, (fr.func.qualname + '.' if fr.func else '') + st.name, st, closure=fr)

    def s_ClassDef(self, st, fr):
        # the one shape the repository uses inside functions: a plain enum.Enum of constants (column indices)
        bases = [ast.unparse(b) for b in st.bases]
        if bases == ['enum.Enum'] and not st.decorator_list and not st.keywords:
            members = {}
            for b in st.body:
                if isinstance(b, ast.Assign) and len(b.targets) == 1 and isinstance(b.targets[0], ast.Name) and isinstance(b.value, ast.Constant):
                    nm = b.targets[0].id
                    if nm in ('name', 'value'):
                        raise Unsupported('enum member called %s' % nm)
                    members[nm] = Opaque('enum', enum_member=True, value=b.value.value, member_name=nm)
                elif isinstance(b, ast.Expr) and isinstance(b.value, ast.Constant):
                    continue
                else:
                    raise Unsupported('nested class definition (enum with a non-constant member)')
            fr.locals[st.name] = Opaque('enumclass', **members)
            return
        raise Unsupported('nested class definition')

    def s_While(self, st, fr):
        inv = self._loop_contract(fr)
        if inv is not None:
            return self._while_with_invariant(st, fr, inv)
        bound = self.opts.get('unroll', 64)
        for _ in range(bound):
            t = self.S.truth(self.eval(st.test, fr))
            if not isinstance(t, bool):
                raise Unsupported('while with symbolic condition needs an invariant')
            if not t:
                break
            try:
                self.exec_block(st.body, fr)
            except BreakSig:
                return
            except ContinueSig:
                continue
        else:
            raise Unsupported('while loop exceeds unroll bound')
        self.exec_block(st.orelse, fr)

    def s_For(self, st, fr):
        inv = self._loop_contract(fr)
        it = self.eval(st.iter, fr)
        if inv is not None:
            return self._for_with_invariant(st, fr, it, inv)
        items = self.iterate(it)
        if len(items) > self.opts.get('unroll', 64):
            raise Unsupported('for loop exceeds unroll bound')
        for item in items:
            self.assign(st.target, item, fr)
            try:
                self.exec_block(st.body, fr)
            except BreakSig:
                return
            except ContinueSig:
                continue
        self.exec_block(st.orelse, fr)

    def _loop_contract(self, fr):
        k = fr.loop_ordinal
        fr.loop_ordinal += 1
        lc = getattr(fr, 'loop_contracts', None)
        if lc and k in lc:
            return lc[k]
        return None

    def _for_with_invariant(self, st, fr, it, inv):
        """inv: LoopInv (trips / item / havoc / inv / step_lemmas).  Proves init and preservation;
        continues from the invariant at exit.  inv.mode is 'prove' (goals: skolem constants may be
        used for universally quantified clauses) or 'assume' (hypotheses: z3.ForAll)."""
        ctx = self.ctx
        n = inv.trips(self, it)
        # range(k) with k < 0 (and any empty iterable) runs zero times: the trip count is max(k, 0)
        if is_sym(n):
            # (kept as it is when the path condition already excludes a negative count: lengths, counts)
            if ctx.feasible(to_z3(n) < 0):
                n = simp(z3.If(to_z3(n) < 0, z3.IntVal(0), to_z3(n)))
        elif isinstance(n, int) and n < 0:
            n = 0
        inv.mode = 'prove'
        for nm, g in inv.inv(self, fr, 0, it):
            ctx.oblige('loop%d.init.%s' % (inv.ordinal, nm), g, kind='invariant')
        # arbitrary iteration: fork between "inside the loop" and "after the loop"
        mode = ctx.branch(ctx.fresh_bool('loopbody%d' % inv.ordinal))
        i = ctx.fresh_int('it%d' % inv.ordinal)
        if mode:
            ctx.assume(z3.And(i >= 0, i < n))
            ctx.ghost.setdefault('witnesses', []).append((i, 'loop iteration'))
            inv.havoc(self, fr, i, it)
            inv.mode = 'assume'
            for nm, g in inv.inv(self, fr, i, it):
                ctx.assume(g)
            self.assign(st.target, inv.item(self, it, i), fr)
            try:
                self.exec_block(st.body, fr)
            except ContinueSig:
                pass
            except BreakSig:
                raise Unsupported('break inside loop with invariant')
            inv.mode = 'prove'
            goals = list(inv.inv(self, fr, i + 1, it))
            for f in inv.step_lemmas(self, fr, i, it):
                ctx.fact(f, lemma=True)
            ctx.oblige_seq(goals, 'loop%d.step' % inv.ordinal, kind='invariant')
            raise Abort()
        else:
            inv.havoc(self, fr, n, it)
            inv.mode = 'assume'
            for nm, g in inv.inv(self, fr, n, it):
                ctx.assume(g)
            inv.at_exit(self, fr, it)
            self.exec_block(st.orelse, fr)

    def _while_with_invariant(self, st, fr, inv):
        """while <test>: partial correctness (termination is not an obligation).  inv.inv(I, fr, None, None) is the invariant
        at the loop head; inv.mode is 'prove' for goals and 'assume' for hypotheses, as for `for` loops."""
        ctx = self.ctx
        inv.mode = 'prove'
        for nm, g in inv.inv(self, fr, None, None):
            ctx.oblige('loop%d.init.%s' % (inv.ordinal, nm), g, kind='invariant')
        mode = ctx.branch(ctx.fresh_bool('loopbody%d' % inv.ordinal))
        inv.havoc(self, fr, None, None)
        inv.mode = 'assume'
        for nm, g in inv.inv(self, fr, None, None):
            ctx.assume(g)
        t = self.S.truth(self.eval(st.test, fr))
        if mode:
            ctx.assume(t)
            try:
                self.exec_block(st.body, fr)
            except ContinueSig:
                pass
            except BreakSig:
                raise Unsupported('break inside loop with invariant')
            inv.mode = 'prove'
            goals = list(inv.inv(self, fr, None, None))
            for f in inv.step_lemmas(self, fr, None, None):
                ctx.fact(f, lemma=True)
            ctx.oblige_seq(goals, 'loop%d.step' % inv.ordinal, kind='invariant')
            raise Abort()
        else:
            ctx.assume(self.S.not_(t) if not isinstance(t, bool) else (not t))
            inv.at_exit(self, fr, None)
            self.exec_block(st.orelse, fr)

    # ------------------------------------------------------------------ calls
    def call(self, fn, args, kwargs, node=None, frame=None):
        if isinstance(fn, BoundMethod):
            return self.call(fn.func, [fn.selfv] + list(args), kwargs, node, frame)
        if isinstance(fn, Func):
            return self.call_repo(fn, args, kwargs)
        if isinstance(fn, ClassV):
            return self.instantiate(fn, args, kwargs)
        if isinstance(fn, Lam):
            return fn.fn(*args, **kwargs)
        if isinstance(fn, LibRef):
            return self.lib.call(fn, args, kwargs)
        if isinstance(fn, LibMethod):
            return self.lib.call_method(fn.recv, fn.name, args, kwargs)
        if isinstance(fn, ExcType):
            return ExcInstance(fn, tuple(args))
        if isinstance(fn, Opaque) and hasattr(fn, 'call'):
            return fn.call(self, args, kwargs)
        raise Unsupported('call of %r' % (fn,))

    def call_repo(self, fn, args, kwargs):
        """modular call if the callee has a contract, else inline"""
        if self.registry is not None and not isinstance(fn.node, ast.Lambda):
            con = self.registry.lookup(fn.full)
            rec_ok = fn.full == self.opts.get('verifying') and self.opts.get('recursive_contract')
            if con is not None and fn.full not in self.opts.get('force_inline', ()) \
                    and (fn.full != self.opts.get('verifying') or rec_ok):
                r = con.apply(self, fn, args, kwargs)
                if r is not NotImplemented:
                    self.used_contracts.add(fn.full)
                    return r
        self.inlined.add(fn.full)
        return self.call_function(fn, args, kwargs)

    def bind(self, fn, args, kwargs):
        node = fn.node
        a = node.args
        params = [p.arg for p in a.posonlyargs + a.args]
        loc = {}
        args = list(args)
        if len(args) > len(params) and a.vararg is None:
            raise PyRaise(builtin_exc('TypeError'), 'too many positional arguments')
        for p, v in zip(params, args):
            loc[p] = v
        if a.vararg is not None:
            loc[a.vararg.arg] = tuple(args[len(params):])
        kwargs = dict(kwargs)
        ndef = len(a.defaults)
        defaults = dict(zip(params[len(params) - ndef:], a.defaults))
        defm = fn.module
        for p in params:
            if p in loc:
                if p in kwargs:
                    raise PyRaise(builtin_exc('TypeError'), 'multiple values for ' + p)
                continue
            if p in kwargs:
                loc[p] = kwargs.pop(p)
            elif p in defaults:
                loc[p] = self._default(fn, defaults[p])
            else:
                raise PyRaise(builtin_exc('TypeError'), 'missing argument ' + p)
        for p, d in zip(a.kwonlyargs, a.kw_defaults):
            if p.arg in kwargs:
                loc[p.arg] = kwargs.pop(p.arg)
            elif d is not None:
                loc[p.arg] = self._default(fn, d)
            else:
                raise PyRaise(builtin_exc('TypeError'), 'missing kw argument ' + p.arg)
        if a.kwarg is not None:
            loc[a.kwarg.arg] = kwargs
        elif kwargs:
            raise PyRaise(builtin_exc('TypeError'), 'unexpected keyword %s' % list(kwargs))
        return loc

    def _default(self, fn, node):
        fr = fn.closure if fn.closure is not None else Frame(None, {}, fn.module)
        return self.eval(node, fr)

    def call_function(self, fn, args, kwargs, loop_contracts=None):
        node = fn.node
        loc = self.bind(fn, args, kwargs)
        fr = Frame(fn, loc, fn.module, parent=fn.closure)
        fr.loop_contracts = loop_contracts
        if isinstance(node, ast.Lambda):
            return self.eval(node.body, fr)
        fr.local_names = _assigned_names(node)
        if _has_yield(node):
            if fn.full != self.opts.get('verifying') and fn.full not in self.opts.get('eager_generators', ()):
                return self.lib.run_generator(fn, fr)
            # the generator under verification: run to completion, the result is the list of yielded values
            fr.locals['__yielded__'] = []
            self.depth += 1
            try:
                self.exec_block(node.body, fr)
            except ReturnSig:
                pass
            finally:
                self.depth -= 1
            return fr.locals['__yielded__']
        self.depth += 1
        if self.depth > 40:
            raise Unsupported('call depth')
        try:
            self.exec_block(node.body, fr)
        except ReturnSig as r:
            return r.value
        finally:
            self.depth -= 1
        return None

    def instantiate(self, cls, args, kwargs):
        if cls.exc is not None and cls.lookup('__init__') is None:
            return ExcInstance(cls.exc, tuple(args))
        o = Obj(cls)
        init = cls.lookup('__init__')
        if init is not None:
            self.call_repo(init, [o] + list(args), kwargs)
        elif args or kwargs:
            for b in cls.bases:
                if not isinstance(b, ClassV):
                    return self.lib.instantiate_foreign(cls, o, args, kwargs)
            raise PyRaise(builtin_exc('TypeError'), 'takes no arguments')
        return o


_UNBOUND = object()


def _assigned_names(fnode):
    names = set()

    class V(ast.NodeVisitor):
        def visit_FunctionDef(self, n):
            if n is fnode:
                self.generic_visit(n)
            else:
                names.add(n.name)

        def visit_Lambda(self, n):
            pass

        def visit_ClassDef(self, n):
            names.add(n.name)

        def visit_Name(self, n):
            if isinstance(n.ctx, (ast.Store, ast.Del)):
                names.add(n.id)

        def visit_ListComp(self, n):
            pass
        visit_SetComp = visit_DictComp = visit_GeneratorExp = visit_ListComp

        def visit_ExceptHandler(self, n):
            if n.name:
                names.add(n.name)
            self.generic_visit(n)
    V().visit(fnode)
    return names


def _has_yield(fnode):
    class V(ast.NodeVisitor):
        found = False

        def visit_FunctionDef(self, n):
            if n is fnode:
                self.generic_visit(n)

        def visit_Lambda(self, n):
            pass

        def visit_Yield(self, n):
            self.found = True

        def visit_YieldFrom(self, n):
            self.found = True
    v = V()
    v.visit(fnode)
    return v.found
