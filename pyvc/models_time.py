"""datetime model (DESIGN 5/C15): a datetime is an integer number of microseconds since
1970-01-01T00:00:00 plus a tz tag (None | 'UTC' | other); timedelta arithmetic is exact in
microseconds (CPython).  Float steps follow model E (core.FL)."""
import z3

from .core import (Opaque, PyRaise, Unsupported, builtin_exc, is_sym, rv, simp, sort_kind, sym_floor, to_real,
                   to_z3, LibRef)
from .lib import model, method, round_half_even, MODELS

US_PER_S = 1000000


def mk_dt(us, tz):
    return Opaque('datetime', us=us, tz=tz, is_datetime=True)


def mk_td(us):
    return Opaque('timedelta', us=us)


UTC = Opaque('tzinfo', tzname='UTC')


def _days_from_civil(y, m, d):
    y -= m <= 2
    era = (y if y >= 0 else y - 399) // 400
    yoe = y - era * 400
    doy = (153 * (m + (-3 if m > 2 else 9)) + 2) // 5 + d - 1
    doe = yoe * 365 + yoe // 4 - yoe // 100 + doy
    return era * 146097 + doe - 719468


CIVIL_DAY = z3.Function('civil_day_number', z3.IntSort(), z3.IntSort(), z3.IntSort(), z3.IntSort())


@model('datetime.datetime')
def _datetime(L, year, month=1, day=1, hour=0, minute=0, second=0, microsecond=0, tzinfo=None):
    args = [year, month, day, hour, minute, second, microsecond]
    if any(is_sym(a) for a in args):
        # symbolic civil fields: the day number is an uninterpreted function of (year, month, day); CPython rejects
        # out-of-range fields with ValueError
        y, mo, d, h, mi, sec, us_ = (to_z3(a) for a in args)
        if any(a.sort() != z3.IntSort() for a in (y, mo, d, h, mi, sec, us_)):
            raise PyRaise(builtin_exc('TypeError'), 'integer argument expected')
        leap = z3.And(y % 4 == 0, z3.Or(y % 100 != 0, y % 400 == 0))
        dim = z3.If(z3.Or(mo == 4, mo == 6, mo == 9, mo == 11), 30, z3.If(mo == 2, z3.If(leap, 29, 28), 31))
        ok = z3.And(y >= 1, y <= 9999, mo >= 1, mo <= 12, d >= 1, d <= dim, h >= 0, h <= 23, mi >= 0, mi <= 59,
                    sec >= 0, sec <= 59, us_ >= 0, us_ <= 999999)
        if L.ctx.branch(z3.Not(ok)):
            raise PyRaise(builtin_exc('ValueError'), 'datetime field out of range')
        us = ((CIVIL_DAY(y, mo, d) * 24 + h) * 60 + mi) * 60 * US_PER_S + sec * US_PER_S + us_
        return mk_dt(us, _tz(tzinfo))
    days = _days_from_civil(int(year), int(month), int(day))
    us = ((days * 24 + hour) * 60 + minute) * 60 * US_PER_S + second * US_PER_S + microsecond
    return mk_dt(us, _tz(tzinfo))


def _tz(tzinfo):
    if tzinfo is None:
        return None
    if isinstance(tzinfo, Opaque) and tzinfo.name == 'tzinfo':
        return tzinfo.tzname
    if isinstance(tzinfo, LibRef) and tzinfo.dotted == 'datetime.timezone.utc':
        return 'UTC'
    raise Unsupported('tzinfo %r' % (tzinfo,))


def lib_attr_hook(L, ref, name):
    return None


@method('datetime', 'replace')
def _dt_replace(L, dt, **kw):
    if set(kw) != {'tzinfo'}:
        raise Unsupported('datetime.replace(%s)' % sorted(kw))
    # replace() keeps the wall-clock fields: for a datetime carrying a non-UTC offset the instant changes by that offset
    if dt.tz not in (None, 'UTC'):
        wall = getattr(dt, 'wall_us', None)
        if wall is None:
            raise Unsupported('replace(tzinfo=..) on a datetime with an unknown offset')
        return mk_dt(wall, _tz(kw['tzinfo']))
    return mk_dt(dt.us, _tz(kw['tzinfo']))


@method('datetime', 'total_seconds')
def _dt_total_seconds(L, dt):
    raise PyRaise(builtin_exc('AttributeError'), "'datetime.datetime' object has no attribute 'total_seconds'")


@method('timedelta', 'total_seconds')
def _td_total_seconds(L, td):
    """CPython: (days*86400 + seconds)*10**6 + microseconds) / 10**6  - one correctly rounded division"""
    return L.I.S.fl_div(to_real(td.us), rv(1000000.0))


@model('datetime.timedelta')
def _timedelta(L, days=0, seconds=0, microseconds=0, milliseconds=0, minutes=0, hours=0, weeks=0):
    parts = [(days, 86400 * US_PER_S), (seconds, US_PER_S), (microseconds, 1), (milliseconds, 1000),
             (minutes, 60 * US_PER_S), (hours, 3600 * US_PER_S), (weeks, 7 * 86400 * US_PER_S)]
    total = 0
    for v, mul in parts:
        if isinstance(v, (int,)) and not isinstance(v, bool):
            total = total + v * mul if not is_sym(total) else total + v * mul
        elif is_sym(v) and sort_kind(v) == 'int':
            total = to_z3(total) + v * mul if not is_sym(total) else total + v * mul
        elif isinstance(v, float) or (is_sym(v) and sort_kind(v) == 'float'):
            # float component: CPython rounds half-even to microseconds
            x = to_real(v) * mul
            total = (to_z3(total) if not is_sym(total) else total) + round_half_even(L.ctx, x)
        else:
            raise Unsupported('timedelta component %r' % (v,))
    return mk_td(total)


def dt_binop(I, op, a, b):
    import ast
    def isdt(x): return isinstance(x, Opaque) and x.name == 'datetime'
    def istd(x): return isinstance(x, Opaque) and x.name == 'timedelta'
    if isinstance(op, ast.Sub) and isdt(a) and isdt(b):
        if (a.tz is None) != (b.tz is None):
            raise PyRaise(builtin_exc('TypeError'), "can't subtract offset-naive and offset-aware datetimes")
        return mk_td(simp(to_z3(a.us) - to_z3(b.us)))
    if isinstance(op, (ast.Add, ast.Sub)) and isdt(a) and istd(b):
        us = to_z3(a.us) + to_z3(b.us) if isinstance(op, ast.Add) else to_z3(a.us) - to_z3(b.us)
        return mk_dt(simp(us), a.tz)
    if isinstance(op, ast.Add) and istd(a) and isdt(b):
        return mk_dt(simp(to_z3(a.us) + to_z3(b.us)), b.tz)
    if istd(a) and istd(b):
        if isinstance(op, ast.Add):
            return mk_td(simp(to_z3(a.us) + to_z3(b.us)))
        if isinstance(op, ast.Sub):
            return mk_td(simp(to_z3(a.us) - to_z3(b.us)))
        if isinstance(op, ast.FloorDiv):
            return I.S.binop(op, a.us, b.us)
        if isinstance(op, ast.Div):
            return I.S.fl_div(to_real(a.us), to_real(b.us))
        if isinstance(op, ast.Mod):
            return mk_td(I.S.binop(op, a.us, b.us))
    if istd(a) and isinstance(op, ast.Mult) and (isinstance(b, int) or (is_sym(b) and sort_kind(b) == 'int')):
        return mk_td(simp(to_z3(a.us) * to_z3(b)))
    if istd(a) and isinstance(op, ast.FloorDiv) and (isinstance(b, int) or (is_sym(b) and sort_kind(b) == 'int')):
        return mk_td(I.S.binop(op, a.us, b))
    raise Unsupported('datetime arithmetic %s' % type(op).__name__)


def dt_compare(I, op, a, b):
    import ast
    if a.name == b.name and a.name in ('datetime', 'timedelta'):
        if a.name == 'datetime' and (a.tz is None) != (b.tz is None) and not isinstance(op, (ast.Eq, ast.NotEq)):
            raise PyRaise(builtin_exc('TypeError'), "can't compare offset-naive and offset-aware datetimes")
        return I.S.compare(op, a.us, b.us)
    raise Unsupported('compare datetime with other')


@model('datetime.datetime.fromtimestamp')
def _fromtimestamp(L, x, tz=None):
    """CPython (_PyTime_DoubleToDenominator + ROUND_HALF_EVEN): floatpart, intpart = modf(x) (exact);
    floatpart *= 1e6 (one rounded product); floatpart = round_half_even(floatpart); carry into intpart"""
    if tz is None:
        raise Unsupported('fromtimestamp in local time')
    tzn = _tz(tz)
    S = L.I.S
    xr = to_real(x)
    ctx = L.ctx
    # modf: intpart = trunc(x), floatpart = x - intpart (exact)
    fl = sym_floor(ctx, xr)
    nfl = sym_floor(ctx, -xr)
    ip = z3.If(xr >= 0, fl, -nfl)
    fp = xr - z3.ToReal(ip)
    prod = S.fl_round(fp * rv(1000000.0))
    r = round_half_even(ctx, prod)
    us = ip * US_PER_S + r
    return mk_dt(simp(us), tzn)


@model('builtins.str.tzinfo')
def _unused(L):
    return None


MODELS['datetime.timezone.utc'] = None


# ---------------------------------------------------------------- calendar (Gregorian rules, exact)
def _leap(y):
    y = to_z3(y)
    if z3.is_expr(y) and y.sort() != z3.IntSort():
        y = z3.ToInt(y)
    return z3.And(y % 4 == 0, z3.Or(y % 100 != 0, y % 400 == 0))


@model('calendar.isleap')
def _isleap(L, year):
    if isinstance(year, int):
        import calendar
        return calendar.isleap(year)
    return _leap(year)


@model('calendar.monthrange')
def _monthrange(L, year, month):
    """(weekday of the first day - not modelled, number of days of the month)"""
    if not isinstance(month, int):
        raise Unsupported('calendar.monthrange with a symbolic month')
    if not 1 <= month <= 12:
        raise PyRaise(builtin_exc('ValueError'), 'bad month number')
    days = [31, None, 31, 30, 31, 30, 31, 31, 30, 31, 30, 31][month - 1]
    if days is None:
        if isinstance(year, int):
            import calendar
            days = calendar.monthrange(year, 2)[1]
        else:
            days = z3.If(_leap(year), 29, 28)
    return (L.ctx.fresh_int('weekday'), days)


@model('datetime.datetime.strptime')
def _strptime(L, x, fmt):
    """strptime of a field of an abstract csv row (string layer, ASSUMED): the field denotes the instant
    CSV_INSTANT_US(row, col); with %z in the format the result is offset-aware, else naive.  Fields that do not
    match the format are outside the contracts that use this (precondition: well-formed records)."""
    from .models_io import CSV_INSTANT_US
    if isinstance(x, Opaque) and x.name == 'csvfield' and isinstance(fmt, str):
        if '%z' in fmt:
            from .models_io import CSV_UTC_OFFSET_US
            d = mk_dt(CSV_INSTANT_US(x.row, x.col), 'OFFSET')
            d.wall_us = CSV_INSTANT_US(x.row, x.col) + CSV_UTC_OFFSET_US(x.row, x.col)      # what the clock of that zone shows
            return d
        return mk_dt(CSV_INSTANT_US(x.row, x.col), None)
    raise Unsupported('strptime of %r' % type(x))


@method('datetime', 'timestamp')
def _dt_timestamp(L, d):
    """seconds since the epoch of an aware datetime (model R: the exact quotient)"""
    if d.tz is None:
        raise Unsupported('timestamp() of a naive datetime (local time)')
    return to_real(d.us) / rv(1000000.0)
