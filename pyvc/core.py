"""Symbolic executor over the Python AST of the repository sources.

Design (DESIGN.md 2.1-2.4):
  * one *path* = one execution of the function body from its entry; forks are
    explored by re-execution with a recorded decision prefix, so ordinary Python
    objects (lists, dicts, Obj) model the heap and aliasing faithfully;
  * symbolic scalars are z3 terms (Int = python int, Real = python float under
    the real model R, Bool); numpy arrays are `Arr` (shape + element closure);
  * every library call goes through an explicit model (pyvc.lib); a construct
    without a model raises Unsupported -> the function is *undecided*;
  * obligations are (name, path condition snapshot, goal); facts are
    definitional instances (floor, fresh quotients, ...) valid on every path.
"""
import ast
import builtins as _bi
import fractions
import hashlib
import os

import z3

REPO = os.environ.get('PYVC_REPO', '/repo')


class Unsupported(Exception):
    """Construct outside the modelled subset: function is undecided."""


class PyRaise(Exception):
    """A Python exception raised by the interpreted program."""

    def __init__(self, cls, msg=None):
        Exception.__init__(self, getattr(cls, 'name', str(cls)), msg)
        self.cls = cls
        self.msg = msg


class ReturnSig(Exception):
    def __init__(self, value):
        self.value = value


class BreakSig(Exception):
    pass


class ContinueSig(Exception):
    pass


class PathInfeasible(Exception):
    pass


class Abort(Exception):
    """Stop this path (used after an `assume False` like situation)."""


# --------------------------------------------------------------------------
# values
# --------------------------------------------------------------------------

def is_sym(v):
    return isinstance(v, z3.ExprRef)


def is_bool_sym(v):
    return isinstance(v, z3.BoolRef)


def sort_kind(v):
    if isinstance(v, bool) or is_bool_sym(v):
        return 'bool'
    if isinstance(v, int):
        return 'int'
    if isinstance(v, float):
        return 'float'
    if is_sym(v):
        s = v.sort()
        if s == z3.IntSort():
            return 'int'
        if s == z3.RealSort():
            return 'float'
        return 'other'
    return 'other'


def rv(x):
    """python number -> exact z3 numeral"""
    if isinstance(x, bool):
        return z3.BoolVal(x)
    if isinstance(x, int):
        return z3.IntVal(x)
    if isinstance(x, float):
        if x != x or x in (float('inf'), float('-inf')):
            raise Unsupported('non-finite float constant in symbolic arithmetic')
        fr = fractions.Fraction(x)
        return z3.RealVal(fr)
    if isinstance(x, fractions.Fraction):
        return z3.RealVal(x)
    raise Unsupported('cannot lift %r' % (x,))


def to_z3(v):
    if is_sym(v):
        return v
    if isinstance(v, (bool, int, float, fractions.Fraction)):
        return rv(v)
    raise Unsupported('not a scalar: %r' % (type(v),))


def to_real(v):
    v = to_z3(v)
    if v.sort() == z3.IntSort():
        return z3.ToReal(v)
    if v.sort() == z3.BoolSort():
        return z3.If(v, z3.RealVal(1), z3.RealVal(0))
    return v


def to_int_of_bool(v):
    v = to_z3(v)
    if v.sort() == z3.BoolSort():
        return z3.If(v, z3.IntVal(1), z3.IntVal(0))
    return v


def unify(a, b):
    """bring two scalars to a common numeric z3 sort"""
    a = to_int_of_bool(to_z3(a))
    b = to_int_of_bool(to_z3(b))
    if a.sort() == b.sort():
        return a, b
    return to_real(a), to_real(b)


def simp(e):
    if is_sym(e):
        e = z3.simplify(e)
        if z3.is_true(e):
            return True
        if z3.is_false(e):
            return False
        if z3.is_int_value(e):
            return e.as_long()
    return e


class ExcType:
    """Exception class value (builtin or repository-defined)."""

    def __init__(self, name, bases=()):
        self.name = name
        self.bases = tuple(bases)

    def mro_names(self):
        out = [self.name]
        for b in self.bases:
            for n in b.mro_names():
                if n not in out:
                    out.append(n)
        return out

    def __repr__(self):
        return 'ExcType(%s)' % self.name


_BUILTIN_EXC = {}


def builtin_exc(name):
    if name in _BUILTIN_EXC:
        return _BUILTIN_EXC[name]
    py = getattr(_bi, name)
    bases = [builtin_exc(b.__name__) for b in py.__bases__ if b is not object]
    e = ExcType(name, bases)
    _BUILTIN_EXC[name] = e
    return e


def exc_matches(raised, handler):
    if isinstance(handler, tuple):
        return any(exc_matches(raised, h) for h in handler)
    if not isinstance(handler, ExcType):
        raise Unsupported('except clause with non-class %r' % (handler,))
    return handler.name in raised.mro_names()


class ExcInstance:
    def __init__(self, cls, args):
        self.cls = cls
        self.args = args


class Arr:
    """numpy.ndarray: shape (ints / z3 Ints) and an element closure f(idx tuple).

    `f` always reads the *current* contents; copies snapshot the closure, views
    close over the base object.  dtype in {'int','float','bool','str','obj'} or
    a Struct (dict field -> dtype)."""
    _ids = 0

    def __init__(self, shape, f, dtype, label=None):
        self.shape = tuple(shape)
        self.f = f
        self.dtype = dtype
        Arr._ids += 1
        self.label = label or ('arr%d' % Arr._ids)
        self.fields = None     # structured arrays: name -> Arr (column views)
        self.ghost = {}        # ghost facts attached by models/contracts

    @property
    def ndim(self):
        return len(self.shape)

    @property
    def n(self):
        return self.shape[0]

    def get(self, *idx):
        return self.f(tuple(idx))

    def snapshot(self):
        f = self.f
        a = Arr(self.shape, f, self.dtype)
        if self.fields is not None:
            a.fields = {k: v.snapshot() for k, v in self.fields.items()}
        g = getattr(self, 'grid', None)
        if g is not None and getattr(self, '_grid_f', f) is f:
            # a copy of an equally spaced grid is that grid - as long as nobody writes into the copy: the description is tied to
            # the element closure it was made for (contracts use `valid_grid`)
            a.grid = g
            a._grid_f = f
        return a

    def size(self):
        s = 1
        for d in self.shape:
            s = s * d
        return s

    def __repr__(self):
        return 'Arr(%s,%s,%s)' % (self.label, self.shape, self.dtype)


def valid_grid(a):
    """the (a0, h, n) description of an equally spaced array, if it has one that still describes its current elements"""
    g = getattr(a, 'grid', None)
    if g is None or getattr(a, '_grid_f', a.f) is not a.f:
        return None
    return g


class SymList:
    """python list of symbolic length: n (z3 Int) and element function f(index term); append extends it"""

    def __init__(self, n, f, label='list'):
        self.n = n
        self.f = f
        self.label = label

    def append(self, v):
        n0, f0 = self.n, self.f
        self.n = simp(to_z3(n0) + 1)
        self.f = lambda i: _pick_or(to_z3(i) == to_z3(n0), v, f0, i)
        # for invariants over lists of objects that cannot be merged by if-then-else: the last append, as (old length, value, old f)
        self.last_append = (n0, v, f0)


class MaybeNan:
    """a float that may be NaN: flag `isnan` (z3 Bool) and the value `val` (z3 Real) that holds when it is not.
    Model R has no NaN among the reals; the few places where the library produces and tests for NaN on purpose
    (undefined statistics) carry it this way.  Arithmetic on a MaybeNan is not supported."""

    def __init__(self, isnan, val):
        self.isnan = isnan
        self.val = val

    @staticmethod
    def of(v):
        if isinstance(v, MaybeNan):
            return v
        if isinstance(v, Opaque) and getattr(v, 'is_nan', False):
            return MaybeNan(z3.BoolVal(True), z3.RealVal(0))
        if is_sym(v) or isinstance(v, (int, float)):
            return MaybeNan(z3.BoolVal(False), to_real(v))
        raise Unsupported('not a float: %r' % type(v))


def _pick_or(cond, v, f0, i):
    c = simp(cond)
    if c is True:
        return v
    if c is False:
        return f0(i)
    old = f0(i)
    if isinstance(v, tuple) and isinstance(old, tuple) and len(v) == len(old):
        # list of records (tuples of equal length): component-wise
        return tuple(_pick_or(c, a, (lambda _i, b=b: b), i) for a, b in zip(v, old))
    if isinstance(v, Opaque) and isinstance(old, Opaque) and v.name == old.name == 'datetime' and getattr(v, 'tz', None) == getattr(old, 'tz', None):
        return Opaque('datetime', us=z3.If(c, to_z3(v.us), to_z3(old.us)), tz=v.tz, is_datetime=True)
    if any(isinstance(x, MaybeNan) or (isinstance(x, Opaque) and getattr(x, 'is_nan', False)) for x in (v, old)):
        a, b = MaybeNan.of(v), MaybeNan.of(old)
        return MaybeNan(z3.If(c, a.isnan, b.isnan), z3.If(c, a.val, b.val))
    if is_sym(v) or isinstance(v, (int, float, bool)):
        return ite(c, v, old)
    if isinstance(v, Opaque) and isinstance(old, Opaque) and v.name == old.name and hasattr(v, 'key') and hasattr(old, 'key'):
        # abstract values identified by a key term
        return Opaque(v.name, key=z3.If(c, v.key, old.key))
    # object-valued lists: the caller must ask for a definite position
    raise Unsupported('symbolic position in an object-valued list after append')


class Obj:
    """Instance of a repository class (or abstract record)."""

    def __init__(self, cls, fields=None):
        self.cls = cls
        self.fields = dict(fields or {})
        self.written = set()

    def __repr__(self):
        return 'Obj(%s)' % (getattr(self.cls, 'name', self.cls),)


class Func:
    def __init__(self, module, qualname, node, closure=None, cls=None):
        self.module = module
        self.qualname = qualname
        self.node = node
        self.closure = closure
        self.cls = cls

    @property
    def full(self):
        return self.module.name + '.' + self.qualname

    def __repr__(self):
        return 'Func(%s)' % self.full


class ClassV:
    def __init__(self, module, name, node):
        self.module = module
        self.name = name
        self.node = node
        self.methods = {}
        self.attrs = {}
        self.bases = []
        self.exc = None

    def lookup(self, name):
        for c in self.mro():
            if name in c.methods:
                return c.methods[name]
        return None

    def mro(self):
        out = [self]
        for b in self.bases:
            if isinstance(b, ClassV):
                for c in b.mro():
                    if c not in out:
                        out.append(c)
        return out

    def __repr__(self):
        return 'ClassV(%s)' % self.name


class BoundMethod:
    def __init__(self, func, selfv):
        self.func = func
        self.selfv = selfv


class LibRef:
    """Reference into an external library by dotted name (numpy.floor ...)."""

    def __init__(self, dotted):
        self.dotted = dotted

    def __repr__(self):
        return 'LibRef(%s)' % self.dotted


class LibMethod:
    def __init__(self, recv, name):
        self.recv = recv
        self.name = name


class Lam:
    """meta-level callable usable from interpreted code"""

    def __init__(self, fn, name='<lam>'):
        self.fn = fn
        self.name = name


class Opaque:
    """Value the engine carries but cannot look into."""

    def __init__(self, name, **kw):
        self.name = name
        self.__dict__.update(kw)

    def __repr__(self):
        return 'Opaque(%s)' % self.name


NoneType = type(None)

# --------------------------------------------------------------------------
# repository front end
# --------------------------------------------------------------------------


class ModuleEnv:
    def __init__(self, repo, name, path):
        self.repo = repo
        self.name = name
        self.path = path
        with open(path, 'rb') as fh:
            self.src = fh.read()
        self.tree = ast.parse(self.src, filename=path)
        self.globals = {}
        self.lazy = {}
        self._scan()

    def _scan(self):
        for st in self.tree.body:
            self._scan_stmt(st)

    def _scan_stmt(self, st):
        if isinstance(st, ast.Import):
            for al in st.names:
                top = al.name.split('.')[0]
                if al.asname:
                    self.globals[al.asname] = self._modref(al.name)
                else:
                    self.globals[top] = self._modref(top)
        elif isinstance(st, ast.ImportFrom):
            mod = st.module or ''
            if st.level:
                base = self.name.split('.')
                base = base[:len(base) - st.level]
                mod = '.'.join(base + ([mod] if mod else []))
            for al in st.names:
                nm = al.asname or al.name
                if mod.split('.')[0] == 'csep':
                    self.lazy[nm] = ('from', mod, al.name)
                else:
                    self.globals[nm] = LibRef(mod + '.' + al.name)
        elif isinstance(st, ast.FunctionDef):
            self.globals[st.name] = Func(self, st.name, st)
        elif isinstance(st, ast.ClassDef):
            self.lazy[st.name] = ('class', st)
        elif isinstance(st, ast.Assign):
            for t in st.targets:
                if isinstance(t, ast.Name):
                    self.lazy[t.id] = ('assign', st.value)
        elif isinstance(st, ast.If) or isinstance(st, ast.Try):
            # conditional imports etc: scan all branches optimistically
            for sub in ast.iter_child_nodes(st):
                if isinstance(sub, ast.stmt):
                    self._scan_stmt(sub)
                elif isinstance(sub, ast.ExceptHandler):
                    for s2 in sub.body:
                        self._scan_stmt(s2)

    def _modref(self, dotted):
        if dotted.split('.')[0] == 'csep':
            return RepoModRef(self.repo, dotted)
        return LibRef(dotted)

    def has(self, name):
        return name in self.globals or name in self.lazy

    def get(self, name, interp):
        if name in self.globals:
            return self.globals[name]
        if name in self.lazy:
            kind = self.lazy[name]
            if kind[0] == 'from':
                _, mod, nm = kind
                # `from csep.utils import flat_map_to_ndarray` or a submodule
                sub = self.repo.find_module(mod + '.' + nm)
                if sub is not None:
                    v = RepoModRef(self.repo, mod + '.' + nm)
                else:
                    m = self.repo.module(mod)
                    v = m.get(nm, interp)
            elif kind[0] == 'class':
                v = self._make_class(kind[1], interp)
            else:
                v = interp.eval_in_module(self, kind[1])
            self.globals[name] = v
            return v
        raise KeyError(name)

    def _make_class(self, node, interp):
        c = ClassV(self, node.name, node)
        self.globals[node.name] = c   # allow self reference
        for b in node.bases:
            try:
                bv = interp.eval_in_module(self, b)
            except (Unsupported, PyRaise):
                bv = Opaque('base')
            c.bases.append(bv)
        for st in node.body:
            if isinstance(st, ast.FunctionDef):
                f = Func(self, node.name + '.' + st.name, st, cls=c)
                f.decorators = [ast.unparse(d) for d in st.decorator_list]
                prev = c.methods.get(st.name)
                if prev is not None and any(d.endswith('.setter') for d in f.decorators):
                    prev.setter = f
                    continue
                c.methods[st.name] = f
            elif isinstance(st, ast.Assign):
                for t in st.targets:
                    if isinstance(t, ast.Name):
                        c.attrs[t.id] = ('expr', st.value)
        # exception classes
        ebases = []
        for b in c.bases:
            if isinstance(b, ExcType):
                ebases.append(b)
            elif isinstance(b, ClassV) and b.exc is not None:
                ebases.append(b.exc)
        if ebases:
            c.exc = ExcType(node.name, ebases)
        return c


class RepoModRef:
    def __init__(self, repo, dotted):
        self.repo = repo
        self.dotted = dotted


class Repo:
    def __init__(self, root=None):
        self.root = root or REPO
        self.modules = {}

    def find_module(self, dotted):
        p = os.path.join(self.root, *dotted.split('.'))
        if os.path.isfile(p + '.py'):
            return p + '.py'
        if os.path.isfile(os.path.join(p, '__init__.py')):
            return os.path.join(p, '__init__.py')
        return None

    def module(self, dotted):
        if dotted not in self.modules:
            p = self.find_module(dotted)
            if p is None:
                raise Unsupported('repository module not found: ' + dotted)
            self.modules[dotted] = ModuleEnv(self, dotted, p)
        return self.modules[dotted]

    def locate(self, qualname, interp):
        """'csep.utils.stats.ecdf' / 'csep.core.catalogs.AbstractBaseCatalog.filter'
        -> Func"""
        parts = qualname.split('.')
        for k in range(len(parts) - 1, 0, -1):
            mod = '.'.join(parts[:k])
            if self.find_module(mod):
                m = self.module(mod)
                rest = parts[k:]
                try:
                    v = m.get(rest[0], interp)
                except KeyError:
                    raise Unsupported('function not found: ' + qualname)
                for r in rest[1:]:
                    if isinstance(v, ClassV):
                        f = v.lookup(r)
                        if f is None:
                            raise Unsupported('function not found: ' + qualname)
                        v = f
                    else:
                        raise Unsupported('function not found: ' + qualname)
                return v
        raise Unsupported('function not found: ' + qualname)

    def locate_class(self, qualname, interp):
        mod, name = qualname.rsplit('.', 1)
        v = self.module(mod).get(name, interp)
        if not isinstance(v, ClassV):
            raise Unsupported('not a class: ' + qualname)
        return v

    def source_info(self, func):
        node = func.node
        seg = ast.get_source_segment(func.module.src.decode('utf8'), node) or ''
        return {
            'qualname': func.full,
            'file': os.path.relpath(func.module.path, self.root),
            'lines': [node.lineno, node.end_lineno],
            'sha256': hashlib.sha256(seg.encode('utf8')).hexdigest(),
        }


# --------------------------------------------------------------------------
# path context
# --------------------------------------------------------------------------

class Obligation:
    def __init__(self, name, pc, goal, kind='post', where=None):
        self.name = name
        self.pc = list(pc)
        self.goal = goal
        self.kind = kind
        self.where = where
        self.facts = None   # filled at end of path
        self.lemma_ids = set()
        self.hints = []
        self.proved = None
        self.path = None


class PathCtx:
    """State of one path: decisions, path condition, facts, obligations."""

    def __init__(self, prefix, worklist, opts=None):
        self.prefix = list(prefix)
        self.decisions = []
        self.worklist = worklist
        self.pc = []
        self.facts = []
        self.obligations = []
        self.counter = {}
        self.opts = opts or {}
        self.solver = z3.Solver()
        self.solver.set('timeout', int(self.opts.get('branch_timeout_ms', 1000)))
        # a deterministic resource limit as well: some z3 procedures (array-theory internalisation of large lambda terms) do not
        # look at the wall-clock timeout and were seen to run for an hour; `unknown` counts as feasible
        self.solver.set('rlimit', int(self.opts.get('branch_rlimit', 4000000)))
        # the runaway queries seen (one seeded tree: an hour and 34 GB; one run of C10 in a fresh sandbox: 12 GB) sit in the array
        # theory's extensionality reasoning over lambda terms, where neither limit is looked at.  Feasibility does not need it: without
        # extensionality the solver proves less `unsat`, i.e. fewer paths are pruned - the sound direction.
        self.solver.set('array.extensional', False)
        self.dropped = []
        self.trace = []
        self.ghost = {}
        self.nfacts_pushed = 0
        self.lemma_ids = set()

    def fresh(self, base, sort):
        k = self.counter.get(base, 0)
        self.counter[base] = k + 1
        return z3.Const('%s!%d' % (base, k), sort)

    def fresh_int(self, base='k'):
        return self.fresh(base, z3.IntSort())

    def fresh_real(self, base='x'):
        return self.fresh(base, z3.RealSort())

    def fresh_bool(self, base='b'):
        return self.fresh(base, z3.BoolSort())

    def fresh_fun(self, base, *sorts):
        k = self.counter.get(base, 0)
        self.counter[base] = k + 1
        return z3.Function('%s!%d' % (base, k), *sorts)

    def fact(self, f, lemma=False):
        """definitional fact (always valid).  lemma=True marks consequences of the
        spec functions' definitions (instances of the lemma library): they are
        dropped when the spec functions are expanded for counterexample search"""
        if f is True:
            return
        f = to_z3(f)
        self.facts.append(f)
        if lemma:
            self.lemma_ids.add(f.get_id())

    def assume(self, f):
        f = simp(f)
        if f is True:
            return
        if f is False:
            raise PathInfeasible()
        self.pc.append(to_z3(f))
        self.solver.add(to_z3(f))

    def _sync_facts(self):
        while self.nfacts_pushed < len(self.facts):
            self.solver.add(self.facts[self.nfacts_pushed])
            self.nfacts_pushed += 1

    def feasible(self, cond):
        self._sync_facts()
        self.solver.push()
        try:
            self.solver.add(cond)
            r = self.solver.check()
        except z3.Z3Exception:
            r = z3.unknown        # e.g. the memory cap of the in-process solver: undecided, hence feasible
        finally:
            self.solver.pop()
        return r != z3.unsat

    def branch(self, cond):
        """Decide a symbolic condition; returns python bool and extends pc."""
        cond = simp(cond)
        if cond is True or cond is False:
            return cond
        if not is_bool_sym(cond):
            raise Unsupported('branch on non-boolean')
        k = len(self.decisions)
        if k < len(self.prefix):
            d = self.prefix[k]
        else:
            ft = self.feasible(cond)
            ff = self.feasible(z3.Not(cond))
            if ft and ff:
                self.worklist.append(self.decisions + [False])
                d = True
            elif ft:
                d = True
            elif ff:
                d = False
            else:
                raise PathInfeasible()
        self.decisions.append(d)
        c = cond if d else z3.Not(cond)
        # an existential decided true (a universal decided false) is skolemised, and the witness
        # is recorded so that contracts can speak about "the element that triggered this branch"
        q = cond
        if z3.is_quantifier(q) and ((d and q.is_exists()) or (not d and q.is_forall())):
            ws = [self.fresh('w!' + q.var_name(k), q.var_sort(k)) for k in range(q.num_vars())]
            body = z3.substitute_vars(q.body(), *reversed(ws))
            c = body if d else z3.Not(body)
            self.ghost.setdefault('witnesses', []).append(ws)
        self.pc.append(c)
        self.solver.add(c)
        return d

    def oblige_seq(self, items, prefix, kind='post'):
        """a sequence of (name, goal[, conclusion]) items; names starting with 'hint:' are proof steps that
        later items of the same sequence may use once discharged"""
        hints = []
        out = []
        for item in items:
            nm, g = item[0], item[1]
            if nm.startswith('hint:'):
                o = self.oblige('%s.%s' % (prefix, nm), g, kind='hint')
                o.hints = list(hints)
                o.conclusion = item[2] if len(item) > 2 else None
                hints.append(o)
            else:
                o = self.oblige('%s.%s' % (prefix, nm), g, kind=kind)
                o.hints = list(hints)
            out.append(o)
        return out

    def oblige(self, name, goal, kind='post', where=None):
        goal = simp(goal)
        if goal is True:
            goal = z3.BoolVal(True)
        if goal is False:
            goal = z3.BoolVal(False)
        o = Obligation(name, self.pc, goal, kind, where)
        self.obligations.append(o)
        return o


# --------------------------------------------------------------------------
# scalar operations
# --------------------------------------------------------------------------

FLOOR = z3.Function('floor', z3.RealSort(), z3.IntSort())


def sym_floor(ctx, x):
    """floor of a real as an integer (fresh-int encoding, DESIGN 2.5)"""
    if isinstance(x, (int, bool)):
        return int(x)
    if isinstance(x, float):
        import math
        return math.floor(x)
    x = to_z3(x)
    if x.sort() == z3.IntSort():
        return x
    k = FLOOR(x)
    ctx.fact(z3.And(z3.ToReal(k) <= x, x < z3.ToReal(k) + 1))
    return k


def py_floordiv_int(ctx, a, b):
    a, b = to_z3(a), to_z3(b)
    q = a / b          # z3: euclidean
    r = a % b
    return z3.If(b > 0, q, z3.If(r == 0, q, q - 1))


def py_mod_int(ctx, a, b):
    a, b = to_z3(a), to_z3(b)
    r = a % b          # 0 <= r < |b|
    return z3.If(b > 0, r, z3.If(r == 0, r, r + b))


def ite(c, a, b):
    c = simp(c)
    if c is True:
        return a
    if c is False:
        return b
    if a is b:
        return a
    if isinstance(a, (int, float, bool)) and isinstance(b, (int, float, bool)) and a == b \
            and type(a) == type(b):
        return a
    if is_bool_sym(a) or isinstance(a, bool):
        if is_bool_sym(b) or isinstance(b, bool):
            return z3.If(c, to_z3(a), to_z3(b))
    ua, ub = unify(a, b)
    return z3.If(c, ua, ub)


class Scalars:
    """Python scalar semantics on mixed concrete / z3 operands."""

    def __init__(self, interp):
        self.I = interp

    @property
    def ctx(self):
        return self.I.ctx

    def truth(self, v):
        """truthiness as python bool or z3 Bool"""
        if isinstance(v, bool):
            return v
        if v is None:
            return False
        if isinstance(v, (int, float, str, tuple, list, dict, set)):
            return bool(v)
        if is_bool_sym(v):
            return v
        if is_sym(v):
            return v != 0
        if isinstance(v, Arr):
            if v.ndim == 0:
                return self.truth(v.f(()))
            sz = simp(v.size())
            if isinstance(sz, int) and sz == 1:
                return self.truth(v.f(tuple(0 for _ in v.shape)))
            raise Unsupported('truth value of an array')
        if isinstance(v, SymList):
            return to_z3(v.n) != 0
        if isinstance(v, (Obj, Func, ClassV, LibRef, BoundMethod, Lam, ExcType, Opaque)):
            if isinstance(v, Opaque) and hasattr(v, 'truth'):
                return v.truth
            if isinstance(v, Opaque) and hasattr(v, 'len'):
                n = v.len(self.I)
                return (n != 0) if not is_sym(n) else (to_z3(n) != 0)
            return True
        raise Unsupported('truthiness of %r' % (type(v),))

    def binop(self, op, a, b):
        if isinstance(a, Arr) or isinstance(b, Arr):
            return self.I.lib.arr_binop(op, a, b)
        if not is_sym(a) and not is_sym(b):
            return self._concrete_binop(op, a, b)
        ka, kb = sort_kind(a), sort_kind(b)
        if ka == 'other' or kb == 'other':
            raise Unsupported('binop %s on %r,%r' % (op, type(a), type(b)))
        if isinstance(op, (ast.BitAnd, ast.BitOr, ast.BitXor)) and ka == 'bool' and kb == 'bool':
            za, zb = to_z3(a), to_z3(b)
            return {ast.BitAnd: z3.And, ast.BitOr: z3.Or, ast.BitXor: z3.Xor}[type(op)](za, zb)
        za, zb = unify(a, b)
        isint = za.sort() == z3.IntSort()
        rnd = (lambda t: t) if isint else self.fl_round
        if isinstance(op, ast.Add):
            return rnd(za + zb)
        if isinstance(op, ast.Sub):
            return rnd(za - zb)
        if isinstance(op, ast.Mult):
            return rnd(za * zb)
        if isinstance(op, ast.Div):
            # integer divisor: python semantics (ZeroDivisionError).  float divisor: treated as a
            # numpy float64 (inf/nan + warning, no exception; quotient by 0 unspecified under R)
            if to_z3(b).sort() == z3.IntSort() or isinstance(b, int):
                z = simp(zb == 0)
                if z is True or (z is not False and self.ctx.branch(zb == 0)):
                    raise PyRaise(builtin_exc('ZeroDivisionError'), 'division by zero')
            return self.fl_round(to_real(za) / to_real(zb))
        if isinstance(op, ast.FloorDiv):
            z = simp(zb == 0)
            if z is True or (z is not False and self.ctx.branch(zb == 0)):
                raise PyRaise(builtin_exc('ZeroDivisionError'), 'division by zero')
            if isint:
                return py_floordiv_int(self.ctx, za, zb)
            return z3.ToReal(sym_floor(self.ctx, za / zb))
        if isinstance(op, ast.Mod):
            z = simp(zb == 0)
            if z is True or (z is not False and self.ctx.branch(zb == 0)):
                raise PyRaise(builtin_exc('ZeroDivisionError'), 'modulo by zero')
            if isint:
                return py_mod_int(self.ctx, za, zb)
            return za - zb * z3.ToReal(sym_floor(self.ctx, za / zb))
        if isinstance(op, ast.Pow):
            return self.power(a, b)
        raise Unsupported('binop %s' % type(op).__name__)

    def power(self, a, b):
        if isinstance(b, (int, float)) and not isinstance(b, bool) and float(b).is_integer() and 0 <= b <= 8:
            b = int(b)
            if b == 0:
                return 1 if sort_kind(a) == 'int' else 1.0
            r = to_z3(a)
            for _ in range(b - 1):
                r = r * to_z3(a)
            if isinstance(b, float) or sort_kind(a) == 'float':
                return to_real(r)
            return r
        if not is_sym(a) and not is_sym(b):
            return a ** b
        return POW(to_real(a), to_real(b))

    def _concrete_binop(self, op, a, b):
        try:
            if isinstance(op, ast.Add):
                return a + b
            if isinstance(op, ast.Sub):
                return a - b
            if isinstance(op, ast.Mult):
                return a * b
            if isinstance(op, ast.Div):
                return a / b
            if isinstance(op, ast.FloorDiv):
                return a // b
            if isinstance(op, ast.Mod):
                return a % b
            if isinstance(op, ast.Pow):
                return a ** b
            if isinstance(op, ast.BitAnd):
                return a & b
            if isinstance(op, ast.BitOr):
                return a | b
            if isinstance(op, ast.BitXor):
                return a ^ b
            if isinstance(op, ast.LShift):
                return a << b
            if isinstance(op, ast.RShift):
                return a >> b
        except ZeroDivisionError as e:
            raise PyRaise(builtin_exc('ZeroDivisionError'), str(e))
        except TypeError as e:
            if isinstance(a, (Obj, Opaque)) or isinstance(b, (Obj, Opaque)):
                raise Unsupported('binop on objects')
            raise PyRaise(builtin_exc('TypeError'), str(e))
        raise Unsupported('binop %s' % type(op).__name__)

    def compare(self, op, a, b):
        if isinstance(a, SymList) and not isinstance(b, (SymList, list)):
            a = self.I.lib.as_arr(a)      # list <op> numpy scalar: numpy converts the list
        if isinstance(a, Arr) or isinstance(b, Arr):
            if isinstance(op, (ast.Is, ast.IsNot)):
                r = a is b
                return r if isinstance(op, ast.Is) else not r
            return self.I.lib.arr_compare(op, a, b)
        if isinstance(op, ast.Is):
            return self._is(a, b)
        if isinstance(op, ast.IsNot):
            r = self._is(a, b)
            return (not r) if isinstance(r, bool) else z3.Not(r)
        if isinstance(op, (ast.In, ast.NotIn)):
            r = self._contains(b, a)
            if isinstance(op, ast.NotIn):
                r = (not r) if isinstance(r, bool) else z3.Not(r)
            return r
        if isinstance(a, Opaque) and isinstance(b, Opaque) and a.name in ('datetime', 'timedelta'):
            from . import models_time
            return models_time.dt_compare(self.I, op, a, b)
        if isinstance(op, (ast.Eq, ast.NotEq)) and any(isinstance(x, Opaque) and hasattr(x, 'eq_value') for x in (a, b)):
            # abstract value with its own notion of equality against concrete values (e.g. a field of a csv row against '')
            o, other = (a, b) if (isinstance(a, Opaque) and hasattr(a, 'eq_value')) else (b, a)
            r = o.eq_value(self.I, other)
            if isinstance(op, ast.Eq):
                return r
            return (not r) if isinstance(r, bool) else z3.Not(r)
        if any(isinstance(x, Opaque) and x.name == 'inf' for x in (a, b)):
            # model R: every real is finite and NaN equals nothing - a float value is never equal to +-inf
            other = b if (isinstance(a, Opaque) and a.name == 'inf') else a
            if isinstance(a, Opaque) and isinstance(b, Opaque) and a.name == b.name == 'inf':
                same = a.sign == b.sign
                if isinstance(op, ast.Eq):
                    return same
                if isinstance(op, ast.NotEq):
                    return not same
            if is_sym(other) or isinstance(other, (int, float, MaybeNan)) or (isinstance(other, Opaque) and getattr(other, 'is_nan', False)):
                if isinstance(op, ast.Eq):
                    return False
                if isinstance(op, ast.NotEq):
                    return True
            raise Unsupported('ordering against infinity')
        if not is_sym(a) and not is_sym(b):
            return self._concrete_compare(op, a, b)
        if a is None or b is None:
            if isinstance(op, ast.Eq):
                return False
            if isinstance(op, ast.NotEq):
                return True
            raise PyRaise(builtin_exc('TypeError'), 'comparison with None')
        if sort_kind(a) == 'other' or sort_kind(b) == 'other':
            if isinstance(a, str) or isinstance(b, str):
                if isinstance(op, ast.Eq):
                    return False
                if isinstance(op, ast.NotEq):
                    return True
            raise Unsupported('compare %r %r' % (type(a), type(b)))
        if is_bool_sym(a) and (is_bool_sym(b) or isinstance(b, bool)) and isinstance(op, (ast.Eq, ast.NotEq)):
            r = to_z3(a) == to_z3(b)
            return r if isinstance(op, ast.Eq) else z3.Not(r)
        za, zb = unify(a, b)
        return {ast.Lt: lambda: za < zb, ast.LtE: lambda: za <= zb, ast.Gt: lambda: za > zb,
                ast.GtE: lambda: za >= zb, ast.Eq: lambda: za == zb,
                ast.NotEq: lambda: za != zb}[type(op)]()

    def _is(self, a, b):
        if a is None or b is None:
            if is_sym(a) or is_sym(b):
                return False
            return a is b
        if isinstance(a, bool) and isinstance(b, bool):
            return a is b
        if is_sym(a) or is_sym(b):
            raise Unsupported('`is` on symbolic scalars')
        return a is b

    def _contains(self, container, item):
        if isinstance(container, str):
            if isinstance(item, str):
                return item in container
            raise Unsupported('symbolic `in` str')
        if isinstance(container, (tuple, list, set, frozenset)):
            acc = False
            for el in container:
                e = self.compare(ast.Eq(), item, el)
                e = simp(e)
                if e is True:
                    return True
                if e is False:
                    continue
                acc = e if acc is False else z3.Or(acc, e)
            return acc
        if isinstance(container, dict):
            if is_sym(item):
                raise Unsupported('symbolic key lookup')
            return item in container
        raise Unsupported('`in` on %r' % type(container))

    def _concrete_compare(self, op, a, b):
        try:
            if isinstance(op, ast.Eq):
                if isinstance(a, (Obj, Opaque)) or isinstance(b, (Obj, Opaque)):
                    if a is b:
                        return True
                    raise Unsupported('== on objects')
                return a == b
            if isinstance(op, ast.NotEq):
                if isinstance(a, (Obj, Opaque)) or isinstance(b, (Obj, Opaque)):
                    if a is b:
                        return False
                    raise Unsupported('!= on objects')
                return a != b
            if isinstance(op, ast.Lt):
                return a < b
            if isinstance(op, ast.LtE):
                return a <= b
            if isinstance(op, ast.Gt):
                return a > b
            if isinstance(op, ast.GtE):
                return a >= b
        except TypeError as e:
            if isinstance(a, (Obj, Opaque)) or isinstance(b, (Obj, Opaque)):
                raise Unsupported('ordering on objects')
            raise PyRaise(builtin_exc('TypeError'), str(e))
        raise Unsupported('compare op')

    def fl_round(self, t):
        """one IEEE rounding of the exact real t (model E); identity under model R"""
        if self.I.opts.get('float_model') != 'E':
            return t
        t = to_real(t)
        for f in fl_facts(t):
            self.ctx.fact(f)
        return FL(t)

    def fl_div(self, a, b):
        return self.fl_round(to_real(a) / to_real(b))

    def neg(self, v):
        if isinstance(v, Arr):
            return self.I.lib.arr_unop('neg', v)
        if isinstance(v, Opaque) and v.name == 'inf':
            return Opaque('inf', sign=-v.sign)
        if is_sym(v):
            return -to_int_of_bool(v)
        return -v

    def not_(self, v):
        t = self.truth(v)
        if isinstance(t, bool):
            return not t
        return z3.Not(t)


POW = z3.Function('pow', z3.RealSort(), z3.RealSort(), z3.RealSort())
FL = z3.Function('fl', z3.RealSort(), z3.RealSort())   # IEEE-754 binary64 round-to-nearest (model E)
U53 = z3.RealVal(fractions.Fraction(1, 2 ** 53))


def fl_facts(t):
    """axioms of model E for one rounding fl(t) (finite, no overflow / underflow)"""
    f = FL(t)
    at = z3.If(t >= 0, t, -t)
    facts = [z3.If(f - t >= 0, f - t, t - f) <= U53 * at,
             z3.Implies(z3.And(z3.IsInt(t), at <= z3.RealVal(2 ** 53)), f == t),
             z3.Implies(t >= 0, f >= 0), z3.Implies(t <= 0, f <= 0),
             # monotonicity against the representable constants 1 and -1
             z3.Implies(t <= 1, f <= 1), z3.Implies(t >= 1, f >= 1), z3.Implies(t >= -1, f >= -1), z3.Implies(t <= -1, f <= -1)]
    # half-ulp bounds per binade (only the binades the contracts need)
    for e in (33, 31, 11, 1, 0):
        facts.append(z3.Implies(at < z3.RealVal(2 ** e), z3.If(f - t >= 0, f - t, t - f) <= z3.RealVal(fractions.Fraction(2 ** e, 2 ** 54))))
    return facts

