import os
ID = 'C03'
LEVEL = 'proof'
CONTRACT_MODULES = ['contracts.calc', 'contracts.regions', 'contracts.catalogs', 'contracts.quadtree']
CONE = [
    'csep.utils.calc.bin1d_vec',
    'csep.core.regions.CartesianGrid2D.get_index_of',
    'csep.core.catalogs.AbstractBaseCatalog.spatial_counts',
    'csep.core.catalogs.AbstractBaseCatalog.spatial_event_probability',
    'csep.core.catalogs.AbstractBaseCatalog.magnitude_counts',
    'csep.core.catalogs.AbstractBaseCatalog.spatial_magnitude_counts',
    'csep.core.catalogs.AbstractBaseCatalog.get_mag_idx', 'csep.core.catalogs.AbstractBaseCatalog.get_spatial_idx',
    'csep.core.regions.QuadtreeGrid2D.get_index_of',
]
ORACLE_MODULES = ['rt.oracles_grid']
BOUNDED = os.path.exists(os.path.join(os.path.dirname(__file__), '..', 'rt', 'bounded_C03.py'))
FLOAT_MODEL = 'R for coordinates and magnitudes; counts are integers (exact)'
TRUSTED = [
    'numpy.add.at(a, I, v): a[j] += v * #{t : wrap(I[t]) = j}, IndexError if an index is out of range; fancy assignment without accumulation; '
    'boolean-mask selection (order preserving)',
    'lemma library: L0 (count unfolding), L1 (fibre sum: sum after add.at), L4 (count/sum congruence, re-indexing over a mask selection)',
    'representation invariant RI of CartesianGrid2D is a precondition here (established by the constructor: see C01)',
    'pyvc engine, z3 5.1',
]
ASSUMPTIONS = [
    'the region satisfies RI with at least two rows and two columns (single row/column lattices: finding D16)',
    'quadtree regions: QuadtreeGrid2D.get_index_of over arrays of points inside the grid and spatial_counts over that lookup contract are proved; points outside a quadtree grid (open known finding), region-bound magnitude grids and the other methods on quadtree regions: bounded stand-in only',
    'floats as reals',
]
EXPLANATION = ('counts[i] / counts[i,k] / counts[k] equal the number of events the region attributes to cell i and bin1d_vec bins to k (loop '
               'invariant for the space-magnitude loop); total = number of events; events binned to -1 are in no magnitude bin; occupancy is 1 '
               'exactly where an event is attributed; lookup errors propagate')
TECHNIQUE = ('contracts on the real methods, modular use of the bin1d_vec / get_index_of contracts, loop invariant, counting lemmas; z3; '
             'bounded small-scope run-time contracts as labelled stand-in')
LEVEL_TEXT = ('proof: every path of the four gridding methods is executed symbolically for catalogs of arbitrary length on an abstract region '
              'satisfying RI; postconditions are counting identities discharged by z3')
LEVEL_NOTE = 'RI assumed (C01), numpy.add.at / mask selection assumed by contract, counting lemmas as axioms, floats as reals'
