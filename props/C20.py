import os
ID = 'C20'
LEVEL = 'other'
CONTRACT_MODULES = ['contracts.order', 'contracts.regions', 'contracts.catalogs', 'contracts.calc', 'contracts.evals', 'contracts.stats', 'contracts.cateval', 'contracts.catforecast', 'contracts.cellorder', 'contracts.fcfile']
CONE = ['lemma:C20:bin1d_vec is an elementwise function of the points',
        'lemma:C20:spatial_counts under a permutation of the events',
        'lemma:C20:spatial_event_probability under a permutation of the events',
        'lemma:C20:magnitude_counts under a permutation of the events',
        'lemma:C20:spatial_magnitude_counts under a permutation of the events',
        'csep.core.regions.CartesianGrid2D.get_index_of',
        'csep.core.poisson_evaluations._w_test_ndarray',
        'lemma:C20:catalog number_test under a permutation of the synthetic catalogs',
        'csep.utils.stats.greater_equal_ecdf', 'csep.utils.stats.less_equal_ecdf', 'csep.utils.stats.get_quantiles',
        'lemma:C20:Poisson joint log-likelihood under a permutation of the cells',
        'lemma:C20:binary joint log-likelihood under a permutation of the cells',
        'lemma:C20:Brier score under a permutation of the cells',
        'csep.core.forecasts.GriddedForecast.load_ascii']
ORACLE_MODULES = ['rt.oracles_catfc', 'rt.oracles_eval', 'rt.oracles_contracts', 'rt.oracles_grid', 'rt.oracles_io']
BOUNDED = os.path.exists(os.path.join(os.path.dirname(__file__), '..', 'rt', 'bounded_C20.py'))
FLOAT_MODEL = 'R (floats as reals): the relational lemmas compare two runs of the same real body, so rounding enters both runs identically'
TRUSTED = ['numpy.add.at / fancy indexing / mask selection models', 'the oracles in rt/ compute the expected outcome from the property statement, independently of the code under test', 'pyvc engine, z3 5.1']
ASSUMPTIONS = ['deductive part: re-ordering the EVENTS of the observed catalog leaves the gridded counts every gridded test consumes (spatial, magnitude, space-magnitude counts, spatial event flags) unchanged and the lookups end the same way - proved by self-composition of the real bodies for Cartesian regions satisfying RI; the catalog number test run on a forecast and on the same forecast with its synthetic catalogs re-ordered by an arbitrary bijection reports the same observed statistic and the same quantiles (self-composition + L5_perm_cge/cle); the W-test kernel and the empirical quantile functions are functions of counts and sums over the sample (their contracts: value == CGE/n, CLE/n), hence order-free; re-ordering the CELLS together with rates and gridded observations leaves the Poisson / binary joint log-likelihood and the Brier score (the observed statistics of the gridded consistency tests) unchanged - lemmas over the score contracts with the Lean-checked L5_perm_sum; that the public tests hand exactly these arrays to the scores is their plumbing contract (C05 / C16), that a re-ordered region grids the same events into the re-ordered cells is C01 / C03; load_ascii keeps the cells in FILE order whatever that order is (its contract, shared with C11: polygon c and data row c belong to file cell c), so a file with re-ordered cell blocks gives consistently re-ordered polygons and rates; the end-to-end re-ordering of cells + rates through regions and tests, the other catalog-based tests and the fixed-seed bit-identity are decided by the bounded run-time contract only', 'the cell-numbering clause rests on the get_index_of contract (C01): the reported index is the stored number of the cell that contains the point, whatever the numbering']
EXPLANATION = 'relational lemmas by self-composition: the real spatial_counts / spatial_event_probability / magnitude_counts / spatial_magnitude_counts are executed on a catalog and on the same catalog re-ordered by an arbitrary bijection; both runs end the same way and return equal arrays (counting lemma L5: counts are invariant under a bijection of the index range; bin1d_vec enters through its elementwise view, itself proved on the real body); plus the bounded run-time contract over every public test on permuted events / synthetic catalogs / (cells + rates)'
TECHNIQUE = 'relational contracts (self-composition of the real bodies, callees inlined or used through a proved elementwise view), Lean-checked permutation lemma, z3; bounded run-time contracts for the whole-test clauses'
LEVEL_TEXT = 'other: event-order invariance of all gridded counts (Cartesian regions), synthetic-catalog order for the catalog number test and cell-order invariance of the three gridded scores are proved; the remaining clauses are bounded only'
LEVEL_NOTE = 'event order at the gridded-count level and synthetic-catalog order for the catalog number test proved; cell order at the score level proved (end to end bounded); other catalog-based tests, seeded bit-identity bounded'
