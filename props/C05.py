import os
ID = 'C05'
LEVEL = 'proof'
CONTRACT_MODULES = ['contracts.evals', 'contracts.forecasts']
CONE = ['csep.utils.stats.poisson_joint_log_likelihood_ndarray', 'csep.core.poisson_evaluations._simulate_catalog', 'lemma:csep.core.forecasts.MarkedGriddedDataSet.marginals', 'csep.core.poisson_evaluations._poisson_likelihood_test', 'csep.core.poisson_evaluations.poisson_spatial_likelihood', 'csep.core.poisson_evaluations.likelihood_test', 'csep.core.poisson_evaluations.conditional_likelihood_test', 'csep.core.poisson_evaluations.spatial_test', 'csep.core.poisson_evaluations.magnitude_test']
ORACLE_MODULES = ['rt.oracles_eval', 'rt.oracles_contracts']
BOUNDED = os.path.exists(os.path.join(os.path.dirname(__file__), '..', 'rt', 'bounded_C05.py'))
FLOAT_MODEL = 'R; loggamma/log uninterpreted'
TRUSTED = ['numpy.sum / scipy.special.loggamma element-wise', 'pyvc engine, z3 5.1']
ASSUMPTIONS = ['likelihood_test (L-test, Poisson number of events): the seeded kernel case and the public wrapper (plumbing over the kernel contract) are proved; the -inf clause (model R has no infinities) is decided by the bounded stand-in and, for poisson_joint_log_likelihood_ndarray, by the directed replay of a -inf log-rate', 'observed counts are whole numbers >= 0, rates >= 0 with positive total; floats as reals; log / loggamma uninterpreted']
EXPLANATION = '_poisson_likelihood_test (1-d and 2-d rates, normalised or not, injected numbers or seeded): observed statistic == sum over ALL bins of log Poisson pmf(count | rate) with the rates scaled to the observed number when normalised (support restriction justified by lemma L4_sum_over_selection and loggamma(1) = 0 pointwise); loop invariant: every entry of the simulated distribution is that same function of the catalog placed by exact inverse CDF from its row of random numbers; quantile == fraction <= observed, in [0,1]; the public CL / S / M tests hand the full rates / the spatial marginal / the magnitude marginal (with the forecast magnitude edges) to the kernel with the right normalisation flag and store its triple'
TECHNIQUE = 'contracts on the real functions; loop invariant over the simulation loop; modular use of the simulator and kernel contracts; summation lemmas (L4) with pointwise proof steps; z3; bounded independent recomputation as labelled stand-in'
LEVEL_TEXT = 'proof (model R): kernel, simulator and the public CL/S/M tests are executed symbolically for forecasts, catalogs and simulation counts of arbitrary size; the -inf clause is bounded only'
LEVEL_NOTE = 'floats as reals; log/loggamma uninterpreted; numpy cumsum/searchsorted/add.at/mask selection assumed; lemma library; -inf clause bounded only'
