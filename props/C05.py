import os
ID = 'C05'
LEVEL = 'other'
CONTRACT_MODULES = ['contracts.evals', 'contracts.forecasts']
CONE = ['csep.utils.stats.poisson_joint_log_likelihood_ndarray', 'csep.core.poisson_evaluations._simulate_catalog', 'lemma:csep.core.forecasts.MarkedGriddedDataSet.marginals']
ORACLE_MODULES = ['rt.oracles_eval', 'rt.oracles_contracts']
BOUNDED = os.path.exists(os.path.join(os.path.dirname(__file__), '..', 'rt', 'bounded_C05.py'))
FLOAT_MODEL = 'R; loggamma/log uninterpreted'
TRUSTED = ['numpy.sum / scipy.special.loggamma element-wise', 'pyvc engine, z3 5.1']
ASSUMPTIONS = ['_poisson_likelihood_test (support restriction, normalisation, simulation loop) and the four public tests are NOT under proof in this round: bounded stand-in only (independent recomputation with scipy.stats.poisson.logpmf on directed and random forecasts)', 'the -inf clause is bounded only (model R has no infinities)']
EXPLANATION = 'poisson_joint_log_likelihood_ndarray == sum(t) - sum(loggamma(w+1)) - n_fore; the simulated catalog every entry of the test distribution is computed from is the exact inverse-CDF placement, reset for every simulation (_simulate_catalog contract, shared with C06); forecast marginals are the row / column sums of data (used by the S and M tests)'
TECHNIQUE = 'contracts on the real functions (formula level) + bounded run-time contract of the full tests'
LEVEL_TEXT = 'other: the likelihood kernel and the marginals are proved; the statement about the observed statistic / simulated distribution of the L, CL, S, M tests is decided by the bounded run-time contract only'
LEVEL_NOTE = 'only the kernel is proved; tests bounded; floats as reals'
