import os
ID = 'C16'
LEVEL = 'proof'
CONTRACT_MODULES = ['contracts.evals', 'contracts.binary']
CONE = ['csep.core.binomial_evaluations.binary_joint_log_likelihood_ndarray', 'csep.core.brier_evaluations._brier_score_ndarray',
        'csep.core.binomial_evaluations._binary_likelihood_test', 'csep.core.brier_evaluations._brier_score_test',
        'csep.core.binomial_evaluations.binary_spatial_test', 'csep.core.binomial_evaluations.binary_conditional_likelihood_test',
        'csep.core.brier_evaluations.brier_score_test',
        'csep.core.poisson_evaluations.binary_spatial_likelihood', 'csep.core.poisson_evaluations.poisson_spatial_likelihood']
ORACLE_MODULES = ['rt.oracles_eval', 'rt.oracles_contracts']
BOUNDED = os.path.exists(os.path.join(os.path.dirname(__file__), '..', 'rt', 'bounded_C16.py'))
FLOAT_MODEL = 'R; log/exp uninterpreted; 1 - poisson.cdf(0, lam) = 1 - exp(-lam) (assumed cdf fact)'
TRUSTED = ['numpy.ma.masked_where / masked arithmetic: data under the mask is unspecified (havoc) - the proof does not depend on it', 'numpy.nonzero + fancy assignment y[idx] = 1; builtins.sum / ndarray.sum as SUM over the C-order flattening; lemma L4 (sum congruence)', 'pyvc engine, z3 5.1']
ASSUMPTIONS = ['binary log-likelihood: every rate > 0 (an event in a bin with rate <= 0 is the open known finding D14: masked by design); the binary kernel contract therefore requires positive rates, the Brier kernel contract allows zero rates', 'kernels proved for 2-d (space x magnitude) inputs with injected random numbers (closed form of every simulated score) and for seeded runs (one simulated catalog of the observed number of active cells per iteration); the public binary_spatial_test / binary_conditional_likelihood_test / brier_score_test are proved over abstract forecast / catalog records (which arrays reach the kernel, result fields); that the records behave like real forecasts and catalogs is covered by C03 / C11 and the bounded layer', 'floats as reals']
EXPLANATION = 'binary joint log-likelihood == sum over bins of [active ? ln(1-exp(-rate)) : -rate] and Brier == -2/N sum (1-exp(-rate)-[active])^2, 1-D, 2-D and mixed-rank arrays of arbitrary shape; dependence on the observation only through the support is visible in the postcondition (the counts occur only as count != 0 / count > 0); _binary_likelihood_test and _brier_score_test: observed score == that definition on the observed counts, every simulated score == that definition on the inverse-CDF catalog of its row of random numbers (loop invariant), quantile == fraction of simulated scores <= observed'
TECHNIQUE = 'contracts on the real functions over lambda-lifted (masked) arrays; loop invariants over the simulation loops with modular use of the simulator and score contracts; pointwise summand equality + sum congruence lemma; z3 (5.1 and 4.8.12)'
LEVEL_TEXT = 'proof (model R) of both score formulas and of the two test kernels for arrays of arbitrary shape; public tests proved as plumbing over the kernel contracts'
LEVEL_NOTE = 'positive rates; masked data havoc; exp/log uninterpreted; D14 open finding'
