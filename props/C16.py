import os
ID = 'C16'
LEVEL = 'proof'
CONTRACT_MODULES = ['contracts.evals']
CONE = ['csep.core.binomial_evaluations.binary_joint_log_likelihood_ndarray', 'csep.core.brier_evaluations._brier_score_ndarray']
ORACLE_MODULES = ['rt.oracles_eval', 'rt.oracles_contracts']
BOUNDED = os.path.exists(os.path.join(os.path.dirname(__file__), '..', 'rt', 'bounded_C16.py'))
FLOAT_MODEL = 'R; log/exp uninterpreted; 1 - poisson.cdf(0, lam) = 1 - exp(-lam) (assumed cdf fact)'
TRUSTED = ['numpy.ma.masked_where / masked arithmetic: data under the mask is unspecified (havoc) - the proof does not depend on it', 'numpy.nonzero + fancy assignment y[idx] = 1; builtins.sum / ndarray.sum as SUM over the C-order flattening; lemma L4 (sum congruence)', 'pyvc engine, z3 5.1']
ASSUMPTIONS = ['binary log-likelihood: every rate > 0 (an event in a bin with rate <= 0 is the open known finding D14: masked by design)', 'the simulation-based tests (_binary_likelihood_test, _brier_score_test and the public tests) report these functions for the observed and simulated arrays: bounded only', 'floats as reals']
EXPLANATION = 'binary joint log-likelihood == sum over bins of [active ? ln(1-exp(-rate)) : -rate] and Brier == -2/N sum (1-exp(-rate)-[active])^2, 1-D and 2-D arrays of arbitrary shape; dependence on the observation only through the support is visible in the postcondition (the counts occur only as count != 0 / count > 0)'
TECHNIQUE = 'contracts on the real functions over lambda-lifted (masked) arrays; pointwise summand equality + sum congruence lemma; z3'
LEVEL_TEXT = 'proof (model R) of both score formulas for arrays of arbitrary shape with positive rates; tests built on them are bounded only'
LEVEL_NOTE = 'positive rates; masked data havoc; exp/log uninterpreted; D14 open finding'
