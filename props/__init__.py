"""One module per property: cone of functions under contract, bounded stand-ins, level."""
