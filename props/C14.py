import os
ID = 'C14'
LEVEL = 'other'
CONTRACT_MODULES = ['contracts.time_utils', 'contracts.catalogs']
CONE = ['csep.utils.time_utils.epoch_time_to_utc_datetime', 'csep.utils.time_utils.datetime_to_utc_epoch', 'lemma:csep.utils.time_utils.round_trips',
        'csep.core.catalogs.AbstractBaseCatalog.from_dict', 'csep.core.catalogs.AbstractBaseCatalog.to_dict']
ORACLE_MODULES = ['rt.oracles_io', 'rt.oracles_time']
BOUNDED = os.path.exists(os.path.join(os.path.dirname(__file__), '..', 'rt', 'bounded_C14.py'))
FLOAT_MODEL = 'E for the time conversions (see C15); concrete executions otherwise'
TRUSTED = ['the oracles in rt/ compute the expected outcome from the property statement, independently of the code under test', 'pyvc engine, z3 5.1']
ASSUMPTIONS = ['proved: to_dict stores one row per event, in catalog order, each row the six fields of its event in dtype order (loop invariant over a catalog of any length; decoding of byte ids is the string layer), every attribute under its public name with its own value (falsy values included), the region in its own dictionary form, the event array itself not', 'proved: from_dict hands the stored event list to the constructor unchanged and restores every stored attribute - catalog id for every integer including 0, name, format, flags, access time - when the dictionary has them (constructor observed through a recording stub); the origin-time conversions of every round trip (C15)', 'the writers / readers themselves (csv, json, pandas, str/float, the structured-array constructor, ids with delimiters) are exercised by the bounded run-time contract only']
EXPLANATION = 'from_dict attribute restoration (falsy values too) under contract; the origin-time part of every round trip rests on the proved epoch<->datetime contracts (C15); writers/readers (csv, json, pandas, str/float) are exercised by the bounded run-time contract'
TECHNIQUE = 'bounded stand-in: run-time form of the contracts on the real code (small-scope enumeration + directed cases), labelled bounded, nothing counted as proved; deductive part: contracts of the shared callees'
LEVEL_TEXT = 'other: the dictionary form (to_dict: every event, in order, field by field; from_dict: event list to the constructor unchanged, attributes restored) and the time conversions are proved; the file / frame formats are decided by the bounded run-time contract only'
LEVEL_NOTE = 'attribute restoration and time conversions proved; writers / readers bounded only (the CSEP CSV reader itself: C19, proved over an abstract csv file)'
