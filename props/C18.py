import os
import sys
ID = 'C18'
LEVEL = 'other'
CONTRACT_MODULES = ['contracts.models', 'contracts.regions']
ORACLE_MODULES = ['rt.oracles_time', 'rt.oracles_io']


def _cone():
    sys.path.insert(0, os.path.join(os.path.dirname(__file__), '..'))
    from contracts.models import result_classes
    return ['lemma:csep.load_evaluation_result[%s]' % n for n in result_classes()] + [
        'lemma:C18:CartesianGrid2D.from_dict(to_dict(region)) rebuilds from the same origins in the same order']


CONE = _cone()
BOUNDED = os.path.exists(os.path.join(os.path.dirname(__file__), '..', 'rt', 'bounded_C18.py'))
FLOAT_MODEL = 'leaf values are opaque reals / strings: only their identity matters'
TRUSTED = [
    'json.load(json.dump(v)) == v for dict/list/str/number leaves, tuples become lists (stdlib contract)',
    'the set of result classes is read from the AST of csep/models.py on every run (EvaluationResult and its direct subclasses)',
    'pyvc engine, z3 5.1',
]
ASSUMPTIONS = [
    'which leaf types each evaluation function stores (numpy scalars, arrays, inf/nan/None) is covered by the bounded stand-in only (run every evaluation -> JSON -> load)',
    'region round trip: proved that from_dict(to_dict(region)) hands from_origins the origins of the cells in their original order with the original spacing (any number of cells); that the constructor maps equal arguments to equal lookups is determinism of a pure function and, with float formatting through JSON, is covered by the bounded stand-in',
]
EXPLANATION = ('for every result class C in csep/models.py: the real C.__init__, C.to_dict, csep.load_evaluation_result and C.from_dict are executed '
               'symbolically on a result with symbolic statistic/quantile/distribution: the type tag written is a key of the factory mapping to C '
               '(factory totality) and all eight fields come back equal')
TECHNIQUE = ('relational obligations over the real constructors / to_dict / loader (symbolic leaves, abstract file holding the JSON value), '
             'one group per result class enumerated from the AST; z3; bounded write/load of real evaluation results as labelled stand-in')
LEVEL_TEXT = ('other: factory totality and field preservation are proved per result class for symbolic leaf values under the JSON contract; '
              'the region round trip is proved up to the constructor call (same origins, same order, same spacing); leaf-type stability of what the evaluation functions store and float formatting through JSON are bounded only')
LEVEL_NOTE = 'JSON round trip assumed for JSON-stable leaves; result classes enumerated syntactically; region rebuilt from the same origins (proved), its lookups through JSON bounded'
