import os
ID = 'C19'
LEVEL = 'other'
CONTRACT_MODULES = ['contracts.time_utils', 'contracts.readers']
CONE = ['csep.utils.time_utils.datetime_to_utc_epoch', 'csep.utils.readers.ingv_horus', 'csep.utils.readers.zmap_ascii']
ORACLE_MODULES = ['rt.oracles_io']
BOUNDED = os.path.exists(os.path.join(os.path.dirname(__file__), '..', 'rt', 'bounded_C19.py'))
FLOAT_MODEL = 'E for the time conversions (see C15); concrete executions otherwise'
TRUSTED = ['the oracles in rt/ compute the expected outcome from the property statement, independently of the code under test', 'pyvc engine, z3 5.1']
ASSUMPTIONS = ['proved: the ZMAP reader over an abstract numeric table of any number of records (numpy.loadtxt assumed to deliver the written numbers; whole-number date / time columns of valid instants): one event per record in file order with id = row number, latitude / longitude / depth / magnitude from their columns (not swapped) and origin time = the encoded civil instant in ms (UTC); an empty file gives no events', 'proved: the INGV HORUS reader over an abstract table of any number of records (numpy.genfromtxt assumed to deliver the written numbers): one event per record in file order, encoded latitude / longitude / depth / magnitude, origin time = midnight of the date + hour, minute and WHOLE seconds, roll-over of seconds = 60, minute = 60, hour = 24 without exception (datetime constructor with symbolic civil fields, day number uninterpreted); the dropped fraction of the second is the open known finding; the datetime -> epoch step is the proved C15 contract', 'the other three formats (CSEP CSV, ZMAP, JMA CSV, NDK: string slicing / strptime / offsets) are decided by the bounded run-time contract only']
EXPLANATION = 'zmap_ascii under contract (loop invariant over the rows of the table, nested column-index enum, symbolic datetime constructor); ingv_horus under contract (loop invariant over the records, in-place roll-over arithmetic on the record view); generated files in the five formats, one event per record, file order, encoded values, UTC conversion incl. seconds = 60 and offsets: run-time contract; the datetime -> epoch step is the proved C15 contract'
TECHNIQUE = 'bounded stand-in: run-time form of the contracts on the real code (small-scope enumeration + directed cases), labelled bounded, nothing counted as proved; deductive part: contracts of the shared callees'
LEVEL_TEXT = 'other: the ZMAP and HORUS readers and the time conversion are proved; the other formats are decided by the bounded run-time contract only'
LEVEL_NOTE = 'bounded only; oracle independence trusted'
