import os
ID = 'C19'
LEVEL = 'other'
CONTRACT_MODULES = ['contracts.time_utils']
CONE = ['csep.utils.time_utils.datetime_to_utc_epoch']
ORACLE_MODULES = ['rt.oracles_io']
BOUNDED = os.path.exists(os.path.join(os.path.dirname(__file__), '..', 'rt', 'bounded_C19.py'))
FLOAT_MODEL = 'E for the time conversions (see C15); concrete executions otherwise'
TRUSTED = ['the oracles in rt/ compute the expected outcome from the property statement, independently of the code under test', 'pyvc engine, z3 5.1']
ASSUMPTIONS = ['the functions of this property are outside the deductive reach of the engine in this round (generators, file readers, recursion over tiles, whole-test pipelines): every clause is decided by the bounded run-time contract only; see DESIGN.md section 10']
EXPLANATION = 'generated files in the five formats, one event per record, file order, encoded values, UTC conversion incl. seconds = 60 and offsets: run-time contract; the datetime -> epoch step is the proved C15 contract'
TECHNIQUE = 'bounded stand-in: run-time form of the contracts on the real code (small-scope enumeration + directed cases), labelled bounded, nothing counted as proved; deductive part: contracts of the shared callees'
LEVEL_TEXT = 'other: the shared callees are proved (see cone); the property-level clauses are decided by the bounded run-time contract only'
LEVEL_NOTE = 'bounded only; oracle independence trusted'
