import os
ID = 'C10'
LEVEL = 'other'
CONTRACT_MODULES = ['contracts.stats', 'contracts.calc', 'contracts.catforecast', 'contracts.cateval']
CONE = ['csep.core.catalog_evaluations.number_test', 'csep.core.forecasts.CatalogForecast.get_expected_rates', 'csep.utils.calc._compute_likelihood', 'csep.utils.stats.get_quantiles', 'csep.utils.stats.greater_equal_ecdf', 'csep.utils.stats.less_equal_ecdf']
ORACLE_MODULES = ['rt.oracles_catfc', 'rt.oracles_contracts']
BOUNDED = os.path.exists(os.path.join(os.path.dirname(__file__), '..', 'rt', 'bounded_C10.py'))
FLOAT_MODEL = 'E for the time conversions (see C15); concrete executions otherwise'
TRUSTED = ['the oracles in rt/ compute the expected outcome from the property statement, independently of the code under test', 'pyvc engine, z3 5.1']
ASSUMPTIONS = ['proved: the catalog number test (test distribution = sizes of the synthetic catalogs of one pass with the configured filters, observed statistic, quantiles from get_quantiles of exactly those sizes), the expected rates of a catalog forecast (mean over the synthetic catalogs of their space-magnitude counts, list-backed forecasts), the pseudo-likelihood kernel _compute_likelihood and the empirical quantile functions; the loop over the forecast is cut by the pass invariant (induction over the proved __next__ step, C13)', 'spatial, magnitude, pseudo-likelihood, resampled-magnitude and MLL tests as wholes, the not-valid / None / undersampled paths and file-backed forecasts: bounded run-time contract only (NaN-valued test distributions and data-dependent list lengths are outside the engine)']
EXPLANATION = 'catalog number_test under contract with the pass invariant; CatalogForecast.get_expected_rates == per-bin mean of the synthetic catalogs; _compute_likelihood == documented pseudo-likelihood and normalised spatial statistic incl. the nan cases; quantiles of every catalog-based test are get_quantiles(distribution, observed): proved (C09 contracts). The other statistics: independent recomputation on small forecasts by the bounded run-time contract'
TECHNIQUE = 'bounded stand-in: run-time form of the contracts on the real code (small-scope enumeration + directed cases), labelled bounded, nothing counted as proved; deductive part: contracts of the shared callees'
LEVEL_TEXT = 'other: number test, expected rates and the shared kernels are proved; the remaining tests are decided by the bounded run-time contract only'
LEVEL_NOTE = 'bounded only; oracle independence trusted'
