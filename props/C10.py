import os
ID = 'C10'
LEVEL = 'other'
CONTRACT_MODULES = ['contracts.stats', 'contracts.calc']
CONE = ['csep.utils.calc._compute_likelihood', 'csep.utils.stats.get_quantiles', 'csep.utils.stats.greater_equal_ecdf', 'csep.utils.stats.less_equal_ecdf']
ORACLE_MODULES = ['rt.oracles_catfc', 'rt.oracles_contracts']
BOUNDED = os.path.exists(os.path.join(os.path.dirname(__file__), '..', 'rt', 'bounded_C10.py'))
FLOAT_MODEL = 'E for the time conversions (see C15); concrete executions otherwise'
TRUSTED = ['the oracles in rt/ compute the expected outcome from the property statement, independently of the code under test', 'pyvc engine, z3 5.1']
ASSUMPTIONS = ['the functions of this property are outside the deductive reach of the engine in this round (generators, file readers, recursion over tiles, whole-test pipelines): every clause is decided by the bounded run-time contract only; see DESIGN.md section 10']
EXPLANATION = 'quantiles of every catalog-based test are get_quantiles(distribution, observed): proved (C09 contracts). The statistics themselves (number, spatial, magnitude, pseudo-likelihood, resampled, MLL), the not-valid / None / undersampled paths: independent recomputation on small forecasts by the bounded run-time contract only'
TECHNIQUE = 'bounded stand-in: run-time form of the contracts on the real code (small-scope enumeration + directed cases), labelled bounded, nothing counted as proved; deductive part: contracts of the shared callees'
LEVEL_TEXT = 'other: the shared callees are proved (see cone); the property-level clauses are decided by the bounded run-time contract only'
LEVEL_NOTE = 'bounded only; oracle independence trusted'
