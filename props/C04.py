import os
ID = 'C04'
LEVEL = 'proof'
CONTRACT_MODULES = ['contracts.calc', 'contracts.time_utils', 'contracts.regions', 'contracts.catalogs']
CONE = [
    'csep.core.catalogs.AbstractBaseCatalog.filter',
    'csep.core.regions.CartesianGrid2D.get_masked',
    'csep.core.catalogs.AbstractBaseCatalog.filter_spatial',
    'csep.utils.time_utils.datetime_to_utc_epoch',
]
ORACLE_MODULES = ['rt.oracles_grid', 'rt.oracles_time']
BOUNDED = os.path.exists(os.path.join(os.path.dirname(__file__), '..', 'rt', 'bounded_C04.py'))
FLOAT_MODEL = 'R for attribute values and thresholds (comparisons are exact on floats anyway); origin times are integers'
TRUSTED = [
    'a[mask]: order-preserving sub-sequence of the True positions, all fields kept, fresh array (assumed numpy contract); numpy.copy is a fresh array',
    'float(token) of the numeric literal is an arbitrary real V; str.split / join on the statement text is executed concretely on the 30 statement shapes',
    'strptime_to_utc_epoch(D T) returns the epoch milliseconds of the instant the string denotes (contract; its string layer is bounded only, see C15)',
    'lemma L6 (filter of filter = filter of conjunction, order independence, idempotence) is a fact about the spec function select, proved in lemmas/, '
    'not re-proved per run',
    'pyvc engine, z3 5.1',
]
ASSUMPTIONS = [
    'origin times within 1900..2200 (the new catalog object computes summary statistics through epoch_time_to_utc_datetime)',
    'malformed statements and apply_mct are outside the contract',
]
EXPLANATION = ('for each of the 25 attribute/operator shapes and the 5 datetime shapes (symbolic threshold, catalog of arbitrary length): the result '
               'is one mask selection per statement whose mask is exactly "attribute op value" on the events it is applied to, starting from the '
               'original events; in_place=False returns a new object carrying name/id/format/region and writes nothing of the original array; '
               'spatial filter: get_masked contract (C01)')
TECHNIQUE = 'contracts on the real method, one symbolic execution per statement shape, frame condition by object/closure identity; z3; bounded stand-in'
LEVEL_TEXT = ('proof: the real filter() is executed symbolically for every statement shape with a symbolic threshold and a catalog of arbitrary '
              'length; selection masks are proved equal to the statement predicate; algebraic consequences by lemma L6')
LEVEL_NOTE = 'numpy mask selection assumed; string layer of datetime statements assumed (C15 bounded); lemma L6 from the lemma library'
