import os
ID = 'C06'
LEVEL = 'proof'
CONTRACT_MODULES = ['contracts.evals', 'contracts.binary']
CONE = ['csep.core.poisson_evaluations._simulate_catalog', 'csep.core.poisson_evaluations._poisson_likelihood_test', 'csep.core.poisson_evaluations.likelihood_test', 'csep.core.poisson_evaluations.conditional_likelihood_test', 'csep.core.poisson_evaluations.spatial_test', 'csep.core.poisson_evaluations.magnitude_test',
        'csep.core.binomial_evaluations._simulate_catalog', 'csep.core.brier_evaluations._simulate_catalog',
        'csep.core.binomial_evaluations._binary_likelihood_test', 'csep.core.brier_evaluations._brier_score_test',
        'csep.core.binomial_evaluations.binary_spatial_test', 'csep.core.binomial_evaluations.binary_conditional_likelihood_test',
        'csep.core.brier_evaluations.brier_score_test']
ORACLE_MODULES = ['rt.oracles_eval', 'rt.oracles_contracts']
BOUNDED = os.path.exists(os.path.join(os.path.dirname(__file__), '..', 'rt', 'bounded_C06.py'))
FLOAT_MODEL = 'R for the placement clause (comparisons of the given floats are exact); the clause "last cumulative weight reaches 1" is about rounding and is bounded only'
TRUSTED = ['numpy.searchsorted(side=right) partition point; numpy.add.at; ndarray.fill; lemma L1 (sum after add.at), L4 (count congruence)', 'pyvc engine, z3 5.1']
ASSUMPTIONS = ['rejection samplers of the binary / Brier tests: partial correctness (termination of the rejection loop is probabilistic and not an obligation); their public wrappers and the catalog-based resampled / MLL tests: bounded stand-in only', 'the clause "cumulative weights end at 1" is proved in model R (cumsum(x)[-1] / cumsum(x)[-1] = 1); its float version (the quotient of a double by itself is exactly 1.0) is covered by the bounded layer on rate arrays whose total rounds below 1', 'numpy.random as an explicit generator state: seed(s) determines the state, every draw call advances it (assumed)']
EXPLANATION = 'binary / Brier _simulate_catalog: injected numbers - counts by exact inverse CDF; drawn numbers - rejection loop invariant (0/1 array, number of ones == active cells so far <= prescribed, ones only in bins of positive width; point-update sum lemma), result has exactly the prescribed number of active cells and none in a zero-rate bin; _binary_likelihood_test / _brier_score_test: simulator preconditions established, generator seeded for every seed incl. 0, quantile == fraction <=; Poisson _simulate_catalog (injected or drawn numbers): sim[k] == #{t : F(k-1) <= u_t < F(k)}, zero-width bins empty, total == num_events, array reset; _poisson_likelihood_test establishes the simulator precondition (weights non-decreasing by lemma L4_sum_prefix_mono, last weight == 1, numbers in [0,1)), simulates the observed number of events per iteration (conditional form) or one Poisson(expected count) draw (L form), seeds the generator with `seed` before the first draw for EVERY seed including 0 (explicit RNG state), quantile == fraction of simulated statistics <= observed, in [0,1]'
TECHNIQUE = 'contract on the real function (searchsorted + add.at), pointwise count equality + counting lemmas, z3; bounded run-time contracts for callers, seeds and boundaries'
LEVEL_TEXT = 'proof (model R) for the Poisson, binary and Brier kernels: simulators (inverse CDF; rejection sampling with a while-loop invariant), kernels (loop invariants), seeding; public binary / Brier wrappers and the catalog-based tests are bounded only'
LEVEL_NOTE = 'callers bounded only; floats as reals'
