import os
ID = 'C06'
LEVEL = 'other'
CONTRACT_MODULES = ['contracts.evals']
CONE = ['csep.core.poisson_evaluations._simulate_catalog']
ORACLE_MODULES = ['rt.oracles_eval', 'rt.oracles_contracts']
BOUNDED = os.path.exists(os.path.join(os.path.dirname(__file__), '..', 'rt', 'bounded_C06.py'))
FLOAT_MODEL = 'R for the placement clause (comparisons of the given floats are exact); the clause "last cumulative weight reaches 1" is about rounding and is bounded only'
TRUSTED = ['numpy.searchsorted(side=right) partition point; numpy.add.at; ndarray.fill; lemma L1 (sum after add.at), L4 (count congruence)', 'pyvc engine, z3 5.1']
ASSUMPTIONS = ['precondition of _simulate_catalog: weights non-decreasing, last weight >= 1, draws in [0,1) - that the callers establish it (cumsum normalised by its own last value) is checked by the bounded layer (incl. rate arrays whose float total rounds below 1, draws 0, next to every boundary, nextafter(1,0))', 'binary/Brier rejection loops, quantile score, seeding/determinism: bounded only']
EXPLANATION = 'Poisson _simulate_catalog: sim[k] == #{t : F(k-1) <= u_t < F(k)} for every bin, zero-width bins receive nothing, total == num_events, the array passed in is reset and returned, no IndexError/AssertionError under the precondition'
TECHNIQUE = 'contract on the real function (searchsorted + add.at), pointwise count equality + counting lemmas, z3; bounded run-time contracts for callers, seeds and boundaries'
LEVEL_TEXT = 'other: the inverse-CDF placement of the Poisson simulator is proved for all weights/draws/lengths; the remaining clauses (callers, binary/Brier simulators, determinism, quantile) are bounded only'
LEVEL_NOTE = 'callers bounded only; floats as reals'
