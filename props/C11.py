import os
ID = 'C11'
LEVEL = 'other'
CONTRACT_MODULES = ['contracts.forecasts', 'contracts.time_utils', 'contracts.regions', 'contracts.calc', 'contracts.catalogs']
CONE = ['csep.core.forecasts.GriddedDataSet.scale', 'csep.core.forecasts.GriddedDataSet.data', 'lemma:csep.core.forecasts.GriddedDataSet.scale;scale;data', 'lemma:csep.core.forecasts.MarkedGriddedDataSet.marginals', 'csep.core.forecasts.GriddedForecast.scale_to_test_date',
        'csep.core.forecasts.GriddedForecast.get_rates']
ORACLE_MODULES = ['rt.oracles_io']
BOUNDED = os.path.exists(os.path.join(os.path.dirname(__file__), '..', 'rt', 'bounded_C11.py'))
FLOAT_MODEL = 'R'
TRUSTED = ['decimal_year as an abstract function of the instant (its own behaviour: C15 bounded)', 'lemma L2 (row sums and column sums add up to the total) from the lemma library', 'pyvc engine, z3 5.1']
ASSUMPTIONS = ['proved: the rate lookup get_rates on a forecast over a lattice region (RI) with equally spaced magnitude edges - a point inside the half-open cell of active cell i with a magnitude inside bin k (lower edges included, upper edges excluded up to the documented tolerance, last magnitude bin open) gets the stored rate of (i, k) times the current scale factor; scaling is absolute; marginals add up', 'load_ascii / quadtree loaders (numpy.loadtxt, unique, file layout -> cells and rates) are NOT under proof: bounded stand-in only (generated forecast files, every row looked up at its lower corner and centre)']
EXPLANATION = 'scale(v) replaces the factor and writes nothing else; data == stored rates x current factor; after any two scale calls data == original x last factor (never cumulative); scale_to_test_date sets the documented fraction inside (start, end) and leaves the object untouched outside; marginals are row / column sums'
TECHNIQUE = 'object-invariant contracts and lemmas over the real method bodies (frame conditions by field/closure identity), z3; bounded file round trips'
LEVEL_TEXT = 'other: scaling and marginal clauses proved for arrays of arbitrary shape; file loading clauses decided by the bounded run-time contract only'
LEVEL_NOTE = 'loaders bounded only; floats as reals'
