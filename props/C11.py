import os
ID = 'C11'
LEVEL = 'other'
CONTRACT_MODULES = ['contracts.forecasts', 'contracts.time_utils', 'contracts.regions', 'contracts.calc', 'contracts.catalogs', 'contracts.fcfile']
CONE = ['csep.core.forecasts.GriddedDataSet.scale', 'csep.core.forecasts.GriddedDataSet.data', 'lemma:csep.core.forecasts.GriddedDataSet.scale;scale;data', 'lemma:csep.core.forecasts.MarkedGriddedDataSet.marginals', 'csep.core.forecasts.GriddedForecast.scale_to_test_date',
        'csep.core.forecasts.GriddedForecast.get_rates', 'csep.core.forecasts.GriddedForecast.load_ascii']
ORACLE_MODULES = ['rt.oracles_io']
BOUNDED = os.path.exists(os.path.join(os.path.dirname(__file__), '..', 'rt', 'bounded_C11.py'))
FLOAT_MODEL = 'R'
TRUSTED = ['decimal_year as an abstract function of the instant (its own behaviour: C15 bounded)', 'lemma L2 (row sums and column sums add up to the total), L9 (two increasing enumerations of a finite set coincide) and L10 (row r <-> (r div M, r mod M)) from the lemma library',
           'numpy.loadtxt returns the numbers written in the file as an (n, 10) table; numpy.unique(.., return_index=True) returns the first-occurrence position of every distinct row; Polygon / CartesianGrid2D / the forecast class are abstract record constructors inside load_ascii (string layer and numpy: assumed)', 'pyvc engine, z3 5.1']
ASSUMPTIONS = ['proved: the rate lookup get_rates on a forecast over a lattice region (RI) with equally spaced magnitude edges - a point inside the half-open cell of active cell i with a magnitude inside bin k (lower edges included, upper edges excluded up to the documented tolerance, last magnitude bin open) gets the stored rate of (i, k) times the current scale factor; scaling is absolute; marginals add up', 'proved: load_ascii on a CSEP1 file of any C cells x M magnitude bins (magnitude fastest; distinct boxes, distinct lower edges) - polygon c is the box of file cell c in file order with its flag, the magnitudes are the lower edges in file order, data[c, m] is the rate of row c*M + m, the reshape cannot fail; with and without swap_latlon, named or not',
               'not proved: that the region built from these polygons satisfies RI is the region constructor contract (C01) - the composition load_ascii -> constructor -> get_rates is by contracts, the end-to-end chain on generated files is bounded; quadtree loaders: bounded stand-in only (generated forecast files, every row looked up at its lower corner and centre)']
EXPLANATION = 'scale(v) replaces the factor and writes nothing else; data == stored rates x current factor; after any two scale calls data == original x last factor (never cumulative); scale_to_test_date sets the documented fraction inside (start, end) and leaves the object untouched outside; marginals are row / column sums; load_ascii maps the file rows to (cell, magnitude bin) in file order for files of any size'
TECHNIQUE = 'object-invariant contracts and lemmas over the real method bodies (frame conditions by field/closure identity), z3; bounded file round trips'
LEVEL_TEXT = 'other: scaling and marginal clauses proved for arrays of arbitrary shape; load_ascii proved over an abstract table (string layer assumed); quadtree loaders and end-to-end file round trips bounded only'
LEVEL_NOTE = 'quadtree loaders and the numpy string layer bounded / assumed; floats as reals'
