import os
ID = 'C12'
LEVEL = 'proof'
CONTRACT_MODULES = ['contracts.catfile']
CONE = ['csep.core.catalogs.CSEPCatalog.load_ascii_catalogs', 'csep.load_catalog_forecast', 'csep.load_stochastic_event_sets']
ORACLE_MODULES = ['rt.oracles_catfc']
BOUNDED = os.path.exists(os.path.join(os.path.dirname(__file__), '..', 'rt', 'bounded_C12.py'))
FLOAT_MODEL = 'n/a: no arithmetic on the parsed numbers (they are carried as uninterpreted values of (row, column))'
TRUSTED = ['csv.reader yields the rows of the file in order; float() / int() / == \'\' / .lower() on a field and strptime on the time field are uninterpreted functions of (row, column): the string layer is assumed',
           'abstract event lists: sort RowList with NIL / APP and the selection ROWS(k, t) = non-placeholder rows s < t with id k, in file order (unfolding and emptiness laws given as instances)',
           'the generator is identified with the sequence of values it yields (eager execution)',
           'the class constructor cls(data=.., catalog_id=..) is an abstract record constructor (the real constructor: C14)',
           'the oracles in rt/ compute the expected outcome from the property statement, independently of the code under test', 'pyvc engine, z3 5.1']
ASSUMPTIONS = ['proved: load_stochastic_event_sets (eager generator, while-loop invariant over the position in the loader\'s generator) yields exactly the catalogs of the loader of the requested type, in order, converted iff format is csep; the loader is called once with the file name and the keywords; ValueError for an unknown type before anything is loaded, for an unknown format at the first catalog', 'proved: the decoding state machine of load_ascii_catalogs for files of any number of rows - rows grouped by catalog id, placeholder rows, omitted catalogs before the first id and in gaps (inner loop invariant), the final catalog, event order, field order of an event, ids 0..n-1 in order, rejection of decreasing ids; at most one header row, at least one data row, placeholder rows empty throughout',
               'not proved: that float() / strptime return the written numbers and instants (Python / C15), load_catalog_forecast for file names of other shapes than the six cases under contract (well-formed name_timestamp, caller-given name / start time, no time stamp, malformed second part, missing file: the forecast gets the file, the CSEP ASCII loader, name and start time parsed from the file name unless given, other keywords unchanged), files without trailing newline, more than one header line: bounded run-time contract']
EXPLANATION = 'load_ascii_catalogs under contract: loop invariant over the rows (prev_id == id of the last row, ids non-decreasing so far, catalogs 0..prev_id-1 yielded as (k, ROWS(k, i)), pending events == ROWS(prev_id, i)), inner loop invariant over omitted catalogs, result == the catalogs 0..last id each with exactly its own non-placeholder rows in file order; second case: a file whose ids decrease cannot complete normally (ValueError); plus all encodings of n <= 4 (quick) / 5 (thorough) catalogs of 0..2 events x placeholder/omitted x header, random long-gap files by the bounded run-time contract'
TECHNIQUE = 'contract on the real generator function (eager yield semantics), loop invariants for the row loop and the gap loops, abstract list sort for event lists, z3; bounded run-time contracts for the string layer and the wrappers'
LEVEL_TEXT = 'proof of the decoding state machine for files of any length (string layer assumed); values of the parsed fields and the loader wrappers are bounded only'
LEVEL_NOTE = 'string layer (float/int/strptime/csv) assumed as uninterpreted functions; eager generator semantics'
