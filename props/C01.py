import os
ID = 'C01'
LEVEL = 'proof'
CONTRACT_MODULES = ['contracts.calc', 'contracts.regions', 'contracts.catalogs']
CONE = [
    'csep.utils.calc.bin1d_vec',
    'csep.core.regions.CartesianGrid2D.get_index_of',
    'csep.core.regions.CartesianGrid2D.get_masked',
    'csep.core.catalogs.AbstractBaseCatalog.filter_spatial',
    'csep.core.catalogs.AbstractBaseCatalog.spatial_counts',
    'csep.core.regions.CartesianGrid2D._build_bitmask_vec',
    'csep.core.regions.CartesianGrid2D.__init__',
    'csep.core.regions.CartesianGrid2D.get_cartesian',
    'csep.core.regions.CartesianGrid2D.get_location_of',
]
ORACLE_MODULES = ['rt.oracles_grid']
BOUNDED = os.path.exists(os.path.join(os.path.dirname(__file__), '..', 'rt', 'bounded_C01.py'))
FLOAT_MODEL = ('R: coordinates and lattice are reals, eps = 2^-52 exactly; the tolerance zone granted below a cell boundary is '
               '1e-11*(|v| + (c+2)|anchor|); bit-exact behaviour at general edges is bounded only')
TRUSTED = [
    'representation invariant RI (xs/ys equally spaced, idx_map/bbox_mask describe the cells) is a PRECONDITION of the lookup contracts and '
    'the POSTCONDITION of the constructor contract (_build_bitmask_vec: any set of distinct lattice cells, any order, holes, mask flags; loop invariant); '
    'inside it cleaner_range is an ASSUMED contract (edges start + k*h: its decimal-string scaling is outside the engine, its exactness on decimal grids is bounded, C02); '
    'NaN fills of the index map are unspecified numbers (nothing tests them); Polygon records carry their origin and four corners',
    'bin1d_vec contract (proved in the same run: the cone includes it)',
    'numpy fancy indexing a[I, J] with negative wrap, numpy.any, numpy.where',
    'pyvc engine, z3 5.1',
]
ASSUMPTIONS = [
    'lattices with at least two rows and two columns (single row/column: bin1d_vec switches to its open-ended single-edge rule - finding D16)',
    'dh > 4*|anchor|*2^-51 (spacing not lost in the round-off of the anchor); for the constructor: half a cell exceeds the binning tolerance at every cell midpoint',
    'floats as reals',
]
EXPLANATION = ('get_index_of: a point inside the half-open cell of an active cell i gets index i; every reported index is an active cell that contains '
               'the point (up to the tolerance zone below its lower edges); ValueError only for a point inside no active cell; get_masked: same '
               'partition; spatial_counts counts by that attribution; _build_bitmask_vec establishes RI: cell j is found at its lattice position, '
               'unmasked iff not flagged out, every other lattice position (holes, flagged-out cells) is masked, the edges are the lattice columns / rows')
TECHNIQUE = ('contracts on the real methods against a ghost lattice view (representation invariant), bin1d_vec contract instantiated at the '
             'cell coordinates, z3; bounded lattice/ulp sweeps as labelled stand-in')
LEVEL_TEXT = ('proof (model R) of the lookup/mask/count methods against the representation invariant for arbitrary lattices (any number of '
              'cells, holes, flags, cell order) and arbitrary point arrays, and of the constructor establishing that invariant (cleaner_range assumed); float edge behaviour bounded only')
LEVEL_NOTE = 'RI established by the constructor contract (cleaner_range assumed) and used as precondition of the lookups; floats as reals; >= 2 rows and columns; numpy indexing semantics assumed'
