ID = 'C09'
LEVEL = 'proof'
CONTRACT_MODULES = ['contracts.stats']
CONE = [
    'csep.utils.stats.ecdf',
    'csep.utils.stats.greater_equal_ecdf',
    'csep.utils.stats.less_equal_ecdf',
    'csep.utils.stats.get_quantiles',
    'csep.utils.stats.binned_ecdf',
]
BOUNDED = True
FLOAT_MODEL = 'R: the single division count/n is a real division in code and spec alike'
TRUSTED = [
    'numpy.sort: sorted permutation (assumed contract, DESIGN 3)',
    'numpy.searchsorted: partition point of a sorted array, side left/right (assumed contract)',
    'numpy.arange / elementwise division / a[::-1] / a[i] with negative wrap (assumed contracts)',
    'lemma library L3 (counting on a partitioned array, bounds, #>= + #<= = n + #=), L5 (permutation preserves counts): '
    'stated as SMT axioms in pyvc/spec.py, proved in lemmas/Counting.lean',
    'pyvc engine, z3 5.1',
]
ASSUMPTIONS = [
    'floats are mathematical reals (no NaN/inf in samples or queries); count/n division treated as exact real division',
    'numpy.sort / searchsorted / arange behave as their assumed contracts (sampled by the bounded layer on the real library)',
    'the counting lemmas L3/L5 handed to the solver as axioms are the statements proved in lemmas/Counting.lean (hand transcription)',
]
EXPLANATION = ('postconditions value == #{x_i >= v}/n and #{x_i <= v}/n proved for every path of the real '
               'greater_equal_ecdf / less_equal_ecdf (both short-circuits, both call shapes, int and float samples) '
               'for arrays of arbitrary length; get_quantiles / binned_ecdf proved against those contracts')
TECHNIQUE = 'contracts on the real functions; VCs from the AST discharged by z3 (unbounded arrays); counting lemmas; bounded small-scope run-time contract as labelled stand-in'
LEVEL_TEXT = ('proof: every path of greater_equal_ecdf / less_equal_ecdf / ecdf / get_quantiles / binned_ecdf in the working tree is '
              'symbolically executed and the postcondition value == #{x_i >= v}/n (resp. <=) is discharged by z3 for samples of '
              'arbitrary length, int and float, both call shapes; consequences (sum = 1 + #=/n, range) proved from the contracts')
LEVEL_NOTE = ('floats as reals (no NaN/inf); numpy.sort/searchsorted/arange assumed by contract and sampled; counting lemmas L3/L5 '
              'as axioms (Lean statements in lemmas/); engine + z3 trusted')
