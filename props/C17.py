import os
ID = 'C17'
LEVEL = 'exploration'
CONTRACT_MODULES = []
CONE = []
ORACLE_MODULES = ['rt.oracles_io']
BOUNDED = os.path.exists(os.path.join(os.path.dirname(__file__), '..', 'rt', 'bounded_C17.py'))
FLOAT_MODEL = 'n/a (concrete executions)'
TRUSTED = ['the oracles in rt/ compute the expected outcome from the property statement, independently of the code under test', 'pyvc engine, z3 5.1']
ASSUMPTIONS = ['the functions of this property are outside the deductive reach of the engine in this round (generators, file readers, recursion over tiles, whole-test pipelines): every clause is decided by the bounded run-time contract only; see DESIGN.md section 10']
EXPLANATION = 'single-resolution grids zoom 1..6/8, catalog-driven refinement, prefix-free quadkey sets: disjointness, coverage, unique containing cell, threshold criterion, area sum - run-time contract'
TECHNIQUE = 'bounded stand-in: run-time form of the contracts on the real code (small-scope enumeration + directed cases), labelled bounded, nothing counted as proved'
LEVEL_TEXT = 'exploration: bounded run-time contract on the real code; no clause of this property is claimed as proved'
LEVEL_NOTE = 'bounded only; oracle independence trusted'
