import os
ID = 'C17'
LEVEL = 'proof'
CONTRACT_MODULES = ['contracts.quadtree']
CONE = ['csep.core.regions._create_tile_fix_len', 'csep.core.regions._create_tile', 'csep.core.regions.QuadtreeGrid2D._find_location']
ORACLE_MODULES = ['rt.oracles_io', 'rt.oracles_contracts']
BOUNDED = os.path.exists(os.path.join(os.path.dirname(__file__), '..', 'rt', 'bounded_C17.py'))
FLOAT_MODEL = 'R; tile edges are abstract reals constrained by the mercantile partition contract'
TRUSTED = ['mercantile.quadkey_to_tile / bounds: the four children of a non-empty tile are non-empty half-open rectangles that share its outer edges and one common mid-line each way (assumed contract; division by 2^z is exact so shared edges are identical floats)', 'quadkey strings are modelled as abstract tiles: quadk + digit = child, len(quadk) = depth', 'the oracles in rt/ compute the expected outcome from the property statement, independently of the code under test', 'pyvc engine, z3 5.1']
ASSUMPTIONS = ['the functions of this property are outside the deductive reach of the engine in this round (generators, file readers, recursion over tiles, whole-test pipelines): every clause is decided by the bounded run-time contract only; see DESIGN.md section 10']
EXPLANATION = 'deductive: recursion contracts + point location; bounded: single-resolution grids zoom 1..6/8, catalog-driven refinement, prefix-free quadkey sets: disjointness, coverage, unique containing cell, threshold criterion, area sum - run-time contract'
TECHNIQUE = 'contracts on the real recursive functions (ghost set of appended keys, leaf function, measure), assumed mercantile partition contract, z3; bounded stand-in: run-time form of the contracts on the real code (small-scope enumeration + directed cases), labelled bounded, nothing counted as proved'
LEVEL_TEXT = 'proof (structural induction, recursive calls through the own contract of the function at a smaller measure): the leaves appended by _create_tile_fix_len / _create_tile partition the starting tile (coverage + pairwise disjointness by a ghost leaf function), have the prescribed length, record their own event count, exceed the threshold only at the maximum zoom, and a tile at or below the threshold is never split; _find_location returns the first (for disjoint cells: the unique) cell whose half-open bounds contain the point, or the empty array. Assembly of the four roots, areas and the class constructors are bounded only'
LEVEL_NOTE = 'bounded only; oracle independence trusted'
