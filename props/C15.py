import os
ID = 'C15'
LEVEL = 'proof'
CONTRACT_MODULES = ['contracts.time_utils']
CONE = [
    'csep.utils.time_utils.epoch_time_to_utc_datetime',
    'csep.utils.time_utils.datetime_to_utc_epoch',
    'lemma:csep.utils.time_utils.round_trips',
    'lemma:csep.utils.time_utils.datetime_to_utc_epoch.monotone',
    'csep.utils.time_utils.decimal_year',
]
ORACLE_MODULES = ['rt.oracles_time']
BOUNDED = os.path.exists(os.path.join(os.path.dirname(__file__), '..', 'rt', 'bounded_C15.py'))
FLOAT_MODEL = ('E: every float operation is one IEEE-754 round-to-nearest of the exact result (uninterpreted fl with error bound '
               '2^-53|t|, half-ulp bounds per binade, exactness on integers < 2^53); datetime = integer microseconds')
TRUSTED = [
    'datetime.fromtimestamp(x, utc) = modf + one rounded product by 1e6 + round-half-even + carry (CPython _PyTime_DoubleToDenominator, read from source)',
    'timedelta arithmetic exact in integer microseconds; timedelta // timedelta = floor division of microseconds',
    'os.name != "nt" (platform assumption: the Windows branch of epoch_time_to_utc_datetime is not analysed)',
    'pyvc engine, z3 5.1',
]
ASSUMPTIONS = [
    'epoch milliseconds within +-(2^33-1)*1000 (covers 1900-01-01..2200-01-01): the half-ulp bound 2^-21 s of m/1000 is what makes the microsecond rounding exact',
    'float operations are finite, no overflow/underflow (model E)',
    'decimal_year is proved in model R over a civil date-time record (year, month, ..., microsecond as the datetime attributes the function reads; calendar.isleap / monthrange modelled by the Gregorian rules; the constant 1e-6 is the double the code uses): value == year + elapsed seconds / seconds of the leap-aware year; its rounding, strict monotonicity across floats and the inverse decimal_year_to_utc_datetime are bounded only',
    'strptime / str(datetime) (string layer) and parse_string_format are NOT under proof: string handling is outside the engine subset - bounded stand-in only, never counted as proved',
]
EXPLANATION = ('epoch_time_to_utc_datetime: the returned datetime has exactly 1000*m microseconds (model E, |m| < 2^33 s); datetime_to_utc_epoch: '
               'exact for whole milliseconds, within one millisecond otherwise, naive taken as UTC, non-UTC tz raises ValueError; round trips and '
               'monotonicity as lemmas over the two contracts / relational execution of the real body; decimal_year == year + elapsed fraction of the leap-aware Gregorian year (12 month cases)')
TECHNIQUE = ('contracts on the real functions; VCs from the AST under an axiomatised IEEE rounding model, discharged by z3; lemmas over the contracts; '
             'bounded millisecond windows as labelled stand-in for the string/calendar functions')
LEVEL_TEXT = ('proof for the epoch<->datetime conversions (exactness, round trips, monotonicity) over all integer milliseconds in the range; '
              'decimal_year formula (model R); string parsing and the inverse decimal-year function are bounded only and labelled so')
LEVEL_NOTE = 'CPython datetime semantics assumed (fromtimestamp rounding rule, exact timedelta arithmetic); model E for floats; platform posix'
