import os
ID = 'C13'
LEVEL = 'other'
CONTRACT_MODULES = ['contracts.catforecast']
CONE = ['csep.core.forecasts.CatalogForecast.__next__']
ORACLE_MODULES = ['rt.oracles_catfc']
BOUNDED = os.path.exists(os.path.join(os.path.dirname(__file__), '..', 'rt', 'bounded_C13.py'))
FLOAT_MODEL = 'n/a (concrete executions)'
TRUSTED = ['the oracles in rt/ compute the expected outcome from the property statement, independently of the code under test', 'pyvc engine, z3 5.1']
ASSUMPTIONS = ['the functions of this property are outside the deductive reach of the engine in this round (generators, file readers, recursion over tiles, whole-test pipelines): every clause is decided by the bounded run-time contract only; see DESIGN.md section 10']
EXPLANATION = 'deductive: step relation of __next__ on abstract catalogs (keys), list-backed and generator-backed, store on/off, filters on/off; bounded: all operation histories up to length 3 (quick) / 4 (thorough) over {iterate, get_event_counts, get_expected_rates, spatial/magnitude counts, tests} x 4 configurations: run-time contract of CatalogForecast'
TECHNIQUE = 'contract (step relation + bookkeeping invariant) on the real __next__ over symbolic-length lists and an abstract generator, z3; bounded stand-in: run-time form of the contracts on the real code (small-scope enumeration + directed cases), labelled bounded, nothing counted as proved'
LEVEL_TEXT = 'other: the step relation of CatalogForecast.__next__ (which catalog is yielded, filters applied iff configured, cursor, per-pass event counts, caching, mode switch at the end of a pass) is proved for forecasts of arbitrary length in five configurations; that complete passes repeat (induction over the step relation, idempotence of filtering = lemma L6_filter_idem) and the operations built on iteration (get_event_counts, get_expected_rates, tests) are decided by the bounded run-time contract'
LEVEL_NOTE = 'bounded only; oracle independence trusted'
