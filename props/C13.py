import os
ID = 'C13'
LEVEL = 'other'
CONTRACT_MODULES = ['contracts.catforecast']
CONE = ['csep.core.forecasts.CatalogForecast.__next__', 'csep.core.forecasts.CatalogForecast.get_event_counts',
        'csep.core.forecasts.CatalogForecast.get_expected_rates']
ORACLE_MODULES = ['rt.oracles_catfc']
BOUNDED = os.path.exists(os.path.join(os.path.dirname(__file__), '..', 'rt', 'bounded_C13.py'))
FLOAT_MODEL = 'n/a (concrete executions)'
TRUSTED = ['the oracles in rt/ compute the expected outcome from the property statement, independently of the code under test', 'pyvc engine, z3 5.1']
ASSUMPTIONS = ['the step relation of __next__ is proved for list-backed and generator-backed forecasts; complete passes (get_event_counts, get_expected_rates, the catalog-based tests) are cut by the PASS invariant: by induction over the proved step relation and idempotence of filtering (lemma L6_filter_idem) a pass started at cursor 0 yields the (filtered) catalogs 0..J-1 in order and leaves the per-pass counts and the cursor as recorded - the induction itself is a hand argument over the proved step, not a machine-checked obligation', 'get_event_counts / get_expected_rates are proved for list-backed forecasts that know their length; generator-backed passes and arbitrary operation histories are covered by the bounded run-time contract']
EXPLANATION = 'deductive: step relation of __next__ on abstract catalogs (keys), list-backed and generator-backed, store on/off, filters on/off; get_event_counts == sizes of the catalogs of one pass with the configured filters applied (also when the catalogs are held in memory), cached counts returned as they are; get_expected_rates == per-bin mean of the space-magnitude counts over the pass (loop invariant with the summation lemma), cached object returned on later requests; bounded: all operation histories up to length 3 (quick) / 4 (thorough) over {iterate, get_event_counts, get_expected_rates, spatial/magnitude counts, tests} x 4 configurations: run-time contract of CatalogForecast'
TECHNIQUE = 'contract (step relation + bookkeeping invariant) on the real __next__ over symbolic-length lists and an abstract generator, z3; bounded stand-in: run-time form of the contracts on the real code (small-scope enumeration + directed cases), labelled bounded, nothing counted as proved'
LEVEL_TEXT = 'other: the step relation of CatalogForecast.__next__ (which catalog is yielded, filters applied iff configured, cursor, per-pass event counts, caching, mode switch at the end of a pass) is proved for forecasts of arbitrary length in five configurations; that complete passes repeat (induction over the step relation, idempotence of filtering = lemma L6_filter_idem) and the operations built on iteration (get_event_counts, get_expected_rates, tests) are decided by the bounded run-time contract'
LEVEL_NOTE = 'bounded only; oracle independence trusted'
