import os
ID = 'C13'
LEVEL = 'exploration'
CONTRACT_MODULES = []
CONE = []
ORACLE_MODULES = ['rt.oracles_catfc']
BOUNDED = os.path.exists(os.path.join(os.path.dirname(__file__), '..', 'rt', 'bounded_C13.py'))
FLOAT_MODEL = 'n/a (concrete executions)'
TRUSTED = ['the oracles in rt/ compute the expected outcome from the property statement, independently of the code under test', 'pyvc engine, z3 5.1']
ASSUMPTIONS = ['the functions of this property are outside the deductive reach of the engine in this round (generators, file readers, recursion over tiles, whole-test pipelines): every clause is decided by the bounded run-time contract only; see DESIGN.md section 10']
EXPLANATION = 'all operation histories up to length 3 (quick) / 4 (thorough) over {iterate, get_event_counts, get_expected_rates, spatial/magnitude counts, tests} x 4 configurations: run-time contract of CatalogForecast'
TECHNIQUE = 'bounded stand-in: run-time form of the contracts on the real code (small-scope enumeration + directed cases), labelled bounded, nothing counted as proved'
LEVEL_TEXT = 'exploration: bounded run-time contract on the real code; no clause of this property is claimed as proved'
LEVEL_NOTE = 'bounded only; oracle independence trusted'
