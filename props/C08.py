import os
ID = 'C08'
LEVEL = 'other'
CONTRACT_MODULES = ['contracts.evals', 'contracts.calc']
CONE = ['csep.core.poisson_evaluations._t_test_ndarray', 'csep.core.forecasts.MarkedGriddedDataSet.get_magnitude_index']
ORACLE_MODULES = ['rt.oracles_eval', 'rt.oracles_contracts']
BOUNDED = os.path.exists(os.path.join(os.path.dirname(__file__), '..', 'rt', 'bounded_C08.py'))
FLOAT_MODEL = 'R; log, sqrt, t.ppf uninterpreted'
TRUSTED = ['scipy.stats.t.ppf, numpy.log/sqrt/power element-wise', 'pyvc engine, z3 5.1']
ASSUMPTIONS = ['antisymmetry / self-comparison follow from the proved formulas by algebra (not re-proved per run); W-test, binary T-test, target_event_rates and definedness with the installed dependency versions: bounded only']
EXPLANATION = '_t_test_ndarray: information gain (eq. 17), variance (eq. 18), t statistic, critical value and interval exactly as in Rhoades et al. (2011), for rate vectors of arbitrary length; magnitude index lookup used by target_event_rates (C02 contract)'
TECHNIQUE = 'contract on the real function (formula level), z3; bounded run-time contracts for the public tests (incl. that they return with the installed scipy/numpy)'
LEVEL_TEXT = 'other: T-test formulas proved; W-test, binary variant and definedness are bounded only'
LEVEL_NOTE = 'formula level only; rest bounded'
