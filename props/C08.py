import os
ID = 'C08'
LEVEL = 'other'
CONTRACT_MODULES = ['contracts.evals', 'contracts.calc', 'contracts.regions', 'contracts.catalogs', 'contracts.forecasts']
CONE = ['csep.core.poisson_evaluations._t_test_ndarray', 'csep.core.poisson_evaluations.paired_t_test', 'csep.core.poisson_evaluations.w_test', 'csep.core.poisson_evaluations._w_test_ndarray',
        'csep.core.forecasts.GriddedForecast.target_event_rates',
        'lemma:C08:_t_test_ndarray is antisymmetric in the two forecasts', 'lemma:C08:a forecast compared with itself has zero information gain',
        'csep.core.forecasts.MarkedGriddedDataSet.get_magnitude_index']
ORACLE_MODULES = ['rt.oracles_eval', 'rt.oracles_contracts']
BOUNDED = os.path.exists(os.path.join(os.path.dirname(__file__), '..', 'rt', 'bounded_C08.py'))
FLOAT_MODEL = 'R; log, sqrt, t.ppf uninterpreted'
TRUSTED = ['scipy.stats.t.ppf, numpy.log/sqrt/power element-wise', 'pyvc engine, z3 5.1']
ASSUMPTIONS = ['antisymmetry (gain and t statistic negated, interval mirrored, for samples with a non-zero standard deviation) and the zero gain of a self-comparison are lemmas over the proved contract of _t_test_ndarray, re-proved on every run (Lean: L4_sum_neg)', '_w_test_ndarray is proved against the Wilcoxon signed-rank definition on the non-zero differences (midranks of |d| as the assumed contract of scipy.stats.rankdata(method=average), numpy.unique(return_counts) as groups with their sizes, tie correction sum_groups c(c^2-1) == sum_i (c_i^2-1) by the weighted fibre-sum lemma, normal approximation without continuity correction, p = 2 sf(|z|) in [0,1] from the assumed range of norm.sf); invariance of the W-test under swapping the forecasts, the binary T variant and definedness with the installed dependency versions are bounded only', 'GriddedForecast.target_event_rates is proved for lattice regions satisfying RI with >= 2 rows and columns and equally spaced magnitude edges']
EXPLANATION = '_t_test_ndarray: information gain (eq. 17), variance (eq. 18), t statistic, critical value and interval exactly as in Rhoades et al. (2011), for rate vectors of arbitrary length; paired_t_test / w_test: both forecasts asked with the same scale flag, forecast before benchmark, N = observed count, W-test sample = log-rate differences with null median (N_A-N_B)/N, result fields; target_event_rates: rate of event e = (scaled) rate of the bin the region / magnitude lookups attribute it to, total = sum of (scaled) rates, forecast unmodified'
TECHNIQUE = 'contracts on the real functions (kernel formulas, public plumbing with modular use of the kernel contracts, target_event_rates over the region and bin1d_vec contracts), z3; bounded run-time contracts for the public tests (incl. that they return with the installed scipy/numpy)'
LEVEL_TEXT = 'other: T-test formulas, public T/W plumbing and target-event rates proved; W-test kernel proved against the signed-rank definition; swap invariance of W, binary variant and definedness are bounded only'
LEVEL_NOTE = 'formula level only; rest bounded'
