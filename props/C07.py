import os
ID = 'C07'
LEVEL = 'proof'
CONTRACT_MODULES = ['contracts.stats', 'contracts.evals', 'contracts.catforecast', 'contracts.cateval']
CONE = ['csep.core.poisson_evaluations._number_test_ndarray', 'csep.core.poisson_evaluations.number_test', 'csep.core.binomial_evaluations._nbd_number_test_ndarray', 'csep.core.binomial_evaluations.negative_binomial_number_test', 'csep.utils.stats.get_quantiles', 'csep.utils.stats.greater_equal_ecdf', 'csep.utils.stats.less_equal_ecdf', 'csep.core.catalog_evaluations.number_test']
ORACLE_MODULES = ['rt.oracles_eval', 'rt.oracles_contracts', 'rt.oracles_catfc']
BOUNDED = os.path.exists(os.path.join(os.path.dirname(__file__), '..', 'rt', 'bounded_C07.py'))
FLOAT_MODEL = 'R: obs_cnt -/+ 1e-6 is exact, floor(n - 1e-6) = n - 1 for integer n (the float error of n - 1e-6 is < 1e-10 for n <= 1e5: assumed)'
TRUSTED = ['scipy.stats.poisson.cdf(x, mu) = F_mu(floor(x)), nbinom.cdf(x, n, p) = F_{n,p}(floor(x)), both in [0,1], 0 below 0, non-decreasing in x (assumed contract, sampled by the bounded layer against sf/cdf)', 'monotonicity of the tails in the forecast mean is a fact about the Poisson/NB families, not about code: not machine-checked', 'pyvc engine, z3 5.1']
ASSUMPTIONS = ['observed count is an integer >= 0; forecast total > 0; NBD variance > mean', 'floats as reals', 'catalog N-test: quantiles by the C09 contracts (same cone); the catalog-based number_test itself (one entry per synthetic catalog = its event count with the configured filters, observed count, quantiles from get_quantiles at the observed count) is under contract over the pass invariant (same contract as in C10)']
EXPLANATION = 'delta1 = 1 - F(n-1) = P(N >= n), delta2 = F(n) for the Poisson and the negative-binomial law with the prescribed mean and variance (parameter identities tau(1-u)/u = mean, tau(1-u)/u^2 = var proved in NRA); delta1 + delta2 = 1 + pmf(n); both in [0,1]; the public tests pass the catalog size and the forecast total and store (delta1, delta2); empirical version by the C09 contracts'
TECHNIQUE = 'contracts on the real functions, distribution functions uninterpreted with their algebraic facts, z3 (NRA for the NB parameters); bounded comparison with scipy sf/cdf as labelled stand-in'
LEVEL_TEXT = 'proof of the tail-probability formulas and of the plumbing of the public number tests for all totals / counts / variances; the catalog-based N-test as plumbing over the pass invariant and the empirical quantiles; numerical agreement with scipy is bounded only'
LEVEL_NOTE = 'cdf contracts assumed; floats as reals; tail monotonicity in the mean not machine-checked'
