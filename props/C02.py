ID = 'C02'
LEVEL = 'proof'
CONTRACT_MODULES = ['contracts.calc', 'contracts.regions', 'contracts.catalogs']
CONE = [
    'csep.utils.calc.bin1d_vec',
    'csep.core.forecasts.MarkedGriddedDataSet.get_magnitude_index',
    'csep.utils.calc.discretize',
    'csep.core.catalogs.AbstractBaseCatalog.get_mag_idx',
]
BOUNDED = True
FLOAT_MODEL = ('R: float64/float32 values are reals, numpy.finfo(dtype).eps is the exact rational 2^-52 / 2^-23; the tolerance terms '
               'are kept as the code forms them. Bit-exact behaviour at a general edge is NOT proved (bounded ulp sweep, labelled)')
TRUSTED = [
    'numpy element-wise arithmetic, floor, abs, boolean-mask assignment, astype(int64), finfo: assumed contracts (DESIGN 3)',
    'real division: (N/D)*D = N for D != 0 (stated as a fact for the non-linear core)',
    'pyvc engine, z3 5.1',
]
ASSUMPTIONS = [
    'machine arithmetic treated as mathematical (model R): no rounding in p - a0 + tol, in the division, or in a0 + k*h',
    'precondition of the contract: h > 4*|a0|*(eps_bins + eps_p)  (the spacing is not lost in the round-off of the anchor; the code divides by h - |a0|*eps)',
    'an explicit tol satisfies 0 <= 4*tol < h',
    'cleaner_range / magnitude_bins (edge generators: string handling of str(float)) are outside the engine subset: covered by the bounded '
    'stand-in only (decimal-grid exactness on named and random grids), never counted as proved',
    'tolerance granted below an edge: 1e-11*(|v| + (k+2)|a0|) for float64 (1e-5 for float32) - the property\'s "relative distance of order 1e-12, '
    'growing linearly with the bin index"; the code\'s own term eps*(|v| + (k+2)|a0|) is far inside it',
]
EXPLANATION = ('element-wise postconditions of bin1d_vec against binof (lower-inclusive for every edge index k, upper-exclusive up to the granted '
               'tolerance, -1 below the first edge, open top bin, closed top out of range, first edge, monotone, ValueError iff decreasing edges) '
               'proved for arrays of arbitrary length and symbolic grids (a0, h, n) in 6 call shapes; get_magnitude_index proved against that contract')
TECHNIQUE = ('contracts on the real functions; VCs from the AST over lambda-lifted numpy arrays discharged by z3 (NRA with proof-step hints); '
             'counter-models replayed natively; bounded ulp sweep of the run-time contract as labelled stand-in')
LEVEL_TEXT = ('proof (model R): every path of bin1d_vec in the working tree is executed symbolically for arrays of arbitrary length and an arbitrary '
              'equally spaced grid; each clause of the binning contract is an SMT obligation discharged by z3. Edge generators and bit-exact '
              'float behaviour are bounded only and labelled so.')
LEVEL_NOTE = ('floats as reals; grid precondition h > 4|a0|(eps+eps); numpy element-wise semantics assumed; cleaner_range/magnitude_bins bounded only; '
              'engine + z3 trusted')
