"""Bounded stand-in for C19: files generated from random event lists in each text format (CSEP CSV,
ZMAP, JMA CSV, INGV HORUS, NDK), 1..N records, loaded through csep.load_catalog(type=...)."""
import calendar
import random

from .tally import Tally
from . import oracles_io  # noqa: F401

FORMATS = ['csep-csv', 'zmap', 'jma-csv', 'ingv_horus', 'ndk']


def dec(rng, lo, hi, places):
    v = rng.randint(int(lo * 10 ** places), int(hi * 10 ** places))
    s = '%d' % abs(v)
    s = s.rjust(places + 1, '0')
    s = (s[:-places] + '.' + s[-places:]) if places else s
    return ('-' if v < 0 else '') + s


def rand_date(rng, fmt):
    r = rng.random()
    if r < 0.15:
        y = rng.choice([1904, 1960, 2000, 2020, 2096])
        return y, 2, 29
    if r < 0.3:
        y = rng.randint(1901, 2099)
        return rng.choice([(y, 12, 31), (y, 1, 1), (y, 2, 28), (y, 3, 1), (y, 6, 30)])
    y = rng.randint(1901, 2099)
    m = rng.randint(1, 12)
    return y, m, rng.randint(1, calendar.monthrange(y, m)[1])


def rand_event(rng, fmt, rollover=False):
    y, m, d = rand_date(rng, fmt)
    h, mi = rng.randint(0, 23), rng.randint(0, 59)
    if rng.random() < 0.2:
        h, mi = rng.choice([(23, 59), (0, 0), (12, 59), (23, 0)])
    places = {'csep-csv': rng.choice([0, 3, 6]), 'zmap': 0, 'jma-csv': rng.choice([2, 6]), 'ingv_horus': 2, 'ndk': 1}[fmt]
    frac_places = min(places, 3)
    sec = dec(rng, 0, 59.999, frac_places) if frac_places else str(rng.randint(0, 59))
    if rng.random() < 0.15:
        sec = rng.choice(['0', '59']) + ('.' + '0' * frac_places if frac_places else '')
    if rng.random() < 0.15 and frac_places:
        sec = rng.choice(['59', '0', '30']) + '.' + '9' * frac_places
    if places > frac_places:
        sec += '0' * (places - frac_places)
    if rollover:
        # seconds written as 60 (NDK: 60.0; HORUS: minutes / seconds >= 60 as in the shipped sample)
        if fmt == 'ndk':
            sec = '60.0'
        elif fmt == 'ingv_horus':
            k = rng.random()
            if k < 0.4:
                sec = '60.00'
            elif k < 0.7:
                sec = dec(rng, 60, 69.99, 2)
            else:
                mi, sec = 60, dec(rng, 60, 69.99, 2)
    ev = {'t': [y, m, d, h, mi, sec]}
    cp = {'csep-csv': rng.choice([1, 4, 7]), 'zmap': rng.choice([2, 4]), 'jma-csv': 4, 'ingv_horus': 4, 'ndk': 2}[fmt]
    full = rng.random() < 0.25
    ev['lon'] = rng.choice(['-180.0', '179.99', '0.0', '180.0']) if full else dec(rng, -180, 180, cp)
    ev['lat'] = rng.choice(['-90.0', '90.0', '0.0', '-0.01']) if full else dec(rng, -90, 90, cp)
    if fmt == 'ndk':
        ev['lon'] = dec(rng, -180, 180, 2)
        ev['lat'] = dec(rng, -90, 90, 2)
        ev['depth'] = dec(rng, 0, 700, 1)
        ev['m0'] = dec(rng, 1, 9.999, 3)
        ev['exp'] = rng.randint(23, 29)
        ev['mag'] = '0'
    else:
        ev['depth'] = dec(rng, 0, 700, rng.choice([1, 2])) if rng.random() < 0.9 else '0.00'
        ev['mag'] = rng.choice(['5.95', '4.95', '3.0', '9.5', '0.1']) if rng.random() < 0.3 else dec(rng, 0.1, 9.9, rng.choice([1, 2, 3]))
    if fmt == 'jma-csv':
        ev['tz'] = rng.choice(['+0900', '+0900', '+0000', '-0800', '+0530', '+1245', '-0330'])
    if fmt == 'csep-csv':
        ev['id'] = rng.choice(['', 'ev%d' % rng.randint(0, 999), 'a b'])
    return ev


def run(tier, seed):
    rng = random.Random(seed)
    T = Tally(max_fail=8)
    reps = 40 if tier == 'quick' else 3000
    # directed minimal records first (the tally keeps the first failures); coordinates exact in float32
    loc = {'lon': '13.0', 'lat': '42.5', 'depth': '10.0', 'mag': '3.5'}
    T.run('catalog_reader', {'fmt': 'zmap', 'events': [dict(loc, t=[2011, 3, 11, 5, 46, '24']), dict(loc, t=[2011, 3, 11, 6, 15, '40'])]},
          key=('D11', 'zmap two records'))
    T.run('catalog_reader', {'fmt': 'zmap', 'events': [dict(loc, t=[2011, 3, 11, 5, 46, '24'])]}, key=('zmap one record',))
    T.run('catalog_reader', {'fmt': 'ingv_horus', 'events': [dict(loc, t=[2017, 4, 22, 4, 42, '58.06']), dict(loc, t=[2020, 9, 22, 10, 60, '64.29'])]},
          key=('D15', 'horus fractional seconds'))
    T.run('catalog_reader', {'fmt': 'ingv_horus', 'events': [dict(loc, t=[2017, 4, 22, 4, 42, '58.00'], lat='42.9043', lon='13.0005', depth='11.1', mag='5.95'),
                                                            dict(loc, t=[2017, 4, 22, 4, 43, '0.00'])]}, key=('horus float32 columns',))
    T.run('catalog_reader', {'fmt': 'ingv_horus', 'events': [dict(loc, t=[2017, 4, 22, 4, 42, '58.00'])]}, key=('horus one record',))
    nd = {'lon': '-88.78', 'lat': '13.78', 'depth': '193.1', 'm0': '1.312', 'exp': 23, 'mag': '0'}
    T.run('catalog_reader', {'fmt': 'ndk', 'events': [dict(nd, t=[2005, 1, 1, 1, 20, '05.4'])]}, key=('ndk tenths of seconds',))
    T.run('catalog_reader', {'fmt': 'ndk', 'events': [dict(nd, t=[2005, 1, 1, 1, 20, '60.0']), dict(nd, t=[2005, 12, 31, 23, 59, '60.0'])]},
          key=('ndk seconds 60',))
    T.run('catalog_reader', {'fmt': 'jma-csv', 'events': [dict(loc, t=[1919, 11, 10, 22, 31, '03.590000'], tz='+0900'),
                                                         dict(loc, t=[2000, 1, 1, 0, 0, '00.001000'], tz='-0330')]}, key=('jma offsets',))
    for fmt in FORMATS:
        # directed: one record, two records, the D15 / rollover records
        base = rand_event(random.Random(1), fmt)
        T.run('catalog_reader', {'fmt': fmt, 'events': [base]}, key=(fmt, 'one'))
        T.run('catalog_reader', {'fmt': fmt, 'events': [base, rand_event(random.Random(2), fmt)]}, key=(fmt, 'two'))
        T.run('catalog_reader', {'fmt': fmt, 'events': [base, rand_event(random.Random(2), fmt)], 'via': 'reader'}, key=(fmt, 'two-reader'))
        if fmt in ('ndk', 'ingv_horus'):
            for r in range(6 if tier == 'quick' else 60):
                evs = [rand_event(rng, fmt), rand_event(rng, fmt, rollover=True), rand_event(rng, fmt)]
                T.run('catalog_reader', {'fmt': fmt, 'events': evs}, key=(fmt, 'roll', r))
        if fmt == 'ingv_horus':
            e = dict(base)
            e['t'] = [2017, 4, 22, 4, 42, '58.00']
            T.run('catalog_reader', {'fmt': fmt, 'events': [e, e]}, key=(fmt, 'whole-second'))
            e = dict(base)
            e['t'] = [2017, 4, 22, 4, 42, '58.06']
            T.run('catalog_reader', {'fmt': fmt, 'events': [e, e]}, key=(fmt, 'D15'))
        for r in range(reps):
            n = rng.choice([1, 2, 3, 8, 30])
            evs = [rand_event(rng, fmt) for _ in range(n)]
            opts = {}
            if fmt == 'csep-csv':
                opts = {'header': rng.random() < 0.7, 'catalog_id': rng.choice(['', 0, 5])}
            if fmt == 'zmap':
                opts = {'yearfmt': rng.choice(['%d', '%d.0', '%.4f']), 'errors': rng.random() < 0.5, 'sep': rng.choice([' ', '\t', '   '])}
            if fmt == 'jma-csv':
                opts = {'header': rng.random() < 0.8}
            T.run('catalog_reader', {'fmt': fmt, 'events': evs, 'opts': opts}, key=(fmt, 'rand', r))
    return T.result(bound='5 formats x (1- and 2-record files, reader and csep.load_catalog paths, seconds-60 / roll-over records '
                          'for NDK and HORUS, %d random files of 1..30 records with optional columns / headers)' % reps)
