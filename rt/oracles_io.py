"""Oracles for the conversion / persistence properties C11, C14, C15, C17, C18, C19.

Every oracle takes JSON-able kwargs, writes its files into a tempfile.TemporaryDirectory(), runs
the real csep functions and returns the list of violated clauses.  Expected values are computed
from the property statements with integer / decimal / rational arithmetic, never by calling the
function under test."""
import datetime as _dt
import json
import math
import os
import random
import tempfile
from decimal import Decimal
from fractions import Fraction

import numpy

from .oracles import oracle, call, _exc

UTC = _dt.timezone.utc
EPOCH = _dt.datetime(1970, 1, 1, tzinfo=UTC)
ONE_US = _dt.timedelta(microseconds=1)
MAXBAD = 5


# ------------------------------------------------------------------ helpers (integer time)
def _dt_of_us(us, aware=True):
    """datetime of an integer number of microseconds since the epoch (exact)"""
    d = EPOCH + _dt.timedelta(microseconds=int(us))
    return d if aware else d.replace(tzinfo=None)


def _us_of_dt(d):
    """integer microseconds since the epoch of a naive(=UTC) or aware datetime (exact)"""
    if d.tzinfo is None:
        d = d.replace(tzinfo=UTC)
    return (d - EPOCH) // ONE_US


def _is_int(v):
    return isinstance(v, (int, numpy.integer)) and not isinstance(v, bool)


def _utc_dt_clause(what, got, us):
    """got must be a datetime denoting the instant `us`; if it carries a tzinfo it must be UTC"""
    if not isinstance(got, _dt.datetime):
        return '%s = %r is not a datetime' % (what, got)
    if got.tzinfo is not None and got.utcoffset() != _dt.timedelta(0):
        return '%s = %r is not in UTC' % (what, got)
    if _us_of_dt(got) != us:
        return '%s = %s, required %s' % (what, got.isoformat(), _dt_of_us(us).isoformat())
    return None


# ================================================================== C15
@oracle('time_epoch_window')
def _time_epoch_window(start, count, step=1):
    """every integer millisecond start + k*step (k < count): ms -> datetime -> ms, whole-ms datetime
    (aware and naive) -> ms -> datetime, strictly monotone"""
    from csep.utils import time_utils as tu
    import csep
    bad = []
    prev = None
    for k in range(int(count)):
        ms = int(start) + k * int(step)
        us = ms * 1000
        o = call(csep.epoch_time_to_utc_datetime, ms)
        if o[0] == 'raise':
            bad.append('epoch_time_to_utc_datetime(%d) raised %s' % (ms, _exc(o)))
        else:
            d = o[1]
            c = _utc_dt_clause('epoch_time_to_utc_datetime(%d)' % ms, d, us)
            if c:
                bad.append(c)
            if isinstance(d, _dt.datetime):
                o2 = call(csep.datetime_to_utc_epoch, d)
                if o2[0] == 'raise':
                    bad.append('datetime_to_utc_epoch(epoch_time_to_utc_datetime(%d)) raised %s' % (ms, _exc(o2)))
                elif not (_is_int(o2[1]) or isinstance(o2[1], float)) or o2[1] != ms:
                    bad.append('datetime_to_utc_epoch(epoch_time_to_utc_datetime(%d)) = %r, required %d' % (ms, o2[1], ms))
                if prev is not None and not (d > prev[1]):
                    bad.append('not monotone: epoch_time_to_utc_datetime(%d) = %s but (%d) = %s' % (prev[0], prev[1], ms, d))
                prev = (ms, d)
        for aware in (True, False):
            x = _dt_of_us(us, aware)
            o3 = call(tu.datetime_to_utc_epoch, x)
            if o3[0] == 'raise':
                bad.append('datetime_to_utc_epoch(%r) raised %s' % (x, _exc(o3)))
            elif o3[1] != ms:
                bad.append('datetime_to_utc_epoch(%s %s) = %r, required %d' % ('aware' if aware else 'naive', x.isoformat(), o3[1], ms))
        if len(bad) >= MAXBAD:
            break
    return bad[:MAXBAD]


@oracle('time_microsecond_phase')
def _time_microsecond_phase(base_ms, aware=True, phases=1000):
    """datetimes base + k microseconds, k = 0..phases: epoch lands within one millisecond, exact on
    whole milliseconds, monotone; the epoch converted back lies within one millisecond"""
    from csep.utils import time_utils as tu
    bad = []
    prev = None
    for k in range(int(phases) + 1):
        us = int(base_ms) * 1000 + k
        x = _dt_of_us(us, aware)
        o = call(tu.datetime_to_utc_epoch, x)
        if o[0] == 'raise':
            bad.append('datetime_to_utc_epoch(%s) raised %s' % (x.isoformat(), _exc(o)))
            continue
        e = o[1]
        if not (_is_int(e) or isinstance(e, float)):
            bad.append('datetime_to_utc_epoch(%s) = %r is not a number' % (x.isoformat(), e))
            continue
        if us % 1000 == 0 and e != us // 1000:
            bad.append('whole millisecond %s -> %r, required %d' % (x.isoformat(), e, us // 1000))
        elif abs(Fraction(e) * 1000 - us) >= 1000:
            bad.append('%s -> %r is not within one millisecond of %d us' % (x.isoformat(), e, us))
        if prev is not None and e < prev:
            bad.append('not monotone at %s: %r after %r' % (x.isoformat(), e, prev))
        prev = e
        if _is_int(e) or float(e).is_integer():
            o2 = call(tu.epoch_time_to_utc_datetime, int(e))
            if o2[0] == 'raise':
                bad.append('epoch_time_to_utc_datetime(%r) raised %s' % (e, _exc(o2)))
            elif not isinstance(o2[1], _dt.datetime) or abs(_us_of_dt(o2[1]) - us) >= 1000:
                bad.append('%s -> %r -> %r is not within one millisecond' % (x.isoformat(), e, o2[1]))
        if len(bad) >= MAXBAD:
            break
    return bad[:MAXBAD]


def _fmt_time(d, sep, frac):
    s = '%04d-%02d-%02d%s%02d:%02d:%02d' % (d.year, d.month, d.day, sep, d.hour, d.minute, d.second)
    if frac == 6:
        s += '.%06d' % d.microsecond
    elif frac == 3:
        s += '.%03d' % (d.microsecond // 1000)
    return s


@oracle('time_strings')
def _time_strings(ms_list):
    """formatted strings of whole-millisecond instants (6 / 3 / no fraction digits, with and without
    '+00:00', ' ' and 'T' separators) parse to the same epoch and the same UTC datetime"""
    from csep.utils import time_utils as tu
    import csep
    bad = []
    for ms in ms_list:
        ms = int(ms)
        d = _dt_of_us(ms * 1000)
        sec_ms = ms - ms % 1000
        cases = []  # (string, format or None, expected ms)
        for suffix in ('', '+00:00'):
            cases.append((_fmt_time(d, ' ', 6) + suffix, None, ms))
            cases.append((_fmt_time(d, ' ', 3) + suffix, None, ms))
            cases.append((_fmt_time(d, ' ', 0) + suffix, None, sec_ms))
        cases.append((_fmt_time(d, 'T', 6), '%Y-%m-%dT%H:%M:%S.%f', ms))
        cases.append((_fmt_time(d, 'T', 0), '%Y-%m-%dT%H:%M:%S', sec_ms))
        for s, fmt, exp in cases:
            kw = {} if fmt is None else {'format': fmt}
            o = call(tu.strptime_to_utc_epoch, s, **kw)
            if o[0] == 'raise':
                bad.append('strptime_to_utc_epoch(%r) raised %s' % (s, _exc(o)))
            elif o[1] != exp:
                bad.append('strptime_to_utc_epoch(%r) = %r, required %d' % (s, o[1], exp))
            o = call(csep.strptime_to_utc_datetime, s, **kw)
            if o[0] == 'raise':
                bad.append('strptime_to_utc_datetime(%r) raised %s' % (s, _exc(o)))
            else:
                c = _utc_dt_clause('strptime_to_utc_datetime(%r)' % s, o[1], exp * 1000)
                if c:
                    bad.append(c)
                elif o[1].tzinfo is None:
                    bad.append('strptime_to_utc_datetime(%r) is not timezone aware' % s)
        if len(bad) >= MAXBAD:
            break
    return bad[:MAXBAD]


@oracle('decimal_year_window')
def _decimal_year_window(start_ms, count, step_ms=1, aware=True):
    """instants start + k*step (whole milliseconds): decimal_year strictly increasing, the inverse
    (datetime and epoch form) within one millisecond of the instant"""
    from csep.utils import time_utils as tu
    bad = []
    prev = None
    for k in range(int(count)):
        ms = int(start_ms) + k * int(step_ms)
        x = _dt_of_us(ms * 1000, aware)
        o = call(tu.decimal_year, x)
        if o[0] == 'raise':
            bad.append('decimal_year(%s) raised %s' % (x.isoformat(), _exc(o)))
            continue
        y = o[1]
        if not isinstance(y, (float, numpy.floating)) or not math.isfinite(y):
            bad.append('decimal_year(%s) = %r is not a finite float' % (x.isoformat(), y))
            continue
        if prev is not None and not (y > prev[1]):
            bad.append('decimal_year not strictly increasing: %s -> %r, %s -> %r' % (prev[0].isoformat(), prev[1], x.isoformat(), y))
        prev = (x, y)
        o2 = call(tu.decimal_year_to_utc_datetime, y)
        if o2[0] == 'raise':
            bad.append('decimal_year_to_utc_datetime(%r) raised %s' % (y, _exc(o2)))
        elif not isinstance(o2[1], _dt.datetime) or abs(_us_of_dt(o2[1]) - ms * 1000) > 1000:
            bad.append('decimal_year_to_utc_datetime(decimal_year(%s)=%r) = %s, more than 1 ms off' % (x.isoformat(), y, o2[1]))
        o3 = call(tu.decimal_year_to_utc_epoch, y)
        if o3[0] == 'raise':
            bad.append('decimal_year_to_utc_epoch(%r) raised %s' % (y, _exc(o3)))
        elif abs(o3[1] - ms) > 1:
            bad.append('decimal_year_to_utc_epoch(decimal_year(%s)) = %r, required %d +- 1' % (x.isoformat(), o3[1], ms))
        if len(bad) >= MAXBAD:
            break
    return bad[:MAXBAD]


# ================================================================== C14
def _lattice_origins(spec):
    """spec = {'lon0': '-125.4', 'lat0': '31.5', 'dh': '0.1', 'cells': [[i, j], ...]} -> float origins
    (nearest doubles of the decimal grid), dh"""
    a, b, h = Decimal(str(spec['lon0'])), Decimal(str(spec['lat0'])), Decimal(str(spec['dh']))
    org = [[float(a + i * h), float(b + j * h)] for i, j in spec['cells']]
    return numpy.array(org, dtype=float), float(h)


def _mk_region(spec):
    from csep.core.regions import CartesianGrid2D
    org, dh = _lattice_origins(spec)
    mags = spec.get('magnitudes')
    return CartesianGrid2D.from_origins(org, dh=dh, magnitudes=None if mags is None else numpy.array(mags, dtype=float),
                                        name=spec.get('name', 'lattice'))


def _index_outcome(region, lon, lat):
    o = call(region.get_index_of, [lon], [lat])
    if o[0] == 'raise':
        return 'raise ' + type(o[1]).__name__
    try:
        return int(numpy.asarray(o[1]).ravel()[0])
    except Exception:  # noqa
        return repr(o[1])


def _same_float(a, b):
    a, b = float(a), float(b)
    if math.isnan(a) or math.isnan(b):
        return math.isnan(a) and math.isnan(b)
    return a == b


def _cmp_events(tag, cat, events):
    bad = []
    o = call(lambda: (cat.event_count, cat.catalog))
    if o[0] == 'raise':
        return ['%s: cannot read the loaded catalog: %s' % (tag, _exc(o))]
    n, arr = o[1]
    if n != len(events):
        return ['%s: %d events loaded, %d written' % (tag, n, len(events))]
    names = ('id', 'origin_time', 'latitude', 'longitude', 'depth', 'magnitude')
    for i, ev in enumerate(events):
        gid = arr['id'][i]
        if isinstance(gid, (bytes, numpy.bytes_)):
            gid = gid.decode('utf-8')
        if gid != ev[0]:
            bad.append('%s: event %d id %r, written %r' % (tag, i, gid, ev[0]))
        if int(arr['origin_time'][i]) != ev[1]:
            bad.append('%s: event %d origin_time %r, written %r' % (tag, i, int(arr['origin_time'][i]), ev[1]))
        for c in range(2, 6):
            if not _same_float(arr[names[c]][i], ev[c]):
                bad.append('%s: event %d %s %r, written %r' % (tag, i, names[c], float(arr[names[c]][i]), ev[c]))
        if len(bad) >= MAXBAD:
            break
    return bad


def _cmp_catalog_id(tag, cat, catalog_id):
    if catalog_id is None:
        return []
    got = getattr(cat, 'catalog_id', None)
    if not _is_int(got) or int(got) != catalog_id:
        return ['%s: catalog_id %r (%s), written integer %r' % (tag, got, type(got).__name__, catalog_id)]
    return []


def _cmp_region(tag, cat, spec):
    from csep.core.regions import CartesianGrid2D
    if spec is None:
        return []
    reg = getattr(cat, 'region', None)
    if not isinstance(reg, CartesianGrid2D):
        return ['%s: region %r is not a CartesianGrid2D' % (tag, reg)]
    org, dh = _lattice_origins(spec)
    got = numpy.asarray(reg.origins(), dtype=float)
    if got.shape != org.shape or not numpy.array_equal(got, org):
        return ['%s: region origins differ from the written region (%d vs %d cells)' % (tag, len(got), len(org))]
    if float(reg.dh) != dh:
        return ['%s: region dh %r, written %r' % (tag, reg.dh, dh)]
    bad = []
    for k, (x, y) in enumerate(org.tolist()):
        r = _index_outcome(reg, x + dh / 2, y + dh / 2)
        if r != k:
            bad.append('%s: rebuilt region maps the centre of cell %d to %r' % (tag, k, r))
            break
    return bad


@oracle('catalog_roundtrip')
def _catalog_roundtrip(events, mode, catalog_id=None, name=None, region=None, header=True, append=False,
                       with_datetime=False):
    """events = [[id, epoch_ms, lat, lon, depth, mag], ...]; mode in ascii | dict | json | dataframe"""
    import csep
    from csep.core.catalogs import CSEPCatalog
    events = [[str(e[0]), int(e[1]), float(e[2]), float(e[3]), float(e[4]), float(e[5])] for e in events]
    tup = [tuple(e) for e in events]
    kw = {}
    if region is not None:
        kw['region'] = _mk_region(region)
    o = call(lambda: CSEPCatalog(data=tup, catalog_id=catalog_id, name=name, **kw))
    if o[0] == 'raise':
        return ['cannot construct the catalog: ' + _exc(o)]
    cat = o[1]
    pre = _cmp_events('constructed catalog', cat, events)
    if pre:
        return pre
    bad = []
    with tempfile.TemporaryDirectory() as tmp:
        loaded = []
        if mode == 'ascii':
            f = os.path.join(tmp, 'catalog.csv')
            if append and len(tup) > 1:
                h = len(tup) // 2
                a = CSEPCatalog(data=tup[:h], catalog_id=catalog_id, name=name)
                b = CSEPCatalog(data=tup[h:], catalog_id=catalog_id, name=name)
                w = call(lambda: (a.write_ascii(f, write_header=header), b.write_ascii(f, write_header=False, append=True)))
            else:
                w = call(cat.write_ascii, f, write_header=header)
            if w[0] == 'raise':
                return ['write_ascii raised ' + _exc(w)]
            loaded.append(('write_ascii -> csep.load_catalog', call(csep.load_catalog, f)))
            loaded.append(('write_ascii -> CSEPCatalog.load_catalog', call(CSEPCatalog.load_catalog, f)))
        elif mode == 'dict':
            w = call(cat.to_dict)
            if w[0] == 'raise':
                return ['to_dict raised ' + _exc(w)]
            loaded.append(('to_dict -> from_dict', call(CSEPCatalog.from_dict, w[1])))
        elif mode == 'json':
            f = os.path.join(tmp, 'catalog.json')
            w = call(cat.write_json, f)
            if w[0] == 'raise':
                return ['write_json raised ' + _exc(w)]
            loaded.append(('write_json -> CSEPCatalog.load_json', call(CSEPCatalog.load_json, f)))
            loaded.append(('write_json -> csep.load_catalog', call(csep.load_catalog, f)))
        elif mode == 'dataframe':
            w = call(cat.to_dataframe, with_datetime=with_datetime)
            if w[0] == 'raise':
                return ['to_dataframe raised ' + _exc(w)]
            if len(w[1]) != len(events):
                bad.append('to_dataframe has %d rows for %d events' % (len(w[1]), len(events)))
            loaded.append(('to_dataframe -> from_dataframe', call(CSEPCatalog.from_dataframe, w[1])))
        else:
            return ['unknown mode %r' % mode]
        for tag, o in loaded:
            if o[0] == 'raise':
                bad.append('%s raised %s (%d events)' % (tag, _exc(o), len(events)))
                continue
            c2 = o[1]
            bad += _cmp_events(tag, c2, events)
            if events or mode in ('dict', 'json'):
                # a header-only file / an empty DataFrame has no row that could carry the id
                bad += _cmp_catalog_id(tag, c2, catalog_id)
            if mode in ('dict', 'json'):
                if name is not None and getattr(c2, 'name', None) != name:
                    bad.append('%s: name %r, written %r' % (tag, getattr(c2, 'name', None), name))
                bad += _cmp_region(tag, c2, region)
    return bad[:MAXBAD + 3]


# ================================================================== C19
def _event_us(ev):
    """exact UTC microseconds of an encoded event: ev['t'] = [Y, M, D, h, m, 'ss.fff'], optional ev['tz'] = '+0900';
    hours / minutes / seconds may be written as 24 / 60 / 60+ (roll over into the next unit)"""
    Y, M, D, h, mi, s = ev['t']
    sec_us = Decimal(str(s)) * 1000000
    if sec_us != sec_us.to_integral_value():
        raise ValueError('seconds finer than a microsecond')
    d = _dt.datetime(int(Y), int(M), int(D), tzinfo=UTC) + _dt.timedelta(hours=int(h), minutes=int(mi), microseconds=int(sec_us))
    tz = ev.get('tz')
    if tz:
        sign = -1 if tz[0] == '-' else 1
        digits = tz[1:].replace(':', '')
        d -= sign * _dt.timedelta(hours=int(digits[:2]), minutes=int(digits[2:4]))
    return _us_of_dt(d)


def _sec_str(s, width=2):
    s = str(s)
    whole = s.split('.')[0]
    return '0' * (width - len(whole)) + s


def _write_csep_csv(f, events, opts):
    with open(f, 'w', newline='') as fh:
        if opts.get('header', True):
            fh.write('lon,lat,mag,time_string,depth,catalog_id,event_id\n')
        for k, ev in enumerate(events):
            Y, M, D, h, mi, s = ev['t']
            ts = '%04d-%02d-%02dT%02d:%02d:%s' % (Y, M, D, h, mi, _sec_str(s))
            fh.write('%s,%s,%s,%s,%s,%s,%s\n' % (ev['lon'], ev['lat'], ev['mag'], ts, ev['depth'], opts.get('catalog_id', ''),
                                                 ev.get('id', 'id%d' % k)))


def _write_zmap(f, events, opts):
    with open(f, 'w') as fh:
        for ev in events:
            Y, M, D, h, mi, s = ev['t']
            cols = [ev['lon'], ev['lat'], opts.get('yearfmt', '%d') % Y, M, D, ev['mag'], ev['depth'], h, mi, s]
            if opts.get('errors'):
                cols += ['1.0', '2.0', '0.1']
            fh.write(opts.get('sep', ' ').join(str(c) for c in cols) + '\n')


def _write_jma(f, events, opts):
    with open(f, 'w', newline='') as fh:
        if opts.get('header', True):
            fh.write('timestamp;longitude;latitude;depth;magnitude\n')
        for ev in events:
            Y, M, D, h, mi, s = ev['t']
            s = str(s)
            if '.' not in s:
                s += '.0'
            ts = '%04d-%02d-%02dT%02d:%02d:%s%s' % (Y, M, D, h, mi, _sec_str(s), ev.get('tz', '+0900'))
            fh.write('%s;%s;%s;%s;%s\n' % (ts, ev['lon'], ev['lat'], ev['depth'], ev['mag']))


def _write_horus(f, events, opts):
    with open(f, 'w') as fh:
        fh.write('Year\tMo\tDa\tHo\tMi\tSe\tLat\tLon\tDepth\tMw\tsigMw\tGeo-Ita\tGeo-CPTI15\t\n')
        for ev in events:
            Y, M, D, h, mi, s = ev['t']
            vals = [Y, M, D, h, mi, s, ev['lat'], ev['lon'], ev['depth'], ev['mag'], '0.2']
            fh.write('\t'.join('%20.10f' % Decimal(str(v)) for v in vals) + '\t*\t*\t\n')


def _write_ndk(f, events, opts):
    with open(f, 'w') as fh:
        for k, ev in enumerate(events):
            Y, M, D, h, mi, s = ev['t']
            s = str(s)
            if '.' not in s:
                s += '.0'
            l1 = 'PDE  %04d/%02d/%02d %02d:%02d:%s %6.2f %7.2f %5.1f %3.1f %3.1f %-24s' % (
                Y, M, D, h, mi, _sec_str(s), Decimal(ev['lat']), Decimal(ev['lon']), Decimal(ev['depth']),
                Decimal(ev.get('mb', '5.0')), Decimal(ev.get('ms', '0.0')), 'GENERATED REGION')
            l2 = '%-16s B:  4    4  40 S: 27   33  50 M:  0    0   0 CMT: 1 TRIHD:  0.6' % ('C%04d%02d%02d%02d%02dA' % (Y, M, D, h % 24, mi % 60))
            l3 = 'CENTROID:     -0.3 0.9 %6.2f 0.06 %7.2f 0.09 %5.1f 12.5 FREE S-20050322125201' % (
                Decimal(ev['lat']), Decimal(ev['lon']), Decimal(ev['depth']))
            l4 = '%2d  0.838 0.201 -0.005 0.231 -0.833 0.270  1.050 0.121 -0.369 0.161  0.044 0.240' % int(ev['exp'])
            l5 = 'V10   1.581 56  12  -0.537 23 140  -1.044 24 241 %7.3f   9 29  142 133 72   66' % Decimal(ev['m0'])
            for ln in (l1, l2, l3, l4, l5):
                assert len(ln) == 80, (len(ln), ln)
                fh.write(ln + '\n')


_WRITERS = {'csep-csv': (_write_csep_csv, '.csv'), 'zmap': (_write_zmap, '.dat'), 'jma-csv': (_write_jma, '.csv'),
            'ingv_horus': (_write_horus, '.txt'), 'ndk': (_write_ndk, '.ndk')}
# resolution of the origin time a format can encode, in microseconds (the catalog itself stores milliseconds)
_RESOLUTION_US = {'csep-csv': 1000, 'zmap': 1000000, 'jma-csv': 1000, 'ingv_horus': 1000, 'ndk': 100000}


@oracle('catalog_reader')
def _catalog_reader(fmt, events, opts=None, via='csep'):
    """events: [{'t': [Y, M, D, h, m, 'ss.ff'], 'lon': '13.0005', 'lat': ..., 'depth': ..., 'mag': ..., 'tz': '+0900'}]
    with all numbers given as the decimal strings that are written to the file"""
    import csep
    from csep.utils import readers
    opts = opts or {}
    writer, ext = _WRITERS[fmt]
    bad = []
    with tempfile.TemporaryDirectory() as tmp:
        f = os.path.join(tmp, 'catalog' + ext)
        writer(f, events, opts)
        if via == 'csep':
            o = call(csep.load_catalog, f, type=fmt)
        else:
            rd = {'csep-csv': readers.csep_ascii, 'zmap': readers.zmap_ascii, 'jma-csv': readers.jma_csv,
                  'ingv_horus': readers.ingv_horus, 'ndk': readers.ndk}[fmt]
            o = call(lambda: csep.catalogs.CSEPCatalog(data=rd(f)))
        if o[0] == 'raise':
            with open(f) as fh:
                first = fh.read().split('\n')[:2]
            return ['%s reader raised %s on a well-formed file of %d records (first lines %r)' % (fmt, _exc(o), len(events), first)]
        cat = o[1]
        n = cat.event_count
        if n != len(events):
            return ['%s: %d events loaded from %d records' % (fmt, n, len(events))]
        arr = cat.catalog
        res = _RESOLUTION_US[fmt]
        for i, ev in enumerate(events):
            us = _event_us(ev)
            if us % res:
                raise ValueError('generated time finer than the resolution of the format')
            exp_ms = us // 1000
            got = int(arr['origin_time'][i])
            if got != exp_ms:
                bad.append('%s record %d: time %s%s -> origin_time %d (%s), required %d (%s)' % (
                    fmt, i, ev['t'], ev.get('tz', ''), got, _dt_of_us(got * 1000).isoformat(), exp_ms, _dt_of_us(us).isoformat()))
            for name in ('lon', 'lat', 'depth'):
                col = {'lon': 'longitude', 'lat': 'latitude', 'depth': 'depth'}[name]
                exp = float(Decimal(ev[name]))
                if fmt == 'ndk':
                    exp = float('%.2f' % Decimal(ev[name])) if name != 'depth' else float('%.1f' % Decimal(ev[name]))
                if float(arr[col][i]) != exp:
                    bad.append('%s record %d: %s %r, encoded %s' % (fmt, i, col, float(arr[col][i]), ev[name]))
            if fmt == 'ndk':
                m0_nm = Decimal('%.3f' % Decimal(ev['m0'])) * Decimal(10) ** (int(ev['exp']) - 7)
                exp = 2.0 / 3.0 * (float(m0_nm.log10()) - 9.1)
                if abs(float(arr['magnitude'][i]) - exp) > 1e-9:
                    bad.append('ndk record %d: magnitude %r, moment magnitude of the encoded scalar moment %r' % (i, float(arr['magnitude'][i]), exp))
            elif float(arr['magnitude'][i]) != float(Decimal(ev['mag'])):
                bad.append('%s record %d: magnitude %r, encoded %s' % (fmt, i, float(arr['magnitude'][i]), ev['mag']))
            if len(bad) >= MAXBAD:
                break
    return bad[:MAXBAD]


# ================================================================== C18
def _num(v):
    """JSON-able encoding of special floats: 'inf', '-inf', 'nan' strings"""
    if isinstance(v, str) and v in ('inf', '-inf', 'nan'):
        return float(v)
    if isinstance(v, list):
        return [_num(x) for x in v]
    return v


def _value_equal(a, b):
    """equality of a result field before / after serialisation: numbers by value (NaN == NaN), sequences
    element-wise (tuple / list / ndarray are interchangeable), None only equals None, strings exactly"""
    if isinstance(a, numpy.ndarray):
        a = a.tolist()
    if isinstance(b, numpy.ndarray):
        b = b.tolist()
    if isinstance(a, (list, tuple)) or isinstance(b, (list, tuple)):
        if not (isinstance(a, (list, tuple)) and isinstance(b, (list, tuple))) or len(a) != len(b):
            return False
        return all(_value_equal(x, y) for x, y in zip(a, b))
    if a is None or b is None:
        return a is None and b is None
    if isinstance(a, str) or isinstance(b, str):
        return isinstance(a, str) and isinstance(b, str) and a == b
    if isinstance(a, (bool, numpy.bool_)) or isinstance(b, (bool, numpy.bool_)):
        return bool(a) == bool(b) and isinstance(a, (bool, numpy.bool_)) and isinstance(b, (bool, numpy.bool_))
    try:
        fa, fb = float(a), float(b)
    except (TypeError, ValueError):
        return a == b
    if math.isnan(fa) or math.isnan(fb):
        return math.isnan(fa) and math.isnan(fb)
    return fa == fb


_RESULT_FIELDS = ('name', 'status', 'observed_statistic', 'quantile', 'test_distribution', 'sim_name', 'obs_name', 'min_mw')


def _result_roundtrip(result, via):
    import csep
    bad = []
    cls_name = type(result).__name__
    with tempfile.TemporaryDirectory() as tmp:
        f = os.path.join(tmp, 'result.json')
        if via == 'write_json':
            w = call(csep.write_json, result, f)
        elif via == 'repository':
            from csep.core.repositories import FileSystem
            w = call(lambda: FileSystem(url=f).save(result.to_dict()))
        else:
            def dump():
                with open(f, 'w') as fh:
                    json.dump(result.to_dict(), fh)
            w = call(dump)
        if w[0] == 'raise':
            return ['writing a %s with %s raised %s' % (cls_name, via, _exc(w))]
        o = call(csep.load_evaluation_result, f)
        if o[0] == 'raise':
            return ['load_evaluation_result raised %s for a stored %s' % (_exc(o), cls_name)]
        got = o[1]
        if type(got).__name__ != cls_name:
            bad.append('loaded class %s, stored %s' % (type(got).__name__, cls_name))
        for fld in _RESULT_FIELDS:
            a, b = getattr(result, fld, None), getattr(got, fld, '<missing>')
            if not _value_equal(a, b):
                bad.append('%s.%s loaded as %r (%s), stored %r (%s)' % (cls_name, fld, _short(b), type(b).__name__, _short(a), type(a).__name__))
    return bad


def _short(v):
    s = repr(v)
    return s if len(s) < 120 else s[:117] + '...'


@oracle('evaluation_result_roundtrip')
def _evaluation_result_roundtrip(cls, name='test', status='normal', observed_statistic=None, quantile=None, test_distribution=(),
                                 sim_name=None, obs_name=None, min_mw=None, via='write_json', td_type='list',
                                 stat_type='python'):
    """build a result of class `cls` from the given field values ('inf' / '-inf' / 'nan' strings stand for the
    special floats), store it, load it with csep.load_evaluation_result"""
    import csep.models as models
    klass = getattr(models, cls)
    td = _num(list(test_distribution))
    if td_type == 'ndarray':
        td = numpy.array(td, dtype=float)
    elif td_type == 'int_ndarray':
        td = numpy.array(td, dtype=numpy.int64)
    stat = _num(observed_statistic)
    q = _num(quantile)
    mw = _num(min_mw)
    if stat_type == 'numpy':  # what the evaluation functions produce: numpy.float64 scalars
        stat = None if stat is None else numpy.float64(stat)
        q = tuple(None if x is None else numpy.float64(x) for x in q) if isinstance(q, list) else (None if q is None else numpy.float64(q))
        mw = None if mw is None else numpy.float64(mw)
    elif isinstance(q, list):
        q = tuple(q)
    o = call(lambda: klass(test_distribution=td, name=name, observed_statistic=stat, quantile=q, status=status,
                           obs_catalog_repr='catalog text', sim_name=sim_name, obs_name=obs_name, min_mw=mw))
    if o[0] == 'raise':
        return ['cannot construct %s: %s' % (cls, _exc(o))]
    return _result_roundtrip(o[1], via)[:MAXBAD]


def _eval_setup(seed, n_cat, n_obs, nx=3, ny=3, hole=False):
    from csep.core.catalogs import CSEPCatalog
    from csep.core.regions import CartesianGrid2D
    from csep.core.forecasts import CatalogForecast, GriddedForecast
    rng = random.Random(seed)
    mags = numpy.array([4.0, 4.5, 5.0, 5.5])
    cells = [[float(i), float(j)] for i in range(nx) for j in range(ny)]
    if hole and len(cells) > 2:
        cells.pop(1)

    def region():
        return CartesianGrid2D.from_origins(numpy.array(cells), dh=1.0, magnitudes=mags, name='eval-region')

    def events(n):
        out = []
        for k in range(n):
            c = rng.choice(cells)
            out.append(('e%d' % k, 1000 * k, c[1] + rng.choice([0.0, 0.25, 0.5, 0.75]), c[0] + rng.choice([0.0, 0.25, 0.5, 0.75]),
                        10.0, rng.choice([4.0, 4.25, 4.5, 5.0, 5.75, 6.5])))
        return out
    cats = [CSEPCatalog(data=events(rng.randint(0, 6)), region=region(), catalog_id=k) for k in range(n_cat)]
    obs = CSEPCatalog(data=events(n_obs), region=region(), name='observed')
    start = _dt.datetime(2020, 1, 1)
    end = _dt.datetime(2021, 1, 1)
    cf = CatalogForecast(catalogs=cats, region=region(), n_cat=n_cat, name='catalog-forecast', start_time=start, end_time=end)
    data = numpy.array([[rng.choice([0.0, 0.01, 0.2, 1.5]) for _ in mags] for _ in cells]) + 1e-3
    gf = GriddedForecast(start_time=start, end_time=end, data=data, region=region(), magnitudes=mags, name='gridded-forecast')
    data2 = numpy.array([[rng.choice([0.05, 0.1, 0.3]) for _ in mags] for _ in cells])
    gf2 = GriddedForecast(start_time=start, end_time=end, data=data2, region=region(), magnitudes=mags, name='benchmark')
    return cf, gf, gf2, obs


@oracle('evaluation_function_roundtrip')
def _evaluation_function_roundtrip(func, seed=0, n_cat=5, n_obs=3, via='write_json', nx=3, ny=3):
    """run a real evaluation function on a small generated input, store and reload its result"""
    import contextlib
    import io
    from csep.core import catalog_evaluations as ce, poisson_evaluations as pe, binomial_evaluations as be
    cf, gf, gf2, obs = _eval_setup(seed, n_cat, n_obs, nx, ny)
    family, fname = func.split('.')
    sink = io.StringIO()
    with contextlib.redirect_stdout(sink):
        if family == 'catalog':
            if fname == 'calibration_test':
                res = []
                for k in range(4):
                    c, _, _, ob = _eval_setup(seed + 1 + k, n_cat, n_obs, nx, ny)
                    res.append(ce.number_test(c, ob, verbose=False))
                o = call(ce.calibration_test, res)
            else:
                kw = {'seed': seed} if fname in ('resampled_magnitude_test', 'MLL_magnitude_test') else {}
                o = call(getattr(ce, fname), cf, obs, verbose=False, **kw)
        elif family == 'poisson':
            if fname == 'paired_t_test':
                o = call(pe.paired_t_test, gf, gf2, obs)
            elif fname == 'number_test':
                o = call(pe.number_test, gf, obs)
            else:
                o = call(getattr(pe, fname), gf, obs, num_simulations=20, seed=seed)
        elif family == 'binomial':
            if fname == 'negative_binomial_number_test':
                o = call(be.negative_binomial_number_test, gf, obs, 4.0)
            elif fname == 'binary_paired_t_test':
                o = call(be.binary_paired_t_test, gf, gf2, obs)
            else:
                o = call(getattr(be, fname), gf, obs, num_simulations=20, seed=seed)
        else:
            return ['unknown family ' + family]
    if o[0] == 'raise':
        # whether the evaluation itself can run on this input is not the claim of C18
        return []
    if o[1] is None:
        return []
    return _result_roundtrip(o[1], via)[:MAXBAD]


@oracle('cartesian_region_dict_roundtrip')
def _cartesian_region_dict_roundtrip(lattice, probe_seed=0, n_probes=200, through_json=False, infer_dh=False):
    """an unmasked CartesianGrid2D and its from_dict(to_dict()) twin index every probe point alike"""
    from csep.core.regions import CartesianGrid2D
    org, dh = _lattice_origins(lattice)
    mags = lattice.get('magnitudes')
    o = call(lambda: CartesianGrid2D.from_origins(org, dh=None if infer_dh else dh,
                                                  magnitudes=None if mags is None else numpy.array(mags, dtype=float), name='lattice'))
    if o[0] == 'raise':
        return []  # constructing the region is not the claim
    reg = o[1]
    w = call(reg.to_dict)
    if w[0] == 'raise':
        return ['to_dict raised ' + _exc(w)]
    d = w[1]
    if through_json:
        j = call(lambda: json.loads(json.dumps(d)))
        if j[0] == 'raise':
            return ['to_dict is not JSON serialisable: ' + _exc(j)]
        d = j[1]
    o2 = call(CartesianGrid2D.from_dict, d)
    if o2[0] == 'raise':
        return ['from_dict(to_dict()) raised ' + _exc(o2)]
    twin = o2[1]
    bad = []
    if twin.num_nodes != reg.num_nodes:
        bad.append('rebuilt region has %d cells, original %d' % (twin.num_nodes, reg.num_nodes))
    rng = random.Random(probe_seed)
    xs = [p[0] for p in org.tolist()]
    ys = [p[1] for p in org.tolist()]
    probes = []
    for (x, y) in org.tolist():
        probes += [(x, y), (x + dh / 2, y + dh / 2), (x + 0.99 * dh, y + 0.01 * dh)]
    probes += [(max(xs) + dh, max(ys) + dh), (min(xs) - dh / 2, min(ys)), (max(xs) + 1.5 * dh, min(ys)), (min(xs), max(ys) + 2 * dh)]
    for _ in range(int(n_probes)):
        probes.append((rng.uniform(min(xs) - dh, max(xs) + 2 * dh), rng.uniform(min(ys) - dh, max(ys) + 2 * dh)))
    for (x, y) in probes:
        a, b = _index_outcome(reg, x, y), _index_outcome(twin, x, y)
        if a != b:
            bad.append('point (%r, %r): original region -> %r, rebuilt region -> %r' % (x, y, a, b))
            if len(bad) >= MAXBAD:
                break
    return bad


# ================================================================== C17
MERC_LAT = math.degrees(math.atan(math.sinh(math.pi)))   # 85.0511287798066
EARTH_R_KM = 6371.0


def _tile_of_quadkey(qk):
    x = y = 0
    for ch in qk:
        d = int(ch)
        if d not in (0, 1, 2, 3):
            raise ValueError('bad quadkey ' + qk)
        x = 2 * x + (d & 1)
        y = 2 * y + (d >> 1)
    return x, y, len(qk)


def _tile_bounds(qk):
    """west, south, east, north of a quadkey tile: independent Web-Mercator formula"""
    x, y, z = _tile_of_quadkey(qk)
    n = 2 ** z
    lon = lambda i: i / n * 360.0 - 180.0
    lat = lambda j: math.degrees(math.atan(math.sinh(math.pi * (1 - 2 * j / n))))
    return lon(x), lat(y + 1), lon(x + 1), lat(y)


def _locate(bounds, lon, lat):
    """indices of the cells whose west/south-inclusive, east/north-exclusive bounds contain the point"""
    m = (lon >= bounds[:, 0]) & (lat >= bounds[:, 1]) & (lon < bounds[:, 2]) & (lat < bounds[:, 3])
    return numpy.nonzero(m)[0]


def _qt_index_outcome(region, lon, lat):
    o = call(region.get_index_of, lon, lat)
    if o[0] == 'raise':
        return 'raise ' + _exc(o)
    v = o[1]
    if v is None:
        return 'None'
    a = numpy.asarray(v)
    if a.size == 0:
        return None
    if a.size == 1 and numpy.issubdtype(a.dtype, numpy.integer):
        return int(a.ravel()[0])
    return repr(v)


@oracle('quadtree_grid')
def _quadtree_grid(kind, zoom=None, threshold=None, events=None, quadkeys=None, california=False, probe_seed=0, n_probes=300,
                   corner_cells=200):
    """kind = single | catalog | quadkeys.  events = [[lon, lat], ...] (catalog); quadkeys = list of strings"""
    from csep.core.regions import QuadtreeGrid2D
    from csep.core.catalogs import CSEPCatalog
    rng = random.Random(probe_seed)
    if kind == 'single':
        o = call(QuadtreeGrid2D.from_single_resolution, zoom)
    elif kind == 'catalog':
        cat = CSEPCatalog(data=[('e%d' % k, 1000 * k, float(la), float(lo), 10.0, 5.0) for k, (lo, la) in enumerate(events)])
        o = call(QuadtreeGrid2D.from_catalog, cat, threshold, zoom=zoom)
    else:
        if california:
            import csep
            p = os.path.join(os.path.dirname(csep.__file__), 'artifacts', 'Regions', 'california_qk_zoom=12.txt')
            if not os.path.exists(p) or os.path.getsize(p) == 0:
                return []
            quadkeys = [ln.strip() for ln in open(p) if ln.strip()]
        o = call(QuadtreeGrid2D.from_quadkeys, list(quadkeys))
    if o[0] == 'raise':
        return ['constructing the %s grid raised %s' % (kind, _exc(o))]
    reg = o[1]
    bad = []
    qks = [str(q) for q in reg.quadkeys]
    bounds = numpy.asarray(reg.bounds, dtype=float)
    n = len(qks)
    if bounds.shape != (n, 4) or reg.num_nodes != n:
        return ['grid has %d quadkeys, bounds of shape %r, %d polygons' % (n, bounds.shape, reg.num_nodes)]
    if kind == 'quadkeys' and qks != [str(q) for q in quadkeys]:
        bad.append('from_quadkeys does not keep the given quadkeys in order')
    # bounds of every cell against the independent tile formula
    ref = numpy.array([_tile_bounds(q) for q in qks])
    dev = numpy.abs(bounds - ref)
    if dev.max() > 1e-9:
        k = int(numpy.argmax(dev.max(axis=1)))
        bad.append('cell %s has bounds %r, Web-Mercator tile bounds are %r' % (qks[k], bounds[k].tolist(), ref[k].tolist()))
    # disjoint: no quadkey is a prefix of (or equal to) another; covering: the tiles fill the unit square
    srt = sorted(qks)
    for a, b in zip(srt, srt[1:]):
        if b.startswith(a):
            bad.append('cells overlap: quadkey %s and %s' % (a, b))
            break
    cover = sum(Fraction(1, 4 ** len(q)) for q in qks)
    full = kind in ('single', 'catalog')
    if full:
        if cover != 1:
            bad.append('cells cover the fraction %s of the Web-Mercator square, not all of it' % cover)
        ext = (bounds[:, 0].min(), bounds[:, 1].min(), bounds[:, 2].max(), bounds[:, 3].max())
        if ext[0] != -180.0 or ext[2] != 180.0 or abs(ext[1] + MERC_LAT) > 1e-9 or abs(ext[3] - MERC_LAT) > 1e-9:
            bad.append('grid extent %r, required lon [-180, 180) lat +-%r' % (ext, MERC_LAT))
    if kind == 'single':
        if n != 4 ** zoom or any(len(q) != zoom for q in qks):
            bad.append('single resolution zoom %d: %d cells, lengths %r' % (zoom, n, sorted(set(len(q) for q in qks))))
    # refinement criterion
    if kind == 'catalog':
        lon = numpy.array([e[0] for e in events], dtype=float)
        lat = numpy.array([e[1] for e in events], dtype=float)
        counts = {}
        for lo, la in zip(lon.tolist(), lat.tolist()):
            hit = _locate(bounds, lo, la)
            if len(hit) > 1:
                bad.append('event (%r, %r) lies in %d cells' % (lo, la, len(hit)))
            elif len(hit) == 1:
                counts[qks[hit[0]]] = counts.get(qks[hit[0]], 0) + 1
            elif -180 <= lo < 180 and -MERC_LAT + 1e-9 < la < MERC_LAT - 1e-9:
                bad.append('event (%r, %r) lies in no cell' % (lo, la))
        under = {}
        for q in qks:
            c = counts.get(q, 0)
            if len(q) > zoom:
                bad.append('cell %s is deeper than the maximum zoom %d' % (q, zoom))
            if c > threshold and len(q) < zoom:
                bad.append('cell %s holds %d events > threshold %d but is not at the maximum zoom %d' % (q, c, threshold, zoom))
            for L in range(1, len(q)):
                under[q[:L]] = under.get(q[:L], 0) + c
        for p, c in sorted(under.items()):
            if c <= threshold:
                bad.append('cell %s holding %d events <= threshold %d was split' % (p, c, threshold))
                break
    # areas
    o = call(reg.get_cell_area)
    if o[0] == 'raise':
        bad.append('get_cell_area raised ' + _exc(o))
    else:
        area = numpy.asarray(o[1], dtype=float)
        rad = math.pi / 180.0
        exp = EARTH_R_KM ** 2 * (ref[:, 2] - ref[:, 0]) * rad * (numpy.sin(ref[:, 3] * rad) - numpy.sin(ref[:, 1] * rad))
        if area.shape != exp.shape:
            bad.append('get_cell_area returns %r values for %d cells' % (area.shape, n))
        else:
            rel = numpy.abs(area - exp) / exp
            if rel.max() > 1e-6:
                k = int(numpy.argmax(rel))
                bad.append('area of cell %s is %r km2, spherical formula gives %r' % (qks[k], float(area[k]), float(exp[k])))
            if full:
                band = 2 * math.pi * EARTH_R_KM ** 2 * (math.sin(MERC_LAT * rad) - math.sin(-MERC_LAT * rad))
                if abs(float(area.sum()) - band) > 1e-9 * band:
                    bad.append('cell areas add up to %r km2, the latitude band +-%.4f has %r km2' % (float(area.sum()), MERC_LAT, band))
    # point location
    probes = [(-180.0, 0.0), (180.0, 0.0), (179.99999999999997, 0.0), (0.0, 0.0), (-180.0, -MERC_LAT), (0.0, 85.06), (0.0, -85.06), (10.0, 90.0),
              (-180.00000000000003, 10.0), (0.0, MERC_LAT), (0.0, float(bounds[:, 3].max())), (0.0, float(bounds[:, 1].min())),
              (-1e-10, -1e-10), (45.0, 45.0), (200.0, 0.0)]
    cells = list(range(n)) if n <= corner_cells else rng.sample(range(n), int(corner_cells))
    for k in cells:
        w, s, e, nn = bounds[k].tolist()
        probes += [(w, s), (e, nn), (w, nn), (e, s), ((w + e) / 2, (s + nn) / 2), (w, (s + nn) / 2), ((w + e) / 2, s)]
        probes += [(float(numpy.nextafter(e, -numpy.inf)), float(numpy.nextafter(nn, -numpy.inf)))]
    for _ in range(int(n_probes)):
        probes.append((rng.uniform(-181, 181), rng.uniform(-88, 88)))
    if kind == 'quadkeys':
        w, s, e, nn = bounds[:, 0].min(), bounds[:, 1].min(), bounds[:, 2].max(), bounds[:, 3].max()
        for _ in range(int(n_probes)):
            probes.append((rng.uniform(w, e), rng.uniform(s, nn)))
    inside = []
    nbad = len(bad)
    for lo, la in probes:
        hit = _locate(bounds, lo, la)
        if len(hit) > 1:
            bad.append('point (%r, %r) lies in %d cells: %r' % (lo, la, len(hit), [qks[h] for h in hit[:3]]))
            continue
        exp = int(hit[0]) if len(hit) else None
        if full and exp is None and -180 <= lo < 180 and -MERC_LAT + 1e-9 < la < MERC_LAT - 1e-9:
            bad.append('point (%r, %r) inside the covered band lies in no cell' % (lo, la))
        got = _qt_index_outcome(reg, lo, la)
        if got != exp:
            bad.append('get_index_of(%r, %r) = %r, the containing cell is %r%s' % (lo, la, got, exp, '' if exp is None else ' (%s)' % qks[exp]))
        if exp is not None:
            inside.append((lo, la, exp))
        if len(bad) - nbad >= MAXBAD:
            break
    if inside:
        o = call(reg.get_index_of, [p[0] for p in inside], [p[1] for p in inside])
        if o[0] == 'raise':
            bad.append('get_index_of(list of %d inside points) raised %s' % (len(inside), _exc(o)))
        else:
            got = numpy.asarray(o[1]).tolist()
            if got != [p[2] for p in inside]:
                bad.append('get_index_of(lists) differs from the containing cells of %d inside points' % len(inside))
        o = call(reg.get_index_of, numpy.array([p[0] for p in inside]), numpy.array([p[1] for p in inside]))
        if o[0] == 'raise' or numpy.asarray(o[1]).tolist() != [p[2] for p in inside]:
            bad.append('get_index_of(ndarrays) differs from the containing cells of %d inside points' % len(inside))
    return bad[:MAXBAD + 3]


# ================================================================== C11
def _parse_when(s):
    s = str(s)
    d = _dt.datetime.strptime(s[:19], '%Y-%m-%d %H:%M:%S')
    return d.replace(tzinfo=UTC) if s.endswith('Z') else d


def _exact_decimal_year(d):
    y0 = _dt.datetime(d.year, 1, 1, tzinfo=d.tzinfo)
    y1 = _dt.datetime(d.year + 1, 1, 1, tzinfo=d.tzinfo)
    return d.year + Fraction((d - y0) // ONE_US, (y1 - y0) // ONE_US)


def _test_date_factor(start, end, when):
    """fraction of the forecast period elapsed at the end of the test day (exact rational decimal years);
    unity outside the forecast period"""
    if when >= end or when <= start:
        return 1.0
    a, b = _exact_decimal_year(start), _exact_decimal_year(end)
    return float((_exact_decimal_year(when + _dt.timedelta(days=1)) - a) / (b - a))


def _close(a, b, rel):
    a, b = float(a), float(b)
    return abs(a - b) <= rel * max(abs(a), abs(b), 1e-300)


def _rate_table(n_cells, n_mags, seed):
    rng = random.Random(seed)
    tab = []
    for _ in range(n_cells):
        row = []
        for _ in range(n_mags):
            r = rng.random()
            v = 0.0 if r < 0.1 else float('%.6e' % (10 ** rng.uniform(-9, 1)))
            row.append(v)
        tab.append(row)
    return tab


def _check_marginals(fc, tag):
    o = call(lambda: (float(fc.sum()), float(fc.spatial_counts().sum()), float(fc.magnitude_counts().sum()), float(fc.event_count)))
    if o[0] == 'raise':
        return ['%s: sum / spatial_counts / magnitude_counts raised %s' % (tag, _exc(o))]
    t, s, m, e = o[1]
    if not (_close(t, s, 1e-11) and _close(t, m, 1e-11) and _close(t, e, 1e-11)):
        return ['%s: sum %r, spatial_counts().sum() %r, magnitude_counts().sum() %r, event_count %r' % (tag, t, s, m, e)]
    return []


def _check_scaling(fc, table, ops, start, end, boxes=None):
    """ops = [['scale', v] | ['date', 'YYYY-mm-dd HH:MM:SS']]: after each call data == original * that call's factor - and so are
    the rates get_rates() looks up (boxes = (cell boxes, magnitude boxes, flags): a few cell centres are probed after every call)"""
    bad = []
    orig = numpy.array(table, dtype=float)
    probes = []
    if boxes is not None:
        cell_boxes, mag_boxes, flags = boxes
        live = [c for c in range(len(cell_boxes)) if flags is None or flags[c]]
        for c in live[:2] + live[-1:]:
            x0, x1, y0, y1 = cell_boxes[c]
            for b in sorted({0, len(mag_boxes) - 1}):
                probes.append(((x0 + x1) / 2, (y0 + y1) / 2, mag_boxes[b][0], c, b))
    for k, op in enumerate(ops or []):
        if op[0] == 'scale':
            factor = float(op[1])
            o = call(fc.scale, op[1])
            what = 'scale(%r)' % op[1]
        else:
            when = _parse_when(op[1])
            if start is None:
                continue
            if start.tzinfo is not None and when.tzinfo is None:
                when = when.replace(tzinfo=UTC)
            factor = _test_date_factor(start, end, when)
            o = call(fc.scale_to_test_date, when)
            what = 'scale_to_test_date(%s)%s' % (op[1], '' if start < when < end else ' [outside the forecast period: unity]')
        if o[0] == 'raise':
            bad.append('%s raised %s' % (what, _exc(o)))
            continue
        data = numpy.asarray(fc.data, dtype=float)
        exp = orig * factor
        tol = 1e-12 if op[0] == 'scale' else 1e-8
        if data.shape != exp.shape or not numpy.all(numpy.abs(data - exp) <= tol * numpy.abs(exp)):
            nz = orig != 0
            ratio = float(numpy.median(data[nz] / orig[nz])) if data.shape == exp.shape and nz.any() else None
            bad.append('after call %d of %r, %s: data = original x %r, required original x %r (last factor, not cumulative)'
                       % (k + 1, ops, what, ratio, factor))
        bad += _check_marginals(fc, 'after ' + what)
        for (x, y, mg, c, b) in probes:
            o2 = call(fc.get_rates, numpy.array([x]), numpy.array([y]), numpy.array([mg]))
            want = float(orig[c][b]) * factor
            if o2[0] == 'raise' or numpy.asarray(o2[1]).shape != (1,) or abs(float(numpy.asarray(o2[1])[0]) - want) > tol * abs(want) + 1e-300:
                bad.append('after %s: get_rates at the centre of cell %d, magnitude bin %d = %r, required stored rate x factor = %r'
                           % (what, c, b, _exc(o2) if o2[0] == 'raise' else numpy.asarray(o2[1]).tolist(), want))
                break
        if len(bad) >= 3:
            break
    return bad


def _probe_rates(fc, cell_boxes, mag_boxes, table, flags, probe_seed, max_cells):
    """lower corner and five interior points (at least 1% of the cell away from the upper edges, where C02 grants
    a round-off tolerance) of every sampled space-magnitude box of an unflagged cell"""
    bad = []
    rng = random.Random(probe_seed)
    cells = list(range(len(cell_boxes)))
    if len(cells) > max_cells:
        cells = sorted(rng.sample(cells, max_cells - 2) + [0, len(cell_boxes) - 1])
    fr = [(0.0, 0.0), (0.5, 0.5), (0.25, 0.75), (0.99, 0.01), (0.0, 0.9), (0.6, 0.0)]
    P = []  # (lon, lat, mag, expected, description)
    for c in cells:
        if flags is not None and not flags[c]:
            continue
        x0, x1, y0, y1 = cell_boxes[c]
        for m, (m0, m1) in enumerate(mag_boxes):
            for k, (fx, fy) in enumerate(fr):
                lon = x0 if fx == 0 else x0 + fx * (x1 - x0)
                lat = y0 if fy == 0 else y0 + fy * (y1 - y0)
                fm = (0.0, 0.5, 0.9)[k % 3]
                mag = m0 if fm == 0 else m0 + fm * (m1 - m0)
                P.append((lon, lat, mag, table[c][m], 'cell %d box [%r,%r)x[%r,%r) mag bin [%r,%r)' % (c, x0, x1, y0, y1, m0, m1),
                          fx == 0 and fy == 0 and fm == 0))
    if P:
        lons, lats, mags = (numpy.array([p[i] for p in P]) for i in range(3))
        o = call(fc.get_rates, lons, lats, mags)
        if o[0] == 'return':
            got = numpy.asarray(o[1], dtype=float)
            if got.shape != (len(P),):
                bad.append('get_rates returns shape %r for %d points' % (got.shape, len(P)))
            else:
                for p, g in zip(P, got.tolist()):
                    if g != p[3]:
                        bad.append('get_rates(%r, %r, %r) = %r, the row of %s has rate %r%s' % (
                            p[0], p[1], p[2], g, p[4], p[3], ' [lower corner]' if p[5] else ''))
                        if len(bad) >= MAXBAD:
                            break
        else:
            # find the individual points that cannot be looked up
            nb = 0
            for p in P:
                o1 = call(fc.get_rates, numpy.array([p[0]]), numpy.array([p[1]]), numpy.array([p[2]]))
                if o1[0] == 'raise':
                    bad.append('get_rates(%r, %r, %r) raised %s; the point is inside %s (rate %r)' % (p[0], p[1], p[2], _exc(o1)[:80], p[4], p[3]))
                    nb += 1
                elif float(numpy.asarray(o1[1]).ravel()[0]) != p[3]:
                    bad.append('get_rates(%r, %r, %r) = %r, the row of %s has rate %r' % (p[0], p[1], p[2], float(numpy.asarray(o1[1]).ravel()[0]), p[4], p[3]))
                    nb += 1
                if nb >= MAXBAD:
                    break
            if nb == 0:
                bad.append('get_rates on %d inside points raised %s although each point alone can be looked up' % (len(P), _exc(o)))
    return bad


@oracle('forecast_ascii')
def _forecast_ascii(lon0, lat0, dh, cells, mags, dmag, flags=None, rate_seed=0, swap_latlon=False, numfmt='plain', via='csep',
                    ops=None, start=None, end=None, probe_seed=0, max_cells=150, sep='\t'):
    """CSEP gridded-forecast ASCII file on the decimal lattice (lon0 + i*dh, lat0 + j*dh), (i, j) in `cells` (file order),
    magnitude rows `mags` (lower edges, decimal strings; upper edge = next edge, last + dmag)"""
    import csep
    from csep.core.forecasts import GriddedForecast
    a, b, h = Decimal(str(lon0)), Decimal(str(lat0)), Decimal(str(dh))
    md = [Decimal(str(m)) for m in mags]
    mup = md[1:] + [md[-1] + Decimal(str(dmag))]
    fmt = (lambda d: format(d, 'f')) if numfmt == 'plain' else (lambda d: '%.4f' % d)
    table = _rate_table(len(cells), len(md), rate_seed)
    lines, cell_boxes = [], []
    for c, (i, j) in enumerate(cells):
        x0, x1, y0, y1 = a + i * h, a + (i + 1) * h, b + j * h, b + (j + 1) * h
        sx0, sx1, sy0, sy1 = fmt(x0), fmt(x1), fmt(y0), fmt(y1)
        cell_boxes.append((float(sx0), float(sx1), float(sy0), float(sy1)))
        fl = 1 if flags is None else int(flags[c])
        for m in range(len(md)):
            geo = [sy0, sy1, sx0, sx1] if swap_latlon else [sx0, sx1, sy0, sy1]
            lines.append(sep.join(geo + ['0.0', '30.0', fmt(md[m]), fmt(mup[m]), repr(table[c][m]), str(fl)]))
    mag_boxes = [(float(fmt(lo)), float(fmt(up))) for lo, up in zip(md, mup)]
    t0 = None if start is None else _parse_when(start)
    t1 = None if end is None else _parse_when(end)
    bad = []
    with tempfile.TemporaryDirectory() as tmp:
        f = os.path.join(tmp, 'forecast.dat')
        with open(f, 'w') as fh:
            fh.write('\n'.join(lines) + '\n')
        kw = {'swap_latlon': True} if swap_latlon else {}
        if t0 is not None:
            kw.update(start_date=t0, end_date=t1)
        o = call(csep.load_gridded_forecast, f, **kw) if via == 'csep' else call(GriddedForecast.load_ascii, f, **kw)
        if o[0] == 'raise':
            return ['loading a well-formed forecast file (%d cells x %d magnitudes, first row %r) raised %s' % (len(cells), len(md), lines[0], _exc(o))]
        fc = o[1]
        gm = [float(x) for x in numpy.asarray(fc.magnitudes).tolist()]
        if gm != [mb[0] for mb in mag_boxes]:
            bad.append('forecast.magnitudes = %r, lower magnitude edges of the file are %r' % (gm, [mb[0] for mb in mag_boxes]))
        if numpy.asarray(fc.data).shape != (len(cells), len(md)):
            bad.append('forecast.data has shape %r for %d cells x %d magnitudes' % (numpy.asarray(fc.data).shape, len(cells), len(md)))
            return bad
        bad += _probe_rates(fc, cell_boxes, mag_boxes, table, flags, probe_seed, max_cells)
        if flags is not None:
            nb = 0
            for c, fl in enumerate(flags):
                if fl:
                    continue
                x0, x1, y0, y1 = cell_boxes[c]
                for (x, y) in ((x0, y0), ((x0 + x1) / 2, (y0 + y1) / 2)):
                    o1 = call(fc.get_index_of, numpy.array([x]), numpy.array([y]))
                    o2 = call(fc.get_rates, numpy.array([x]), numpy.array([y]), numpy.array([mag_boxes[0][0]]))
                    if o1[0] != 'raise' or not isinstance(o1[1], ValueError) or o2[0] != 'raise':
                        bad.append('point (%r, %r) of cell %d flagged 0 is inside the region: get_index_of -> %r' % (x, y, c, o1[1]))
                        nb += 1
                if nb >= 3:
                    break
        total = math.fsum(v for row in table for v in row)
        if flags is None or all(flags):
            o = call(lambda: float(fc.event_count))
            if o[0] == 'raise' or not _close(o[1], total, 1e-11):
                bad.append('event_count = %r, the rate column sums to %r' % (o[1], total))
        bad += _check_marginals(fc, 'loaded forecast')
        bad += _check_scaling(fc, table, ops, t0, t1, boxes=(cell_boxes, mag_boxes, flags))
    return bad[:MAXBAD + 3]


@oracle('forecast_quadtree')
def _forecast_quadtree(quadkeys, mags, dmag, rate_seed=0, layout='ascii', ops=None, start=None, end=None, probe_seed=0, max_cells=150):
    """quadtree forecast files: 'ascii' rows  quadkey lon0 lon1 lat0 lat1 z0 z1 m0 m1 rate  (cell-major);
    'csv' header  quadkey,depth_min,depth_max,m0,m1,...  then one row of rates per cell"""
    import mercantile
    from csep.core.forecasts import GriddedForecast
    from csep.utils import readers
    md = [Decimal(str(m)) for m in mags]
    mup = md[1:] + [md[-1] + Decimal(str(dmag))]
    fmt = lambda d: format(d, 'f')
    table = _rate_table(len(quadkeys), len(md), rate_seed)
    cell_boxes = []
    for q in quadkeys:
        bb = mercantile.bounds(mercantile.quadkey_to_tile(q))
        cell_boxes.append((float(repr(bb.west)), float(repr(bb.east)), float(repr(bb.south)), float(repr(bb.north))))
    mag_boxes = [(float(fmt(lo)), float(fmt(up))) for lo, up in zip(md, mup)]
    t0 = None if start is None else _parse_when(start)
    t1 = None if end is None else _parse_when(end)
    bad = []
    with tempfile.TemporaryDirectory() as tmp:
        if layout == 'ascii':
            f = os.path.join(tmp, 'forecast.dat')
            with open(f, 'w') as fh:
                for c, q in enumerate(quadkeys):
                    x0, x1, y0, y1 = cell_boxes[c]
                    for m in range(len(md)):
                        fh.write(' '.join([q, repr(x0), repr(x1), repr(y0), repr(y1), '0.0', '30.0', fmt(md[m]), fmt(mup[m]), repr(table[c][m])]) + '\n')
            loader = readers.quadtree_ascii_loader
        else:
            f = os.path.join(tmp, 'forecast.csv')
            with open(f, 'w') as fh:
                fh.write(','.join(['quadkey', 'depth_min', 'depth_max'] + [fmt(m) for m in md]) + '\n')
                for c, q in enumerate(quadkeys):
                    fh.write(','.join([q, '0.0', '30.0'] + [repr(v) for v in table[c]]) + '\n')
            loader = readers.quadtree_csv_loader
        o = call(GriddedForecast.from_custom, loader, func_args=(f,), start_time=t0, end_time=t1, name='quadtree')
        if o[0] == 'raise':
            return ['loading a well-formed quadtree %s forecast (%d cells x %d magnitudes) raised %s' % (layout, len(quadkeys), len(md), _exc(o))]
        fc = o[1]
        gm = numpy.asarray(fc.magnitudes).tolist()
        if not all(isinstance(x, float) for x in gm) or gm != [mb[0] for mb in mag_boxes]:
            bad.append('forecast.magnitudes = %r, lower magnitude edges of the file are %r' % (gm, [mb[0] for mb in mag_boxes]))
        if numpy.asarray(fc.data).shape != (len(quadkeys), len(md)):
            bad.append('forecast.data has shape %r for %d cells x %d magnitudes' % (numpy.asarray(fc.data).shape, len(quadkeys), len(md)))
            return bad
        bad += _probe_rates(fc, cell_boxes, mag_boxes, table, None, probe_seed, max_cells)
        total = math.fsum(v for row in table for v in row)
        o = call(lambda: float(fc.event_count))
        if o[0] == 'raise' or not _close(o[1], total, 1e-11):
            bad.append('event_count = %r, the rate column sums to %r' % (o[1], total))
        bad += _check_marginals(fc, 'loaded forecast')
        bad += _check_scaling(fc, table, ops, t0, t1, boxes=(cell_boxes, mag_boxes, None))
    return bad[:MAXBAD + 3]
