"""Oracles for C01 (Cartesian regions: one half-open cell per point), C03 (gridding a catalog
counts every event once, in its own cell and bin) and C04 (catalog filtering keeps exactly the
events that satisfy every statement).

Inputs are JSON-able:

lattice  {'anchor': [ax, ay], 'dh': h, 'cells': [[cx, cy], ...], 'mask': [1, 0, ...] | None,
          'ctor': 'polygons' | 'from_origins' | 'from_dict'}
         the cell (cx, cy) has the origin closest-float(ax + cx*h, ay + cy*h) computed in decimal
         arithmetic on the decimal description; cells are listed in arbitrary order (= polygon
         order = cell index); mask flag 1 = active cell, 0 = flagged out (CSEP file convention)
     or  {'shipped': '<name of a region function in csep.core.regions>', 'kwargs': {...} (optional)}
         the lattice is read off the origins the built region reports.
quadtree {'zoom': L} | {'quadkeys': [...]} | {'catalog_points': [[lon, lat], ...], 'threshold': t, 'zoom': L}
events   [[id, origin_time_ms, latitude, longitude, depth, magnitude], ...]  (CSEPCatalog field order)
points   [[lon, lat], ...]; probe = generator description for points around the cells (see probe_points)

Expected outcomes are computed from the property statements: exact float comparisons of the
point against the cell boundaries (numpy.searchsorted / python comparisons), never by the floor
division of the code under test.  The tolerance the properties grant (same margin as the C02
contract of bin1d_vec): a coordinate within TOL*(|p| + (c+1)*|first boundary|) immediately BELOW
boundary number c may be attributed to either adjacent cell/bin ("adjacent" includes "outside"
at the rim); a coordinate at or above a boundary belongs to the cell that boundary opens."""
import itertools
import json
import operator
from decimal import Decimal
from fractions import Fraction

import numpy

from .oracles import oracle, call, _exc, _mkbins

TOL = 1e-11
OUT = -1


# ------------------------------------------------------------------ helpers: floats
def nudge(x, u):
    """x moved by u ulps (u may be negative); works on arrays"""
    a = numpy.array(x, dtype=numpy.float64, copy=True)
    d = numpy.inf if u > 0 else -numpy.inf
    for _ in range(abs(int(u))):
        a = numpy.nextafter(a, d)
    return a


def _dec(v):
    return Decimal(repr(float(v)))


def _pt(lon, lat):
    return '(lon=%r, lat=%r)' % (float(lon), float(lat))


# ------------------------------------------------------------------ lattice description
class _Lat:
    pass


def lattice_origins(lat):
    ax, ay = lat['anchor']
    dax, day, ddh = _dec(ax), _dec(ay), _dec(lat['dh'])
    return [(float(dax + int(cx) * ddh), float(day + int(cy) * ddh)) for cx, cy in lat['cells']]


def _build_region(lat, magnitudes=None):
    from csep.core import regions
    from csep.models import Polygon
    if 'shipped' in lat:
        return getattr(regions, lat['shipped'])(**lat.get('kwargs', {}))
    origins = lattice_origins(lat)
    dh = float(lat['dh'])
    mask = lat.get('mask')
    ctor = lat.get('ctor', 'polygons')
    if mask is not None:
        ctor = 'polygons'
    if ctor == 'from_origins':
        return regions.CartesianGrid2D.from_origins(numpy.array(origins), dh=dh, magnitudes=magnitudes)
    if ctor == 'from_dict':
        d = {'name': 'rt', 'dh': dh, 'polygons': [{'lon': o[0], 'lat': o[1]} for o in origins]}
        if magnitudes is not None:
            d['magnitudes'] = magnitudes
        return regions.CartesianGrid2D.from_dict(d)
    polys = [Polygon(b) for b in regions.compute_vertices(origins, dh)]
    return regions.CartesianGrid2D(polys, dh, mask=None if mask is None else numpy.array(mask),
                                   magnitudes=magnitudes)


def _describe(lat, region=None):
    """integer cell coordinates, boundaries (floats) and the cell table of the lattice"""
    L = _Lat()
    if 'shipped' in lat:
        o = numpy.asarray(region.origins(), dtype=numpy.float64)
        dh = float(region.dh)
        kx = numpy.rint((o[:, 0] - o[:, 0].min()) / dh).astype(int)
        ky = numpy.rint((o[:, 1] - o[:, 1].min()) / dh).astype(int)
        active = numpy.ones(len(o), dtype=bool)
        fill = [lambda k: float(o[:, 0].min() + k * dh), lambda k: float(o[:, 1].min() + k * dh)]
    else:
        cells = [(int(c[0]), int(c[1])) for c in lat['cells']]
        if len(set(cells)) != len(cells) or not cells:
            raise ValueError('lattice description: cells must be distinct and non-empty')
        o = numpy.array(lattice_origins(lat), dtype=numpy.float64).reshape(-1, 2)
        dh = float(lat['dh'])
        cx0 = min(c[0] for c in cells)
        cy0 = min(c[1] for c in cells)
        kx = numpy.array([c[0] - cx0 for c in cells])
        ky = numpy.array([c[1] - cy0 for c in cells])
        mask = lat.get('mask')
        active = numpy.ones(len(cells), dtype=bool) if mask is None else (numpy.asarray(mask) == 1)
        dax, day, ddh = _dec(lat['anchor'][0]), _dec(lat['anchor'][1]), _dec(lat['dh'])
        fill = [lambda k: float(dax + (cx0 + k) * ddh), lambda k: float(day + (cy0 + k) * ddh)]
    L.origins, L.dh, L.kx, L.ky, L.active = o, dh, kx, ky, active
    L.nx, L.ny = int(kx.max()) + 1, int(ky.max()) + 1
    L.n_cells = len(o)

    def bounds(vals, k, n, f):
        lo = numpy.empty(n + 1)
        hi = numpy.empty(n + 1)
        for kk in range(n + 1):
            sel = vals[k == kk]
            if len(sel):
                lo[kk], hi[kk] = sel.min(), sel.max()
            elif kk == n and 'shipped' in lat:
                lo[kk] = hi[kk] = hi[n - 1] + dh
            else:
                lo[kk] = hi[kk] = f(kk)
        return lo, hi
    L.bxlo, L.bxhi = bounds(o[:, 0], kx, L.nx, fill[0])
    L.bylo, L.byhi = bounds(o[:, 1], ky, L.ny, fill[1])
    t = numpy.full((L.ny + 2, L.nx + 2), OUT, dtype=numpy.int64)
    for i in range(L.n_cells):
        if active[i]:
            t[ky[i] + 1, kx[i] + 1] = i
    L.table = t
    occ = numpy.zeros((L.ny, L.nx), dtype=bool)
    occ[ky[active], kx[active]] = True
    L.occ = occ
    return L


_CACHE = {}


def get_lattice(lat, magnitudes=None):
    """(description, region built by the code under test, violated clauses)"""
    key = json.dumps([lat, None if magnitudes is None else [float(m) for m in magnitudes]], sort_keys=True)
    if key in _CACHE:
        return _CACHE[key]
    out = call(_build_region, lat, magnitudes)
    if out[0] == 'raise':
        res = (None, None, ['the region could not be built: ' + _exc(out)])
    else:
        region = out[1]
        L = _describe(lat, region)
        bad = []
        if region.num_nodes != L.n_cells:
            bad.append('region has %d cells, the lattice %d' % (region.num_nodes, L.n_cells))
        res = (L, region, bad)
    if len(_CACHE) > 16:
        _CACHE.clear()
    _CACHE[key] = res
    return res


# ------------------------------------------------------------------ expected partition
def _axis_v(p, lo, hi):
    """k = largest boundary index with boundary <= p (-1 .. n); amb: p is within the granted
    tolerance immediately below boundary k+1, so k+1 is admissible too"""
    n = len(hi) - 1
    k = numpy.searchsorted(hi, p, side='right') - 1
    k1 = numpy.minimum(k + 1, n)
    amb = (k < n) & (p >= lo[k1] - TOL * (numpy.abs(p) + (k1 + 1) * abs(float(hi[0]))))
    return k, amb


def admissible(L, lon, lat):
    """cand (4, n): admissible cell index or OUT; valid (4, n): which candidates count"""
    lon = numpy.asarray(lon, dtype=numpy.float64)
    lat = numpy.asarray(lat, dtype=numpy.float64)
    kx, ax = _axis_v(lon, L.bxlo, L.bxhi)
    ky, ay = _axis_v(lat, L.bylo, L.byhi)
    x0, y0 = kx + 1, ky + 1
    x1, y1 = numpy.minimum(kx + 2, L.nx + 1), numpy.minimum(ky + 2, L.ny + 1)
    cand = numpy.stack([L.table[y0, x0], L.table[y0, x1], L.table[y1, x0], L.table[y1, x1]])
    valid = numpy.stack([numpy.ones(lon.shape, dtype=bool), ax, ay, ax & ay])
    return cand, valid


def _in_adm(cand, valid, got):
    return (valid & (cand == got)).any(axis=0)


def _may_out(cand, valid):
    return (valid & (cand == OUT)).any(axis=0)


def _must_out(cand, valid):
    return ~((valid & (cand != OUT)).any(axis=0))


def _adm_str(L, cand, valid, j):
    s = sorted(set(int(c) for c, v in zip(cand[:, j], valid[:, j]) if v))
    parts = []
    for c in s:
        if c == OUT:
            parts.append('outside')
        else:
            parts.append('cell %d [origin %r, %r; dh %r]' % (c, float(L.origins[c, 0]), float(L.origins[c, 1]), L.dh))
    return ' or '.join(parts)


# ------------------------------------------------------------------ probe points
def probe_points(L, probe):
    """points around the cells of the lattice.
    probe = {'cells': [i0, i1] | None (all), 'ulps': [1, 2, ...], 'holes': bool, 'beyond': bool}
    per cell: centre; every corner combination of (origin | origin + dh) in each axis, moved by
    0 and +-u ulps: (bx, centre), (centre, by), (bx, by), (bx+u, by-u)"""
    ulps = [0]
    for u in probe.get('ulps', [1]):
        ulps += [int(u), -int(u)]
    sel = probe.get('cells')
    o = L.origins if sel is None else L.origins[int(sel[0]):int(sel[1])]
    dh = L.dh
    xs, ys = [], []
    if len(o):
        ox, oy = o[:, 0], o[:, 1]
        cx, cy = ox + dh / 2, oy + dh / 2
        xs.append(cx)
        ys.append(cy)
        for bx in (ox, ox + dh):
            for by in (oy, oy + dh):
                for u in ulps:
                    nx_, ny_ = nudge(bx, u), nudge(by, u)
                    xs += [nx_, cx, nx_]
                    ys += [cy, ny_, ny_]
                    if u:
                        xs.append(nx_)
                        ys.append(nudge(by, -u))
    if probe.get('holes'):
        hy, hx = numpy.nonzero(~L.occ)
        xs.append(L.bxhi[hx] + dh / 2)
        ys.append(L.byhi[hy] + dh / 2)
    if probe.get('beyond'):
        bx = [float(L.bxlo[0]) - dh / 2] + [float(b) + dh / 2 for b in L.bxhi]
        by = [float(L.bylo[0]) - dh / 2] + [float(b) + dh / 2 for b in L.byhi]
        ring = [(x, y) for x in bx for y in (by[0], by[-1])] + [(x, y) for y in by for x in (bx[0], bx[-1])]
        mx, my = (bx[0] + bx[-1]) / 2, (by[0] + by[-1]) / 2
        far = [(bx[0] - 10 * dh, my), (bx[-1] + 10 * dh, my), (mx, by[0] - 10 * dh), (mx, by[-1] + 10 * dh),
               (bx[0] - 1000.0, my), (bx[-1] + 1000.0, my), (mx, by[0] - 1000.0), (mx, by[-1] + 1000.0),
               (bx[0] - 1000.0, by[0] - 1000.0), (bx[-1] + 1000.0, by[-1] + 1000.0),
               # just outside the rim, by more than the tolerance
               (float(L.bxlo[0]) - 1e-6 * (1 + abs(float(L.bxlo[0]))), my),
               (float(L.bxhi[-1]) + 1e-6 * (1 + abs(float(L.bxhi[-1]))), my),
               (mx, float(L.bylo[0]) - 1e-6 * (1 + abs(float(L.bylo[0])))),
               (mx, float(L.byhi[-1]) + 1e-6 * (1 + abs(float(L.byhi[-1]))))]
        xs.append(numpy.array([p[0] for p in ring + far]))
        ys.append(numpy.array([p[1] for p in ring + far]))
    if not xs:
        return numpy.zeros((0, 2))
    return numpy.column_stack([numpy.concatenate([numpy.atleast_1d(a) for a in xs]),
                               numpy.concatenate([numpy.atleast_1d(a) for a in ys])])


def _points(L, points, probe):
    parts = []
    if points is not None and len(points):
        parts.append(numpy.array(points, dtype=numpy.float64).reshape(-1, 2))
    if probe:
        parts.append(probe_points(L, probe))
    if not parts:
        return numpy.zeros((0, 2))
    return numpy.concatenate(parts)


# ------------------------------------------------------------------ C01: index lookup and masking
@oracle('grid_lookup')
def _grid_lookup(lattice, points=None, probe=None, each=400, scalar=False):
    """CartesianGrid2D.get_index_of / get_masked against the half-open partition of the lattice.
    each = max number of one-point get_index_of calls (outside/ambiguous points first)"""
    L, region, bad = get_lattice(lattice)
    if bad:
        return bad
    P = _points(L, points, probe)
    lon, lat = P[:, 0].copy(), P[:, 1].copy()
    n = len(lon)
    if n == 0:
        return []
    cand, valid = admissible(L, lon, lat)
    may_out, must_out = _may_out(cand, valid), _must_out(cand, valid)
    bad = []

    def report(j, what):
        if len(bad) < 8:
            bad.append('%s: %s; required %s' % (_pt(lon[j], lat[j]), what, _adm_str(L, cand, valid, j)))

    # -- get_masked (never raises): True = not in an active cell
    masked = None
    out = call(region.get_masked, lon, lat)
    if out[0] == 'raise':
        bad.append('get_masked raised ' + _exc(out))
    else:
        m = numpy.asarray(out[1])
        if m.shape != lon.shape or m.dtype != numpy.bool_:
            bad.append('get_masked returned shape %r dtype %s for %d points' % (m.shape, m.dtype, n))
        else:
            masked = m
            for j in numpy.nonzero(m & ~may_out)[0][:4]:
                report(j, 'get_masked says outside')
            for j in numpy.nonzero(~m & must_out)[0][:4]:
                report(j, 'get_masked says inside')
    # -- get_index_of on the points that are inside for certain: must return their cells
    ins = ~may_out
    if ins.any():
        out = call(region.get_index_of, lon[ins], lat[ins])
        jj = numpy.nonzero(ins)[0]
        if out[0] == 'raise':
            if isinstance(out[1], ValueError) and masked is not None and (masked & ins).any():
                pass    # already reported point by point through get_masked
            else:
                bad.append('get_index_of raised %s on %d points that all lie in active cells' % (_exc(out), len(jj)))
        else:
            r = numpy.asarray(out[1])
            if r.shape != jj.shape or not numpy.issubdtype(r.dtype, numpy.integer):
                bad.append('get_index_of returned shape %r dtype %s for %d points' % (r.shape, r.dtype, len(jj)))
            else:
                ok = _in_adm(cand[:, jj], valid[:, jj], r)
                for q in numpy.nonzero(~ok)[0][:4]:
                    report(jj[q], 'get_index_of (array call) gave cell %d' % int(r[q]))
    # -- get_index_of on the whole batch: ValueError exactly when some point is in no active cell
    if may_out.any():
        out = call(region.get_index_of, lon, lat)
        if out[0] == 'raise':
            if not isinstance(out[1], ValueError):
                bad.append('get_index_of raised %s, the property promises ValueError' % _exc(out))
        elif must_out.any():
            j = int(numpy.nonzero(must_out)[0][0])
            report(j, 'get_index_of (array call with %d points) returned instead of raising ValueError' % n)
        else:
            r = numpy.asarray(out[1])
            if r.shape == lon.shape:
                for j in numpy.nonzero(~_in_adm(cand, valid, r))[0][:4]:
                    report(j, 'get_index_of (array call) gave cell %d' % int(r[j]))
    # -- one point at a time
    amb = valid[1:].any(axis=0)
    prio = numpy.argsort(~(may_out | amb), kind='stable')
    if n > each:
        first = prio[:int((may_out | amb).sum())][:each]
        rest = prio[int((may_out | amb).sum()):]
        k = max(0, each - len(first))
        if k and len(rest):
            rest = rest[::max(1, len(rest) // k)][:k]
        else:
            rest = rest[:0]
        chosen = numpy.concatenate([first, rest])
    else:
        chosen = prio
    for j in chosen.tolist():
        if scalar:
            out = call(region.get_index_of, float(lon[j]), float(lat[j]))
        else:
            out = call(region.get_index_of, [float(lon[j])], [float(lat[j])])
        if out[0] == 'raise':
            if not isinstance(out[1], ValueError):
                report(j, 'get_index_of raised %s (ValueError promised)' % _exc(out))
            elif not may_out[j]:
                report(j, 'get_index_of raised ValueError')
            got_out = True
        else:
            r = numpy.asarray(out[1])
            if r.size != 1 or not numpy.issubdtype(r.dtype, numpy.integer):
                report(j, 'get_index_of returned %r' % (out[1],))
                continue
            g = int(r.reshape(-1)[0])
            if not _in_adm(cand[:, j:j + 1], valid[:, j:j + 1], numpy.array([g]))[0] or g == OUT:
                report(j, 'get_index_of gave cell %d' % g)
            got_out = False
        if masked is not None and bool(masked[j]) != got_out:
            report(j, 'get_masked = %r but get_index_of %s (the two must agree)' % (bool(masked[j]), 'raised' if got_out else 'returned'))
    return bad[:8]


@oracle('grid_cartesian')
def _grid_cartesian(lattice):
    """index plumbing of the same partition: origins / get_location_of give back the cells in the
    described order, get_cartesian puts the value of cell i at its (row, column) of the bounding
    box and NaN wherever there is no active cell"""
    L, region, bad = get_lattice(lattice)
    if bad:
        return bad
    bad = []
    o = call(region.origins)
    if o[0] == 'raise' or not numpy.array_equal(numpy.asarray(o[1], dtype=float), L.origins):
        bad.append('origins() differs from the origins the region was built from')
    loc = call(region.get_location_of, list(range(L.n_cells)))
    if loc[0] == 'raise':
        bad.append('get_location_of raised ' + _exc(loc))
    else:
        for i, pol in enumerate(loc[1]):
            if tuple(float(v) for v in pol.origin) != (float(L.origins[i, 0]), float(L.origins[i, 1])):
                bad.append('get_location_of([%d]) has origin %r, cell %d has origin %r' % (i, pol.origin, i, L.origins[i].tolist()))
                break
    data = numpy.arange(L.n_cells, dtype=float) + 1.0
    out = call(region.get_cartesian, data)
    if out[0] == 'raise':
        bad.append('get_cartesian raised ' + _exc(out))
    else:
        a = numpy.asarray(out[1], dtype=float)
        exp = numpy.where(L.table[1:-1, 1:-1] == OUT, numpy.nan, L.table[1:-1, 1:-1] + 1.0)
        if a.shape != exp.shape:
            bad.append('get_cartesian shape %r, bounding box has %d rows x %d columns' % (a.shape, L.ny, L.nx))
        elif not numpy.array_equal(a, exp, equal_nan=True):
            ky, kx = numpy.argwhere(~((a == exp) | (numpy.isnan(a) & numpy.isnan(exp))))[0]
            bad.append('get_cartesian[row %d, column %d] = %r, required %r' % (ky, kx, float(a[ky, kx]), float(exp[ky, kx])))
    bb = call(region.get_bbox)
    if bb[0] == 'return':
        want = (L.bxhi[0], L.bxhi[-1], L.byhi[0], L.byhi[-1])
        if any(abs(float(g) - float(w)) > 1e-9 * (1 + abs(float(w))) for g, w in zip(bb[1], want)):
            bad.append('get_bbox %r, required %r' % (tuple(float(g) for g in bb[1]), tuple(float(w) for w in want)))
    return bad


def _norm_events(events):
    return [(str(e[0]), int(e[1]), float(e[2]), float(e[3]), float(e[4]), float(e[5])) for e in events]


def _rows(cat):
    out = []
    for r in cat.catalog.tolist():
        i = r[0].decode('utf-8') if isinstance(r[0], bytes) else str(r[0])
        out.append((i, int(r[1]), float(r[2]), float(r[3]), float(r[4]), float(r[5])))
    return out


def _mkcat(events, **kw):
    from csep.core.catalogs import CSEPCatalog
    return CSEPCatalog(data=[tuple(e) for e in events], **kw)


def _count_bounds(cand, valid, n_cells):
    """lower[i] = events that are in cell i for certain, upper[i] = events that may be in cell i"""
    lower = numpy.zeros(n_cells)
    upper = numpy.zeros(n_cells)
    sure = valid.sum(axis=0) == 1
    c0 = cand[0]
    numpy.add.at(lower, c0[sure & (c0 != OUT)], 1)
    for q in range(cand.shape[0]):
        s = valid[q] & (cand[q] != OUT)
        numpy.add.at(upper, cand[q][s], 1)
    return lower, upper


# ------------------------------------------------------------------ C01/C04: spatial filter, counts
@oracle('grid_catalog')
def _grid_catalog(lattice, points=None, probe=None, in_place=True):
    """filter_spatial keeps exactly the events in active cells (order, fields unchanged);
    spatial_counts agrees with the same partition; both agree with get_masked/get_index_of"""
    L, region, bad = get_lattice(lattice)
    if bad:
        return bad
    P = _points(L, points, probe)
    lon, lat = P[:, 0].copy(), P[:, 1].copy()
    n = len(lon)
    events = [('e%d' % j, 1000 + j, float(lat[j]), float(lon[j]), float(j % 7), 4.0 + (j % 30) / 10.0) for j in range(n)]
    cand, valid = admissible(L, lon, lat)
    may_out, must_out = _may_out(cand, valid), _must_out(cand, valid)
    lower, upper = _count_bounds(cand, valid, L.n_cells)
    bad = []
    cat = _mkcat(events)
    out = call(cat.filter_spatial, region=region, in_place=in_place)
    if out[0] == 'raise':
        return ['filter_spatial raised ' + _exc(out)]
    res = out[1]
    if in_place and res is not cat:
        bad.append('filter_spatial(in_place=True) did not return the catalog itself')
    if not in_place:
        if res is cat:
            bad.append('filter_spatial(in_place=False) returned the original object')
        if _rows(cat) != events:
            bad.append('filter_spatial(in_place=False) changed the events of the original catalog')
    rows = _rows(res)
    byid = {e[0]: j for j, e in enumerate(events)}
    kept_idx = [byid.get(r[0], -1) for r in rows]
    if -1 in kept_idx or len(set(kept_idx)) != len(kept_idx):
        return bad + ['filter_spatial produced unknown or duplicated events']
    if kept_idx != sorted(kept_idx):
        bad.append('filter_spatial changed the order of the events')
    for r, j in zip(rows, kept_idx):
        if r != events[j]:
            bad.append('filter_spatial changed the fields of event %r: %r' % (events[j], r))
            break
    kept = numpy.zeros(n, dtype=bool)
    kept[kept_idx] = True
    for j in numpy.nonzero(kept & must_out)[0][:4]:
        bad.append('%s: kept by filter_spatial; required %s' % (_pt(lon[j], lat[j]), _adm_str(L, cand, valid, j)))
    for j in numpy.nonzero(~kept & ~may_out)[0][:4]:
        bad.append('%s: dropped by filter_spatial; required %s' % (_pt(lon[j], lat[j]), _adm_str(L, cand, valid, j)))
    if n:
        m = call(region.get_masked, lon, lat)
        if m[0] == 'return' and numpy.asarray(m[1]).shape == kept.shape and numpy.any(numpy.asarray(m[1]) == kept):
            j = int(numpy.nonzero(numpy.asarray(m[1]) == kept)[0][0])
            bad.append('%s: filter_spatial and get_masked disagree' % _pt(lon[j], lat[j]))
    # spatial_counts of the filtered catalog (region bound by filter_spatial): never raises
    if getattr(res, 'region', None) is not region:
        bad.append('filter_spatial did not bind the region to the result')
        res.region = region
    sc = call(res.spatial_counts)
    if sc[0] == 'raise':
        bad.append('spatial_counts of the spatially filtered catalog raised ' + _exc(sc))
    else:
        c = numpy.asarray(sc[1])
        if c.shape != (L.n_cells,):
            bad.append('spatial_counts shape %r, %d cells' % (c.shape, L.n_cells))
        else:
            kl, ku = _count_bounds(cand[:, kept], valid[:, kept], L.n_cells)
            if c.sum() != kept.sum():
                bad.append('spatial_counts sums to %r for %d events inside the region' % (float(c.sum()), int(kept.sum())))
            w = numpy.nonzero((c < kl) | (c > ku))[0]
            for i in w[:4]:
                bad.append('spatial_counts[%d] = %r, required between %d and %d (cell origin %r, %r)' %
                           (i, float(c[i]), kl[i], ku[i], float(L.origins[i, 0]), float(L.origins[i, 1])))
            if kept.any():
                gi = call(region.get_index_of, lon[kept], lat[kept])
                if gi[0] == 'return' and not numpy.array_equal(numpy.bincount(numpy.asarray(gi[1]).astype(int).ravel(), minlength=L.n_cells), c):
                    bad.append('spatial_counts disagrees with get_index_of on the same events')
    # spatial_counts of the unfiltered catalog: events outside are reported (ValueError), never counted elsewhere
    cat2 = _mkcat(events, region=region)
    sc = call(cat2.spatial_counts)
    if sc[0] == 'raise':
        if not isinstance(sc[1], ValueError):
            bad.append('spatial_counts raised %s (ValueError promised for events outside)' % _exc(sc))
        elif not may_out.any():
            bad.append('spatial_counts raised ValueError although every event lies in an active cell')
    else:
        c = numpy.asarray(sc[1])
        if c.shape != (L.n_cells,):
            bad.append('spatial_counts shape %r, %d cells' % (c.shape, L.n_cells))
        else:
            w = numpy.nonzero((c < lower) | (c > upper))[0]
            for i in w[:4]:
                bad.append('spatial_counts[%d] = %r with events outside the region present, required between %d and %d' %
                           (i, float(c[i]), lower[i], upper[i]))
            if not may_out.any() and c.sum() != n:
                bad.append('spatial_counts sums to %r for %d events' % (float(c.sum()), n))
    return bad[:8]


# ------------------------------------------------------------------ quadtree
def _build_quadtree(spec, magnitudes=None):
    from csep.core.regions import QuadtreeGrid2D
    if 'zoom' in spec and 'catalog_points' not in spec:
        return QuadtreeGrid2D.from_single_resolution(int(spec['zoom']), magnitudes=magnitudes)
    if 'quadkeys' in spec:
        return QuadtreeGrid2D.from_quadkeys(list(spec['quadkeys']), magnitudes=magnitudes)
    pts = spec['catalog_points']
    cat = _mkcat([('q%d' % j, j, float(p[1]), float(p[0]), 0.0, 5.0) for j, p in enumerate(pts)])
    return QuadtreeGrid2D.from_catalog(cat, int(spec['threshold']), zoom=int(spec['zoom']), magnitudes=magnitudes)


def _quad_cells(bounds, lon, lat):
    """index of the one cell whose half-open box [lon1, lon2) x [lat1, lat2) contains the point, or OUT;
    None if the boxes overlap at a point (not a partition)"""
    b = numpy.asarray(bounds, dtype=numpy.float64)
    lon = numpy.asarray(lon, dtype=numpy.float64)[:, None]
    lat = numpy.asarray(lat, dtype=numpy.float64)[:, None]
    inside = (lon >= b[None, :, 0]) & (lat >= b[None, :, 1]) & (lon < b[None, :, 2]) & (lat < b[None, :, 3])
    cnt = inside.sum(axis=1)
    if numpy.any(cnt > 1):
        return None
    idx = numpy.where(cnt == 1, inside.argmax(axis=1), OUT)
    return idx.astype(numpy.int64)


@oracle('quadtree_index')
def _quadtree_index(quadtree, points, form='array'):
    """QuadtreeGrid2D.get_index_of: exactly one entry per input point; the entry of a point inside
    the grid is its cell; a point outside the grid is rejected (exception) or marked by a negative
    entry - it must not make the result shorter than the input.  form: 'array' | 'list' | 'scalar'"""
    out = call(_build_quadtree, quadtree)
    if out[0] == 'raise':
        return ['the quadtree region could not be built: ' + _exc(out)]
    region = out[1]
    P = numpy.array(points, dtype=numpy.float64).reshape(-1, 2)
    lon, lat = P[:, 0], P[:, 1]
    exp = _quad_cells(region.bounds, lon, lat)
    if exp is None:
        return ['quadtree cells overlap: some point lies in two cells']
    bad = []
    if form == 'scalar':
        for j in range(len(lon)):
            out = call(region.get_index_of, float(lon[j]), float(lat[j]))
            if out[0] == 'raise':
                if exp[j] != OUT:
                    bad.append('%s: get_index_of raised %s, required cell %d' % (_pt(lon[j], lat[j]), _exc(out), exp[j]))
                continue
            r = numpy.asarray(out[1])
            if exp[j] == OUT:
                if r.size > 1 or (r.size == 1 and int(r.reshape(-1)[0]) >= 0):
                    bad.append('%s: outside the grid but get_index_of gave %r' % (_pt(lon[j], lat[j]), out[1]))
            elif r.size != 1 or int(r.reshape(-1)[0]) != exp[j]:
                bad.append('%s: get_index_of gave %r, required cell %d' % (_pt(lon[j], lat[j]), out[1], exp[j]))
        return bad[:8]
    a = (lon.tolist(), lat.tolist()) if form == 'list' else (lon.copy(), lat.copy())
    out = call(region.get_index_of, *a)
    if out[0] == 'raise':
        if numpy.all(exp != OUT):
            bad.append('get_index_of raised %s although every point lies in a cell' % _exc(out))
        return bad
    r = numpy.asarray(out[1])
    if r.ndim != 1 or len(r) != len(lon):
        return ['get_index_of returned %d indices %r for %d points %r (cells required: %r, -1 = outside the grid)' %
                (r.size, r.tolist(), len(lon), P.tolist(), exp.tolist())]
    for j in range(len(lon)):
        g = int(r[j])
        if exp[j] == OUT and g >= 0:
            bad.append('%s: outside the grid but attributed to cell %d' % (_pt(lon[j], lat[j]), g))
        elif exp[j] != OUT and g != exp[j]:
            bad.append('%s: get_index_of gave %d, required cell %d' % (_pt(lon[j], lat[j]), g, exp[j]))
    return bad[:8]


# ------------------------------------------------------------------ C03: gridding counts
def _bin_adm(mags, edges):
    """bcand (2, n), bvalid (2, n): admissible magnitude bins (open top bin), -1 = below the first edge"""
    e = numpy.asarray(edges, dtype=numpy.float64)
    ext = numpy.concatenate([e, [numpy.inf]])
    k, amb = _axis_v(numpy.asarray(mags, dtype=numpy.float64), ext, ext)
    amb = amb & (k + 1 <= len(e) - 1)
    return numpy.stack([k, numpy.minimum(k + 1, len(e) - 1)]), numpy.stack([numpy.ones(k.shape, dtype=bool), amb])


@oracle('gridding_counts')
def _gridding_counts(region, mag_bins, events, bind='explicit'):
    """spatial_magnitude_counts / spatial_counts / magnitude_counts / spatial_event_probability of one
    catalog on one space-magnitude region.
    region = {'lattice': {...}} | {'quadtree': {...}};  bind = 'explicit' (mag_bins passed to the
    calls) | 'region' (magnitudes bound to the region, calls without mag_bins)"""
    edges = numpy.asarray(_mkbins(mag_bins), dtype=numpy.float64)
    M = len(edges)
    events = _norm_events(events)
    N = len(events)
    lat = numpy.array([e[2] for e in events], dtype=numpy.float64)
    lon = numpy.array([e[3] for e in events], dtype=numpy.float64)
    mag = numpy.array([e[5] for e in events], dtype=numpy.float64)
    bound = edges.copy() if bind == 'region' else None
    if 'lattice' in region:
        L, reg, bad = get_lattice(region['lattice'], magnitudes=None if bound is None else bound.tolist())
        if bad:
            return bad
        if bound is not None:
            reg.magnitudes = bound
        n_cells = L.n_cells
        cand, valid = admissible(L, lon, lat)
        cart = True
    else:
        out = call(_build_quadtree, region['quadtree'], bound)
        if out[0] == 'raise':
            return ['the quadtree region could not be built: ' + _exc(out)]
        reg = out[1]
        n_cells = len(reg.bounds)
        ex = _quad_cells(reg.bounds, lon, lat) if N else numpy.zeros(0, dtype=numpy.int64)
        if ex is None:
            return ['quadtree cells overlap']
        cand, valid = ex[None, :], numpy.ones((1, N), dtype=bool)
        cart = False
    bcand, bvalid = _bin_adm(mag, edges)
    may_out, must_out = _may_out(cand, valid), _must_out(cand, valid)
    may_below = (bvalid & (bcand == -1)).any(axis=0)
    must_below = ~((bvalid & (bcand != -1)).any(axis=0))
    amb_mag = bvalid[1]
    # bounds on every entry
    lo2 = numpy.zeros((n_cells, M))
    up2 = numpy.zeros((n_cells, M))
    loS, upS = _count_bounds(cand, valid, n_cells)
    loM = numpy.zeros(M)
    upM = numpy.zeros(M)
    for j in range(N):
        cs = set(int(c) for c, v in zip(cand[:, j], valid[:, j]) if v)
        bs = set(int(b) for b, v in zip(bcand[:, j], bvalid[:, j]) if v)
        for b in bs:
            if b >= 0:
                upM[b] += 1
                if len(bs) == 1:
                    loM[b] += 1
        for c in cs:
            for b in bs:
                if c != OUT and b >= 0:
                    up2[c, b] += 1
                    if len(cs) == 1 and len(bs) == 1:
                        lo2[c, b] += 1
    kw = {} if bind == 'region' else {'mag_bins': edges.copy()}
    mk = lambda: _mkcat(events, region=reg)
    bad = []
    desc = 'events=%r bins=%r' % ([(e[3], e[2], e[5]) for e in events[:6]], edges.tolist()[:6])

    # -- spatial_magnitude_counts
    smc = call(mk().spatial_magnitude_counts, **kw)
    smc_v = None
    if smc[0] == 'raise':
        if not (may_out.any() or may_below.any()):
            bad.append('spatial_magnitude_counts raised %s although every event is inside the region and at/above the first edge' % _exc(smc))
    else:
        a = numpy.asarray(smc[1])
        if must_out.any() or must_below.any():
            j = int(numpy.nonzero(must_out | must_below)[0][0])
            bad.append('spatial_magnitude_counts returned (total %r of %d events) although event %d %s must be rejected (%s); %s' %
                       (float(a.sum()), N, j, (events[j][3], events[j][2], events[j][5]),
                        'outside the region' if must_out[j] else 'below the first magnitude edge', desc))
        if a.shape != (n_cells, M):
            bad.append('spatial_magnitude_counts shape %r, required %r' % (a.shape, (n_cells, M)))
        else:
            smc_v = a
            w = numpy.argwhere((a < lo2) | (a > up2))
            for i, k in w[:3]:
                bad.append('spatial_magnitude_counts[%d,%d] = %r, required between %d and %d; %s' % (i, k, float(a[i, k]), lo2[i, k], up2[i, k], desc))
            if not (may_out.any() or may_below.any()) and a.sum() != N:
                bad.append('spatial_magnitude_counts total %r for %d events' % (float(a.sum()), N))
    # -- spatial_counts
    sc = call(mk().spatial_counts)
    sc_v = None
    if sc[0] == 'raise':
        if not may_out.any():
            bad.append('spatial_counts raised %s although every event is inside the region' % _exc(sc))
        elif cart and not isinstance(sc[1], ValueError):
            bad.append('spatial_counts raised %s (ValueError promised)' % _exc(sc))
    else:
        c = numpy.asarray(sc[1])
        if c.shape != (n_cells,):
            bad.append('spatial_counts shape %r for %d cells' % (c.shape, n_cells))
        else:
            sc_v = c
            for i in numpy.nonzero((c < loS) | (c > upS))[0][:3]:
                bad.append('spatial_counts[%d] = %r, required between %d and %d; %s' % (i, float(c[i]), loS[i], upS[i], desc))
    # -- magnitude_counts: never rejects, leaves events below the first edge uncounted
    mc = call(mk().magnitude_counts, **kw)
    mc_v = None
    if mc[0] == 'raise':
        bad.append('magnitude_counts raised ' + _exc(mc))
    else:
        c = numpy.asarray(mc[1])
        if c.shape != (M,):
            bad.append('magnitude_counts shape %r for %d bins' % (c.shape, M))
        else:
            mc_v = c
            for k in numpy.nonzero((c < loM) | (c > upM))[0][:3]:
                bad.append('magnitude_counts[%d] = %r, required between %d and %d (magnitudes %r, edges %r)' %
                           (k, float(c[k]), loM[k], upM[k], mag.tolist()[:8], edges.tolist()[:8]))
            if not (c.sum() >= N - may_below.sum() and c.sum() <= N - must_below.sum()):
                bad.append('magnitude_counts total %r: %d events, %d below the first edge %r (must stay uncounted)' %
                           (float(c.sum()), N, int(must_below.sum()), float(edges[0])))
    # -- marginals
    if smc_v is not None and sc_v is not None and not numpy.array_equal(smc_v.sum(axis=1), sc_v):
        bad.append('sum over magnitude of spatial_magnitude_counts differs from spatial_counts; ' + desc)
    if smc_v is not None and mc_v is not None and not (may_out.any() or may_below.any()) \
            and not numpy.array_equal(smc_v.sum(axis=0), mc_v):
        bad.append('sum over space of spatial_magnitude_counts differs from magnitude_counts; ' + desc)
    # -- occupancy
    sep = call(mk().spatial_event_probability)
    if sep[0] == 'raise':
        if sc[0] == 'return':
            bad.append('spatial_event_probability raised %s where spatial_counts returned' % _exc(sep))
    else:
        p = numpy.asarray(sep[1])
        if p.shape != (n_cells,):
            bad.append('spatial_event_probability shape %r' % (p.shape,))
        else:
            if not numpy.all((p == 0) | (p == 1)):
                bad.append('spatial_event_probability has entries other than 0 and 1')
            if sc_v is not None and not numpy.array_equal(p == 1, sc_v > 0):
                bad.append('spatial_event_probability is not 1 exactly where spatial_counts > 0; ' + desc)
            w = numpy.nonzero(((p == 1) & (upS == 0)) | ((p == 0) & (loS > 0)))[0]
            for i in w[:3]:
                bad.append('spatial_event_probability[%d] = %r but the cell holds between %d and %d events' % (i, float(p[i]), loS[i], upS[i]))
    # -- magnitude-range filter
    ml = mag.tolist()
    for k in range(M):
        st = ['magnitude >= %r' % float(edges[k])]
        if k + 1 < M:
            st.append('magnitude < %r' % float(edges[k + 1]))
        f = call(mk().filter, st, in_place=False)
        if f[0] == 'raise':
            bad.append('filter(%r) raised %s' % (st, _exc(f)))
            continue
        nk = f[1].event_count
        ek = sum(1 for m in ml if m >= float(edges[k]) and (k + 1 == M or m < float(edges[k + 1])))
        if nk != ek:
            bad.append('filter(%r) keeps %d events, %d satisfy it' % (st, nk, ek))
        # without magnitudes in the tolerance zone below an edge the two counts are the same number
        if mc_v is not None and not amb_mag.any() and mc_v[k] != ek:
            bad.append('magnitude_counts[%d] = %r but filter(%r) keeps %d events (magnitudes %r)' %
                       (k, float(mc_v[k]), st, ek, ml[:8]))
    return bad[:8]


# ------------------------------------------------------------------ C04: filter
_OPS = {'<': operator.lt, '<=': operator.le, '>': operator.gt, '>=': operator.ge, '==': operator.eq}
_POS = {'origin_time': 1, 'latitude': 2, 'longitude': 3, 'depth': 4, 'magnitude': 5}


def _days_from_civil(y, m, d):
    y -= m <= 2
    era = (y if y >= 0 else y - 399) // 400
    yoe = y - era * 400
    doy = (153 * (m + (-3 if m > 2 else 9)) + 2) // 5 + d - 1
    doe = yoe * 365 + yoe // 4 - yoe // 100 + doy
    return era * 146097 + doe - 719468


def epoch_ms_of(date, time):
    """exact epoch milliseconds (Fraction) of 'YYYY-MM-DD' 'HH:MM:SS[.f{1,6}]' (UTC, proleptic Gregorian)"""
    y, mo, d = [int(v) for v in date.split('-')]
    hh, mm, ss = time.split(':')
    if '.' in ss:
        s, f = ss.split('.')
        frac = Fraction(int(f), 10 ** len(f))
    else:
        s, frac = ss, Fraction(0)
    secs = ((_days_from_civil(y, mo, d) * 24 + int(hh)) * 60 + int(mm)) * 60 + int(s)
    return (secs + frac) * 1000


def parse_statement(s):
    """(field position, operator, value); value None if the datetime is not a whole millisecond"""
    parts = s.split(' ')
    if parts[0] == 'datetime':
        _, op, date, time = parts
        ms = epoch_ms_of(date, time)
        return (1, op, int(ms) if ms.denominator == 1 else None)
    name, op, val = parts
    return (_POS[name], op, float(val))


def _select(events, parsed):
    return [e for e in events if all(_OPS[op](e[pos], v) for pos, op, v in parsed)]


@oracle('catalog_filter')
def _catalog_filter(events, statements, container='list', in_place=True, via='arg'):
    """CSEPCatalog.filter.  statements: list of 'attribute op value' / 'datetime op DATE TIME';
    container: 'str' (single statement passed as a string) | 'list' | 'tuple';
    via: 'arg' (statements passed to filter) | 'ctor' (passed as filters= to the constructor, filter())"""
    events = _norm_events(events)
    statements = [statements] if isinstance(statements, str) else list(statements)
    parsed = [parse_statement(s) for s in statements]
    if any(p[2] is None for p in parsed):
        return []     # sub-millisecond instants are outside the property (epoch milliseconds)
    exp = _select(events, parsed)
    if container == 'str':
        if len(statements) != 1:
            raise ValueError("container 'str' needs exactly one statement")
        arg = statements[0]
    elif container == 'tuple':
        arg = tuple(statements)
    else:
        arg = list(statements)
    bad = []

    def differs(rows, what, want=None):
        want = exp if want is None else want
        if rows != want:
            ids_r, ids_w = [r[0] for r in rows], [r[0] for r in want]
            if ids_r == ids_w:
                bad.append('%s: fields of the kept events changed: %r, required %r' % (what, rows[:4], want[:4]))
            elif sorted(ids_r) == sorted(ids_w):
                bad.append('%s: order changed: %r, required %r' % (what, ids_r, ids_w))
            else:
                bad.append('%s: kept events %r, required exactly %r (events %r)' % (what, ids_r, ids_w, events[:6]))
            return True
        return False

    if via == 'ctor':
        cat = _mkcat(events, filters=arg)
        out = call(cat.filter, in_place=in_place)
    else:
        cat = _mkcat(events)
        out = call(cat.filter, arg, in_place=in_place)
    label = 'filter(%r, in_place=%r)' % (arg, in_place)
    if out[0] == 'raise':
        return ['%s raised %s' % (label, _exc(out))]
    res = out[1]
    from csep.core.catalogs import CSEPCatalog
    if not isinstance(res, CSEPCatalog):
        return ['%s returned %r' % (label, type(res))]
    differs(_rows(res), label)
    if res.event_count != len(_rows(res)):
        bad.append('%s: event_count %r for %d events' % (label, res.event_count, len(_rows(res))))
    if in_place:
        if res is not cat:
            bad.append('%s did not return the catalog itself' % label)
    else:
        if res is cat:
            bad.append('%s returned the original object' % label)
        if _rows(cat) != events:
            bad.append('%s changed the events of the original catalog: %r' % (label, _rows(cat)[:4]))
        if res.catalog is cat.catalog or (len(events) and numpy.shares_memory(res.catalog, cat.catalog)):
            bad.append('%s: the new catalog shares its event array with the original' % label)
    # re-applying is a no-op
    first = _rows(res)
    again = call(res.filter, arg, in_place=in_place)
    if again[0] == 'raise':
        bad.append('re-applying %s raised %s' % (label, _exc(again)))
    else:
        differs(_rows(again[1]), 're-applying ' + label, first)
    # statement order
    if len(statements) > 1:
        if len(statements) <= 3:
            perms = list(itertools.permutations(statements))[1:]
        else:
            perms = [statements[::-1], statements[1:] + statements[:1]]
        for pm in perms:
            o = call(_mkcat(events).filter, list(pm), in_place=False)
            if o[0] == 'raise':
                bad.append('filter(%r) raised %s' % (list(pm), _exc(o)))
            elif differs(_rows(o[1]), 'filter(%r) (reordered statements)' % (list(pm),)):
                break
    # together vs one after another (each passed as a string)
    if statements:
        c = _mkcat(events)
        ok = True
        for s in statements:
            o = call(c.filter, s, in_place=in_place)
            if o[0] == 'raise':
                bad.append('filter(%r) raised %s' % (s, _exc(o)))
                ok = False
                break
            c = o[1]
        if ok:
            differs(_rows(c), 'statements %r applied one after another' % (statements,))
    # a single statement: str, [str] and (str,) are the same
    if len(statements) == 1:
        for a in (statements[0], [statements[0]], (statements[0],)):
            o = call(_mkcat(events).filter, a, in_place=False)
            if o[0] == 'raise':
                bad.append('filter(%r) raised %s' % (a, _exc(o)))
            else:
                differs(_rows(o[1]), 'filter(%r)' % (a,))
    # datetime statement == origin_time statement for the same instant
    if any(s.startswith('datetime ') for s in statements):
        eq = ['origin_time %s %d' % (p[1], p[2]) if s.startswith('datetime ') else s for s, p in zip(statements, parsed)]
        o = call(_mkcat(events).filter, eq, in_place=False)
        if o[0] == 'raise':
            bad.append('filter(%r) raised %s' % (eq, _exc(o)))
        elif _rows(o[1]) != first:
            bad.append('filter(%r) keeps %r but the origin_time form %r keeps %r (origin times %r)' %
                       (arg, [r[0] for r in first], eq, [r[0] for r in _rows(o[1])], [e[1] for e in events][:8]))
    return bad[:8]


# ------------------------------------------------------------------ suite helper
import re as _re

from .tally import Tally as _Tally


class ClassTally(_Tally):
    """Tally that keeps at most `per_class` failures per (oracle, kind of first violated clause), so
    that one known defect does not use up all failure slots and hide a different one."""

    def __init__(self, max_fail=12, per_class=2):
        super().__init__(max_fail=max_fail)
        self.per_class = per_class
        self.classes = {}

    def run(self, oracle, args, key=None, nontrivial=True):
        self.evaluations += 1
        if nontrivial:
            self.distinct.add(key if key is not None else repr(args))
        from .oracles import ORACLES
        bad = ORACLES[oracle](**args)
        if len(self.samples) < 3:
            self.samples.append({'oracle': oracle, 'args': args})
        if bad:
            from .tally import match_known
            if match_known(oracle, args, bad) is not None:
                self.record_failure(oracle, args, bad)     # open known finding: kept apart
                return bad
            first = bad[0].split(': ', 1)[-1] if bad[0].startswith('(lon=') else bad[0]
            cls = (oracle, _re.sub(r'[-+]?\d[\d.e+-]*', '#', first)[:60])
            self.classes[cls] = self.classes.get(cls, 0) + 1
            if self.classes[cls] <= self.per_class and len(self.failures) < self.max_fail:
                self.failures.append({'oracle': oracle, 'args': args, 'violated_clauses': bad})
        return bad

    def result(self, **extra):
        r = super().result(**extra)
        r['failure_classes'] = [{'oracle': k[0], 'clause': k[1], 'count': v} for k, v in sorted(self.classes.items())]
        return r
