"""Bounded stand-in for C18: every EvaluationResult class x field values (finite, inf, NaN, None, numpy
scalars / arrays) x three ways of writing JSON; every evaluation function run on small generated
inputs; Cartesian lattices rebuilt from their dictionary and probed."""
import random

from .tally import Tally
from . import oracles_io  # noqa: F401

CLASSES = ['EvaluationResult', 'CatalogNumberTestResult', 'CatalogSpatialTestResult', 'CatalogMagnitudeTestResult',
           'CatalogPseudolikelihoodTestResult', 'CalibrationTestResult']
FUNCS = ['catalog.number_test', 'catalog.spatial_test', 'catalog.magnitude_test', 'catalog.pseudolikelihood_test',
         'catalog.calibration_test', 'catalog.resampled_magnitude_test', 'catalog.MLL_magnitude_test',
         'poisson.number_test', 'poisson.likelihood_test', 'poisson.conditional_likelihood_test', 'poisson.spatial_test',
         'poisson.magnitude_test', 'poisson.paired_t_test',
         'binomial.negative_binomial_number_test', 'binomial.binary_spatial_test', 'binomial.binary_conditional_likelihood_test',
         'binomial.binary_paired_t_test']
STATS = [0.5, -12.25, 3, 0, 'inf', '-inf', 'nan', None, 1e-300, 0.1 + 0.2]
QUANTS = [[0.25, 0.75], [0.0, 1.0], 0.5, [None, None], ['nan', 'nan'], [-1, -1], None]
DISTS = [[], [1.0], [0.5, 1.5, 2.5], [3, 4, 4, 7], ['-inf', 0.5, 'inf'], ['nan', 1.0], [0.1 + 0.2, 1 / 3, 1e-17]]


def lattices(rng, n):
    out = [{'lon0': '-125.4', 'lat0': '31.5', 'dh': '0.1', 'cells': [[i, j] for i in range(5) for j in range(4)]},
           {'lon0': '0', 'lat0': '0', 'dh': '1', 'cells': [[0, 0]]},
           {'lon0': '-0.5', 'lat0': '-0.5', 'dh': '0.5', 'cells': [[0, 0], [1, 0], [1, 1], [2, 1], [2, 2]]},
           {'lon0': '-125.4', 'lat0': '40.1', 'dh': '0.1', 'cells': [[i, 0] for i in range(60)]},
           {'lon0': '165.3', 'lat0': '-47.05', 'dh': '0.05', 'cells': [[i, j] for i in range(12) for j in range(3) if (i + j) % 5]}]
    for _ in range(n):
        nx, ny = rng.randint(1, 12), rng.randint(1, 12)
        cells = [[i, j] for i in range(nx) for j in range(ny)]
        if len(cells) > 4 and rng.random() < 0.6:
            for _ in range(rng.randint(1, len(cells) // 3)):
                cells.pop(rng.randrange(len(cells)))
        if rng.random() < 0.5:
            rng.shuffle(cells)
        dec = rng.choice([0, 1, 2])
        out.append({'lon0': repr(round(rng.uniform(-180, 170), dec)), 'lat0': repr(round(rng.uniform(-80, 70), dec)),
                    'dh': rng.choice(['0.1', '0.5', '1', '0.25', '0.05', '0.2', '2', '0.01']), 'cells': cells})
    return out


def run(tier, seed):
    rng = random.Random(seed)
    T = Tally()
    vias = ['write_json', 'repository', 'to_dict_json']
    for cls in CLASSES:
        # every class once with plain values through every writer (D9 shows here)
        for via in vias:
            T.run('evaluation_result_roundtrip', {'cls': cls, 'observed_statistic': 1.5, 'quantile': [0.25, 0.75], 'test_distribution': [1.0, 2.0, 3.0],
                                                  'sim_name': 'sim', 'obs_name': 'obs', 'min_mw': 4.95, 'via': via}, key=(cls, 'plain', via))
        for k, st in enumerate(STATS):
            q = QUANTS[k % len(QUANTS)]
            td = DISTS[k % len(DISTS)]
            for via in vias[:2] if tier == 'quick' else vias:
                for stat_type in ('python', 'numpy'):
                    if stat_type == 'numpy' and (isinstance(st, int) or (isinstance(q, list) and None in q and False)):
                        continue
                    T.run('evaluation_result_roundtrip',
                          {'cls': cls, 'name': 'N-Test %d' % k, 'status': ['normal', 'not-valid', 'undersampled'][k % 3], 'observed_statistic': st,
                           'quantile': q, 'test_distribution': td, 'sim_name': ['sim', None, 'a "b"'][k % 3], 'obs_name': ['obs', None][k % 2],
                           'min_mw': [4.95, None, 'nan', 2.5][k % 4], 'via': via, 'td_type': ['list', 'ndarray'][k % 2], 'stat_type': stat_type},
                          key=(cls, 'stat', k, via, stat_type))
        for k, td in enumerate(DISTS):
            for tdt in ('list', 'ndarray'):
                T.run('evaluation_result_roundtrip', {'cls': cls, 'observed_statistic': 0.5, 'quantile': QUANTS[k % len(QUANTS)], 'test_distribution': td,
                                                      'td_type': tdt, 'min_mw': 4.95}, key=(cls, 'td', k, tdt))
        T.run('evaluation_result_roundtrip', {'cls': cls, 'observed_statistic': 4, 'quantile': [0.1, 0.9], 'test_distribution': [3, 4, 4, 7],
                                              'td_type': 'int_ndarray', 'min_mw': 4.95}, key=(cls, 'int-array'))
    # real evaluation functions on small inputs: n_obs = 0 produces the None / NaN / not-valid results
    reps = 2 if tier == 'quick' else 25
    for f in FUNCS:
        for n_obs in (0, 1, 4):
            for r in range(reps):
                T.run('evaluation_function_roundtrip', {'func': f, 'seed': seed + r, 'n_cat': [5, 12][r % 2], 'n_obs': n_obs,
                                                        'via': vias[r % 2]}, key=(f, n_obs, r))
    ls = lattices(rng, 15 if tier == 'quick' else 400)
    for k, lat in enumerate(ls):
        for tj in (False, True):
            T.run('cartesian_region_dict_roundtrip', {'lattice': lat, 'probe_seed': k, 'through_json': tj,
                                                      'n_probes': 100 if tier == 'quick' else 400}, key=('lattice', k, tj))
        if len(lat['cells']) > 1:
            T.run('cartesian_region_dict_roundtrip', {'lattice': lat, 'probe_seed': k, 'infer_dh': True}, key=('lattice-infer', k))
    return T.result(bound='6 result classes x (10 statistics incl. inf/NaN/None, 7 quantile shapes, 7 distributions, python / numpy scalars, '
                          'list / ndarray) x 3 writers; %d evaluation functions x n_obs in {0,1,4} x %d seeds; %d lattices x corner / centre / '
                          'random probes' % (len(FUNCS), reps, len(ls)))
