"""Bounded stand-in for C08 (labelled bounded): paired T-test (Rhoades et al. 2011, eq. 17/18:
information gain, sample variance, t, critical value, interval; antisymmetry; zero gain of a
forecast against itself), W-test (Wilcoxon signed-rank z with tie correction, two-sided normal p,
invariant under swapping) and definedness of paired_t_test / w_test / binary_paired_t_test with the
installed dependency versions.

Exhaustive: every pair of target-rate vectors of length 2..4 over a 3-letter alphabet (ties and
identical forecasts included) x 3 significance levels; every difference vector of length 1..4 over
6 letters x 2 null medians.  Public tests: 3 grids x pairs of positive forecasts x catalogs of 2..40
events with repeated cells, scale on/off."""
import itertools
import random

from .tally import Tally
from . import oracles_eval as oe


def run(tier, seed):
    rng = random.Random(seed)
    T = Tally(max_fail=8)
    quick = tier == 'quick'

    # ---- directed cases first: one per public entry point (definedness with the installed versions)
    g = oe.GRIDS['2x2x2']
    pair = {'grid': g, 'rates_a': [[0.1, 0.2]] * 4, 'rates_b': [[0.2, 0.1]] * 4, 'events': [[0, 0], [1, 1]]}
    T.run('paired_t_test_public', dict(pair), key='d1')
    T.run('w_test_public', dict(pair), key='d2')
    T.run('binary_paired_t_test_public', dict(pair), key='d3')
    T.run('w_test_ndarray', {'x': [0.5, -0.25, 0.75], 'm': 0.0}, key='d4')

    # ---- T-test on arrays
    letters = [0.1, 0.5, 2.0]
    maxn = 3 if quick else 4
    for n in range(2, maxn + 1):
        for r1 in itertools.product(letters, repeat=n):
            for r2 in itertools.product(letters, repeat=n):
                for alpha in ((0.05,) if n == maxn and quick else (0.01, 0.05, 0.5)):
                    T.run('t_test_ndarray', {'rates1': list(r1), 'rates2': list(r2), 'n_f1': 3.0, 'n_f2': 4.5, 'alpha': alpha},
                          key=('t', r1, r2, alpha))
            T.run('t_test_ndarray', {'rates1': list(r1), 'rates2': list(r1), 'n_f1': 2.25, 'n_f2': 2.25}, key=('tid', r1))
    for _ in range(60 if quick else 6000):
        n = rng.choice([2, 3, 5, 10, 50, 200])
        r1 = [10 ** rng.uniform(-9, 2) for _ in range(n)]
        r2 = [10 ** rng.uniform(-9, 2) for _ in range(n)]
        if rng.random() < 0.3:      # ties: repeated target cells
            for i in range(1, n):
                if rng.random() < 0.5:
                    r1[i], r2[i] = r1[0], r2[0]
        T.run('t_test_ndarray', {'rates1': r1, 'rates2': r2, 'n_f1': 10 ** rng.uniform(-3, 3), 'n_f2': 10 ** rng.uniform(-3, 3),
                                 'alpha': rng.choice([0.001, 0.05, 0.1, 0.9])}, key=('tr', tuple(r1), tuple(r2)))

    # ---- W-test on arrays
    wl = [-2.0, -1.0, -0.5, 0.5, 1.0, 2.0]
    for n in range(1, (3 if quick else 4) + 1):
        for x in itertools.product(wl, repeat=n):
            for m in (0.0, 0.25):
                T.run('w_test_ndarray', {'x': list(x), 'm': m}, key=('w', x, m))
    for x, m in [([0.5, 0.5, 0.5], 0.5), ([0.5, 1.5], 0.5), ([0.1] * 12, 0.0), (list(range(-6, 7)), 0.0),
                 ([0.3, -0.3, 0.3, -0.3, 0.7], 0.0), ([1.0, 2.0, 3.0, 4.0, 5.0, 6.0, 7.0, 8.0, 9.0, 10.0, 11.0], 5.5)]:
        T.run('w_test_ndarray', {'x': x, 'm': m}, key=('wd', tuple(x), m))
    for _ in range(40 if quick else 6000):
        n = rng.choice([2, 5, 10, 11, 30, 100])
        pool = [round(rng.uniform(-3, 3), 1) for _ in range(rng.randint(2, 8))]
        x = [rng.choice(pool) if rng.random() < 0.6 else rng.uniform(-3, 3) for _ in range(n)]
        T.run('w_test_ndarray', {'x': x, 'm': rng.choice([0.0, 0.1, -0.5, pool[0]])}, key=('wr', tuple(x)))

    # ---- the public tests
    for gname, grid in oe.GRIDS.items():
        nc, nm = oe.grid_shape(grid)
        fa = [[0.1 * (i + 1) * (k + 1) for k in range(nm)] for i in range(nc)]
        fb = [[0.3 * (k + 1) + 0.05 * i for k in range(nm)] for i in range(nc)]
        fu = [[0.25] * nm for _ in range(nc)]
        f2 = [[2 * v for v in row] for row in fa]                  # constant log-rate difference: ties everywhere
        pairs = [(fa, fb), (fa, fu), (fa, fa), (fa, f2), (fu, fb)]
        for _ in range(2 if quick else 25):
            pairs.append(([[10 ** rng.uniform(-6, 1) for _ in range(nm)] for _ in range(nc)],
                          [[10 ** rng.uniform(-6, 1) for _ in range(nm)] for _ in range(nc)]))
        cats = [[[0, 0], [nc - 1, nm - 1]],
                [[0, 0], [0, 0]],                                           # two events, one cell (tie)
                [[0, 0], [nc - 1, nm - 1], [nc - 1, nm - 1], [1, 0], [1, 0], [1, 0]],
                [[i % nc, (i // nc) % nm] for i in range(nc * nm)],         # one event in every bin
                [[rng.randrange(nc), rng.randrange(nm)] for _ in range(12)],
                [[rng.randrange(nc), rng.randrange(nm)] for _ in range(40 if quick else 400)]]
        for pi, (ra, rb) in enumerate(pairs):
            for ci, events in enumerate(cats):
                for scale in (False, True):
                    for alpha in (0.05, 0.2):
                        T.run('paired_t_test_public', {'grid': grid, 'rates_a': ra, 'rates_b': rb, 'events': events, 'alpha': alpha,
                                                       'scale': scale, 'days': 30}, key=('T', gname, pi, ci, scale, alpha))
                    T.run('w_test_public', {'grid': grid, 'rates_a': ra, 'rates_b': rb, 'events': events, 'scale': scale, 'days': 30},
                          key=('W', gname, pi, ci, scale))
                    T.run('binary_paired_t_test_public', {'grid': grid, 'rates_a': ra, 'rates_b': rb, 'events': events,
                                                          'scale': scale, 'days': 30}, key=('bT', gname, pi, ci, scale))
    return T.result(bound='_t_test_ndarray on all pairs of rate vectors of length 2..%d over 3 letters (x alpha) and random vectors '
                          'up to 200 events; _w_test_ndarray on all difference vectors of length <= %d over 6 letters x 2 medians '
                          'and random tied samples; paired_t_test / w_test / binary_paired_t_test on %d grids x %d forecast pairs x '
                          '6 catalogs (2..%d events, repeated cells) x scale on/off'
                          % (maxn, 3 if quick else 4, len(oe.GRIDS), 7 if quick else 30, 40 if quick else 400), exhaustive_part=True)
