"""Bounded stand-in for C03 (labelled bounded): every ordered catalog of 0..K events over an
alphabet of placements (each cell centre, a cell corner, a hole, a flagged-out cell, outside the
box) x (inside a bin, exactly on a bin edge, above the last edge, below the first edge) on a
3x2 lattice with a hole and a flagged-out cell and 3 magnitude bins; explicit and region-bound
magnitude grids; quadtree grids (single resolution, mixed resolution, catalog-built) with events
inside / on tile corners / beyond the latitude limit; random larger catalogs with duplicates on
random lattices - run-time contract of spatial_magnitude_counts / spatial_counts /
magnitude_counts / spatial_event_probability / QuadtreeGrid2D.get_index_of on the real code."""
import itertools
import random

from . import oracles_grid as G
from .bounded_C01 import _random_lattice

LAT = {'anchor': [-0.1, 0.2], 'dh': 0.1, 'cells': [[0, 0], [2, 1], [1, 0], [0, 1], [2, 0]], 'mask': [1, 1, 1, 1, 0]}
BINS = [5.0, 5.5, 6.0]
# (lon, lat): centres of the four active cells, a shared corner (belongs to the cell it opens), hole centre
# (1,1), flagged-out cell (2,0), beyond the box
LOCS = {'c0': (-0.05, 0.25), 'c1': (0.15, 0.35), 'c2': (0.05, 0.25), 'c3': (-0.05, 0.35),
        'corner': (0.0, 0.2), 'hole': (0.05, 0.35), 'flagged': (0.15, 0.25), 'outside': (0.35, 0.25)}
MAGS = {'bin0': 5.2, 'edge1': 5.5, 'bin2': 6.3, 'top': 8.9, 'below': 4.0}
QUAD = [{'zoom': 1}, {'zoom': 2}, {'quadkeys': ['0', '10', '11', '12', '13', '2', '3']}, {'quadkeys': ['0', '1', '2']},
        {'catalog_points': [[10.0, 10.0], [11.0, 11.0], [12.0, 12.0], [-100.0, 40.0], [100.0, -40.0]], 'threshold': 1, 'zoom': 4}]
# (lon, lat): tile corners, inside points, beyond the Web-Mercator latitude limit (outside every tile)
QPTS = {'origin': (0.0, 0.0), 'ne': (10.0, 10.0), 'sw': (-100.0, -40.0), 'nw': (-90.0, 66.51326044311186), 'west-rim': (-180.0, 0.0),
        'north-out': (0.0, 89.0), 'south-out': (20.0, -88.0), 'east-out': (180.0, 10.0)}


def _events(letters, locs, mags):
    return [['e%d' % j, 1000 * j, locs[a][1], locs[a][0], 10.0, mags[b]] for j, (a, b) in enumerate(letters)]


def run(tier, seed):
    rng = random.Random(seed)
    T = G.ClassTally()
    # ---- exhaustive small scope on the Cartesian lattice
    full = [(a, b) for a in LOCS for b in MAGS]
    reduced = [(a, b) for a in ('c0', 'c1', 'corner', 'hole', 'outside') for b in ('bin0', 'edge1', 'below')]
    scopes = [(full, 2), (reduced, 3)] if tier == 'quick' else [(full, 2), (reduced, 4)]
    n = 0
    for alphabet, K in scopes:
        for size in range(0, K + 1):
            for letters in itertools.product(alphabet, repeat=size):
                n += 1
                bind = 'region' if n % 3 == 0 else 'explicit'
                T.run('gridding_counts', {'region': {'lattice': LAT}, 'mag_bins': BINS, 'events': _events(letters, LOCS, MAGS),
                                          'bind': bind}, key=('cart', letters, bind))
    # other magnitude grids: one bin, the CSEP grid, region-bound
    for bins in ([5.0], {'__grid__': [5.95, 0.1, 31]}, [4.0, 4.5], {'__grid__': [2.5, 0.1, 56]}):
        a0 = bins[0] if isinstance(bins, list) else bins['__grid__'][0]
        mags = {'first': a0, 'below': a0 - 0.05, 'far-below': a0 - 3.0, 'in': a0 + 0.03, 'high': a0 + 7.0}
        for size in (1, 2):
            for letters in itertools.product([(a, b) for a in ('c0', 'c1', 'outside') for b in mags], repeat=size):
                for bind in ('explicit', 'region'):
                    T.run('gridding_counts', {'region': {'lattice': LAT}, 'mag_bins': bins, 'events': _events(letters, LOCS, mags),
                                              'bind': bind}, key=('cart-bins', repr(bins), letters, bind))
    # ---- quadtree grids
    qalpha = [(a, b) for a in QPTS for b in ('bin0', 'bin2', 'below')]
    for q in QUAD:
        for form in ('array', 'list', 'scalar'):
            pts = [list(p) for p in QPTS.values()]
            inside = [list(QPTS[k]) for k in ('origin', 'ne', 'sw', 'nw', 'west-rim')]
            T.run('quadtree_index', {'quadtree': q, 'points': inside, 'form': form}, key=('qidx', repr(q), form, 'inside'))
            for k in range(len(pts)):
                T.run('quadtree_index', {'quadtree': q, 'points': [pts[k]], 'form': form}, key=('qidx', repr(q), form, k))
            for a, b in itertools.permutations(range(len(pts)), 2):
                if form != 'scalar' and (tier != 'quick' or (a + b) % 2):
                    T.run('quadtree_index', {'quadtree': q, 'points': [pts[a], pts[b]], 'form': form}, key=('qidx', repr(q), form, a, b))
        for size in range(0, 3):
            for letters in itertools.product(qalpha, repeat=size):
                n += 1
                if tier == 'quick' and size == 2 and n % 4:
                    continue
                T.run('gridding_counts', {'region': {'quadtree': q}, 'mag_bins': BINS, 'events': _events(letters, QPTS, MAGS),
                                          'bind': 'region'}, key=('quad', repr(q), letters))
        # explicit magnitude bins on a quadtree region that has none of its own
        for letters in ([('ne', 'bin0')], [('ne', 'bin0'), ('sw', 'bin2')]):
            T.run('gridding_counts', {'region': {'quadtree': q}, 'mag_bins': BINS, 'events': _events(letters, QPTS, MAGS),
                                      'bind': 'explicit'}, key=('quad-explicit', repr(q), repr(letters)))
    # ---- random catalogs with duplicates on random lattices
    reps = 60 if tier == 'quick' else 3000
    for r in range(reps):
        lat = _random_lattice(rng, 6)
        origins = G.lattice_origins(lat)
        dh = lat['dh']
        flags = lat.get('mask') or [1] * len(origins)
        nb = rng.randint(1, 12)
        step = rng.choice([0.1, 0.2, 0.5])
        bins = {'__grid__': [rng.choice([2.5, 3.95, 4.0, 4.95, 5.95]), step, nb]}
        a0 = bins['__grid__'][0]
        pool = []
        for _ in range(rng.randint(1, 8)):
            o = rng.choice(origins)
            kind = rng.random()
            if kind < 0.5:
                p = (o[0] + dh * rng.choice([0.25, 0.5, 0.75]), o[1] + dh * rng.choice([0.25, 0.5, 0.75]))
            elif kind < 0.75:
                p = (o[0], o[1])
            elif kind < 0.9:
                p = (o[0], o[1] + dh / 2)
            else:
                p = (o[0] - 40 * dh, o[1] + dh / 2)
            m = rng.choice([a0, a0 + step * rng.randint(0, nb + 2), a0 + step * (rng.randint(0, nb) + 0.5), round(a0 + rng.uniform(0, 4), 2)])
            if rng.random() < 0.1:
                m = a0 - rng.choice([0.01, 0.5, 2.0])
            pool.append((p, m))
        inside_only = rng.random() < 0.6
        if inside_only:
            act = [o for o, f in zip(origins, flags) if f == 1]
            pool = [(p, m) for p, m in pool if m >= a0 and any(o[0] <= p[0] < o[0] + dh * 0.9 and o[1] <= p[1] < o[1] + dh * 0.9 for o in act)]
        ne = rng.randint(0, 40 if tier == 'quick' else 200)
        ev = []
        for j in range(ne if pool else 0):
            p, m = rng.choice(pool)
            ev.append(['r%d' % j, 1000 + j, p[1], p[0], 5.0, m])
        T.run('gridding_counts', {'region': {'lattice': lat}, 'mag_bins': bins, 'events': ev, 'bind': rng.choice(['explicit', 'region'])},
              key=('random', r))
    return T.result(bound='all ordered catalogs of 0..2 events over %d placements and of 0..%d events over %d placements on a 3x2 lattice '
                          '(hole, flagged cell) x 3 bins, 4 further magnitude grids; %d quadtree grids x ordered catalogs of 0..2 events over %d placements, '
                          'get_index_of on all 1- and 2-point inputs (array/list/scalar); %d random catalogs (<= %d events, duplicates) on random lattices'
                          % (len(full), scopes[1][1], len(reduced), len(QUAD), len(qalpha), reps, 40 if tier == 'quick' else 200),
                    exhaustive_part=True)
