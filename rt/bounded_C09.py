"""Bounded stand-in for C09 (labelled bounded): the property's own enumeration - every
multiset of size <= K over a 6-letter alphabet, every query on and between the letters,
integer and float data - plus random samples with heavy ties."""
import itertools
import random

import numpy

from .oracles import ORACLES


from .tally import Tally


def run(tier, seed):
    K = 4 if tier == 'quick' else 7
    T = Tally()
    letters_i = [0, 1, 2, 3, 4, 5]
    letters_f = [0.5, 1.5, 2.5, 3.5, 4.5, 5.5]
    for letters, conv in ((letters_i, int), (letters_f, float)):
        queries = []
        for a in letters:
            queries += [a - 0.25, a, a + 0.25]
        queries = sorted(set(queries)) + [letters[0] - 10, letters[-1] + 10]
        for size in range(1, K + 1):
            for ms in itertools.combinations_with_replacement(letters, size):
                x = [conv(v) for v in ms]
                for q in queries:
                    for orc in ('greater_equal_ecdf', 'less_equal_ecdf'):
                        T.run(orc, {'x': x, 'val': q}, key=(orc, tuple(x), q))
                T.run('get_quantiles', {'sim_counts': x, 'obs_count': conv(letters[len(letters) // 2])},
                      key=('gq', tuple(x)))
    rng = random.Random(seed)
    reps = 50 if tier == 'quick' else 1000
    for _ in range(reps):
        n = rng.randint(1, 300)
        pool = [rng.randint(-5, 5) for _ in range(rng.randint(1, 6))]
        x = [rng.choice(pool) for _ in range(n)]
        if rng.random() < 0.5:
            x = [v + 0.5 for v in x]
        rng.shuffle(x)
        q = rng.choice(pool + [p + 0.5 for p in pool] + [-100, 100])
        for orc in ('greater_equal_ecdf', 'less_equal_ecdf'):
            T.run(orc, {'x': x, 'val': q}, key=(orc, tuple(x), q))
        T.run('binned_ecdf', {'x': x, 'vals': sorted(set(pool))}, key=('be', tuple(x)))
        T.run('greater_equal_ecdf', {'x': x, 'val': q, 'cdf': True}, key=('gec', tuple(x), q))
        T.run('less_equal_ecdf', {'x': x, 'val': q, 'cdf': True}, key=('lec', tuple(x), q))
    for orc in ('greater_equal_ecdf', 'less_equal_ecdf'):
        T.run(orc, {'x': [], 'val': 1.0}, key=(orc, 'empty'))
    T.run('get_quantiles', {'sim_counts': [], 'obs_count': 1}, key=('gq', 'empty'))
    return T.result(bound='all multisets of size <= %d over 6 letters (ints and floats) x %d queries; %d random tied samples (n<=300)'
                    % (K, 20, reps), exhaustive_part=True)
