"""Bounded stand-in for C01 (labelled bounded): generated decimal lattices (anchors with 0-3
decimals, dh in {0.01, 0.05, 0.1, 0.2, 0.25, 0.5, 1}, holes, mask flags, shuffled cell order,
1-row / 1-column / single-cell lattices, all non-empty subsets of a 2x2 block) and the shipped
regions that can be built offline; probe points = every cell origin, origin +- 1..4 ulps,
origin + dh +- ulps (every corner combination), cell centres, hole centres, points beyond the
bounding box on every side - run-time contract of get_index_of / get_masked / filter_spatial /
spatial_counts on the real code."""
import itertools
import random

from . import oracles_grid as G

ANCHORS = [[0.0, 0.0], [-0.3, 0.1], [-125.4, 31.5], [165.6, -47.95], [-1.0, -0.5], [12.345, -45.678],
           [-180.0, -90.0], [179.0, 89.0], [0.007, -0.013]]
DHS = [0.01, 0.05, 0.1, 0.2, 0.25, 0.5, 1.0]
SHIPPED = [{'shipped': 'nz_csep_region'}, {'shipped': 'nz_csep_collection_region'},
           {'shipped': 'italy_csep_collection_region'}, {'shipped': 'california_relm_collection_region'},
           # the two XML-template regions cannot be built offline in every sandbox: skipped when they fail
           {'shipped': 'california_relm_region'}, {'shipped': 'italy_csep_region'},
           # the 0.1-degree global region has 6.5 M polygons and is never built; same constructor, coarser spacing
           {'shipped': 'global_region', 'kwargs': {'dh': 1.0}}]
SHIPPED_THOROUGH = [{'shipped': 'global_region', 'kwargs': {'dh': 0.5}}, {'shipped': 'nz_csep_region', 'kwargs': {'dh_scale': 2}}]

SHAPES = {
    'full3x2': [[0, 0], [1, 0], [2, 0], [0, 1], [1, 1], [2, 1]],
    'hole3x3': [[x, y] for x in range(3) for y in range(3) if (x, y) != (1, 1)],
    'L': [[0, 0], [0, 1], [0, 2], [1, 0], [2, 0]],
    'single': [[0, 0]],
    'row4': [[0, 0], [1, 0], [2, 0], [3, 0]],
    'col4': [[0, 0], [0, 1], [0, 2], [0, 3]],
    'row-gap': [[0, 0], [2, 0], [5, 0]],
    'col-gap': [[0, 0], [0, 3]],
    'diag': [[0, 0], [2, 2]],
    'negative-coords': [[-2, -1], [-1, -1], [-1, 0], [0, 0]],
    'empty-column': [[0, 0], [0, 1], [2, 0], [2, 1]],
}


def _subsets_2x2():
    block = [[0, 0], [1, 0], [0, 1], [1, 1]]
    for r in range(1, 5):
        for c in itertools.combinations(block, r):
            yield [list(x) for x in c]


def _wide_lattice(rng):
    """a few cells far apart: large column/row numbers (round-off of the index computation grows with them)"""
    w, h = rng.choice([(40, 30), (400, 300), (2000, 100), (100, 1500), (700, 350)])
    cells = {(0, 0), (w - 1, h - 1)}
    for _ in range(rng.randint(1, 10)):
        cells.add((rng.randrange(w), rng.randrange(h)))
    cells = [list(c) for c in cells]
    rng.shuffle(cells)
    dec = rng.choice([0, 1, 2, 3])
    dh = rng.choice(DHS[:5] if w * h > 50000 else DHS)
    ax = round(rng.uniform(-180, 180 - w * dh), dec) if w * dh < 360 else -180.0
    return {'anchor': [ax, round(rng.uniform(-90, 80), dec)], 'dh': dh, 'cells': cells,
            'ctor': rng.choice(['polygons', 'from_origins', 'from_dict'])}


def _random_lattice(rng, maxn):
    if rng.random() < 0.2:
        return _wide_lattice(rng)
    nx, ny = rng.randint(1, maxn), rng.randint(1, maxn)
    if rng.random() < 0.15:
        nx = 1
    elif rng.random() < 0.15:
        ny = 1
    dens = rng.choice([0.3, 0.6, 0.9, 1.0])
    cells = [[x, y] for x in range(nx) for y in range(ny) if rng.random() < dens]
    if not cells:
        cells = [[rng.randrange(nx), rng.randrange(ny)]]
    rng.shuffle(cells)
    dec = rng.choice([0, 1, 2, 3])
    lat = {'anchor': [round(rng.uniform(-180, 179), dec), round(rng.uniform(-90, 89), dec)],
           'dh': rng.choice(DHS), 'cells': cells}
    if rng.random() < 0.35:
        lat['mask'] = [1 if rng.random() < 0.7 else 0 for _ in cells]
    else:
        lat['ctor'] = rng.choice(['polygons', 'from_origins', 'from_dict'])
    return lat


def lattices(tier, rng):
    out = []
    names = sorted(SHAPES)
    pairs = [(a, h) for a in ANCHORS for h in DHS]
    for n, (a, h) in enumerate(pairs):
        if tier == 'quick':
            chosen = [names[(2 * n) % len(names)], names[(2 * n + 1) % len(names)]]
        else:
            chosen = names
        for q, s in enumerate(chosen):
            cells = [list(c) for c in SHAPES[s]]
            if (n + q) % 2:
                rng.shuffle(cells)
            lat = {'anchor': a, 'dh': h, 'cells': cells,
                   'ctor': ['polygons', 'from_origins', 'from_dict'][(n + q) % 3]}
            out.append(('%s@%r/%r' % (s, a, h), lat))
    # mask flags: flagged-out cell inside, on the rim, all but one, all
    for n, (a, h) in enumerate(pairs if tier != 'quick' else pairs[::5]):
        cells = [list(c) for c in SHAPES['full3x2']]
        for m in ([1, 0, 1, 1, 1, 1], [0, 1, 1, 1, 1, 1], [1, 1, 1, 1, 1, 0], [0, 0, 0, 0, 1, 0], [1, 1, 1, 1, 1, 1], [0, 0, 0, 0, 0, 0]):
            out.append(('mask%r@%r/%r' % (m, a, h), {'anchor': a, 'dh': h, 'cells': cells, 'mask': m}))
    # every non-empty subset of a 2x2 block
    for a, h in ([[0.0, 0.0], 0.1], [[-125.4, 31.5], 0.1], [[-0.3, 0.1], 0.05], [[12.345, -45.678], 0.25]):
        for c in _subsets_2x2():
            out.append(('2x2%r@%r/%r' % (c, a, h), {'anchor': a, 'dh': h, 'cells': c, 'ctor': 'from_origins'}))
    nrand = 60 if tier == 'quick' else 1800
    for n in range(nrand):
        out.append(('random%d' % n, _random_lattice(rng, 8 if tier == 'quick' else 14)))
    return out


def run(tier, seed):
    rng = random.Random(seed)
    T = G.ClassTally()
    ulps = [1, 2, 3, 4]
    lats = lattices(tier, rng)
    for n, (name, lat) in enumerate(lats):
        T.run('grid_lookup', {'lattice': lat, 'probe': {'ulps': ulps, 'holes': True, 'beyond': True}, 'each': 250},
              key=('lookup', name))
        if n % 4 == 0:
            T.run('grid_lookup', {'lattice': lat, 'probe': {'ulps': [1], 'holes': True, 'beyond': True}, 'each': 100,
                                  'scalar': True}, key=('lookup-scalar', name))
        T.run('grid_catalog', {'lattice': lat, 'probe': {'ulps': [1, 3], 'holes': True, 'beyond': True},
                               'in_place': bool(n % 2)}, key=('catalog', name))
        if (max(c[0] for c in lat['cells']) - min(c[0] for c in lat['cells']) + 1) * \
                (max(c[1] for c in lat['cells']) - min(c[1] for c in lat['cells']) + 1) <= 20000:
            T.run('grid_cartesian', {'lattice': lat}, key=('cartesian', name))
        if n % 10 == 0:
            # events inside only (no ValueError path), and the empty catalog
            inside = [[o[0] + lat['dh'] / 2, o[1] + lat['dh'] / 2] for o, m in
                      zip(G.lattice_origins(lat), lat.get('mask') or [1] * len(lat['cells'])) if m == 1]
            T.run('grid_catalog', {'lattice': lat, 'points': inside + inside[:2], 'in_place': True}, key=('catalog-inside', name))
            T.run('grid_catalog', {'lattice': lat, 'points': [], 'in_place': False}, key=('catalog-empty', name))
    built, skipped = [], []
    for lat in SHIPPED + (SHIPPED_THOROUGH if tier != 'quick' else []):
        name = lat['shipped'] + (repr(sorted(lat['kwargs'].items())) if 'kwargs' in lat else '')
        try:
            L, region, bad = G.get_lattice(lat)
        except Exception:
            L = None
        if L is None:
            skipped.append(name)
            continue
        built.append('%s (%d cells)' % (name, L.n_cells))
        chunk = 2500
        for i0 in range(0, L.n_cells, chunk):
            T.run('grid_lookup', {'lattice': lat, 'probe': {'cells': [i0, min(i0 + chunk, L.n_cells)], 'ulps': ulps,
                                                            'holes': i0 == 0, 'beyond': i0 == 0}, 'each': 60},
                  key=('lookup', name, i0))
        step = 3000 if tier == 'quick' else 600
        for i0 in range(0, L.n_cells, step):
            T.run('grid_catalog', {'lattice': lat, 'probe': {'cells': [i0, min(i0 + 150, L.n_cells)], 'ulps': [1], 'beyond': i0 == 0},
                                   'in_place': bool((i0 // step) % 2)}, key=('catalog', name, i0))
        G._CACHE.clear()    # built regions are large; keep one at a time
    return T.result(bound='%d generated lattices (9 anchors x 7 spacings x %d shapes, mask flags, all subsets of a 2x2 block, random up to %dx%d) '
                          'x {centre, 4 corner combinations x (0, +-1..4 ulps) x 4 directions per cell, hole centres, ring and far points beyond the box}; '
                          'shipped regions built offline: %s; not built (skipped): %s'
                          % (len(lats), len(SHAPES) if tier != 'quick' else 2, 8 if tier == 'quick' else 14, 8 if tier == 'quick' else 14,
                             ', '.join(built) or 'none', ', '.join(skipped) or 'none'))
