"""Bounded stand-in for C20 (labelled bounded): every public gridded test of poisson_evaluations /
binomial_evaluations / brier_evaluations and every catalog-based test, evaluated on generated inputs and on
re-ordered copies: the events of the observed catalog (reversed, random), the synthetic catalogs of the catalog
forecast, the cells of the region together with the rates of the forecast(s), and all of them at once.
Tests that raise on the UNPERMUTED input are not judged and are listed under 'skipped_tests'."""
import random

from .tally import Tally
from . import oracles_catfc as oc  # registers the oracles

GRIDS = [
    {'nx': 2, 'ny': 2, 'dh': 1.0, 'x0': 0.0, 'y0': 0.0, 'mags': [4.0, 5.0, 6.0]},
    {'nx': 3, 'ny': 2, 'dh': 0.5, 'x0': -118.0, 'y0': 33.0, 'mags': [4.0, 4.5]},
    {'nx': 1, 'ny': 4, 'dh': 0.1, 'x0': 10.0, 'y0': 40.0, 'mags': [5.0, 5.1, 5.2, 5.3]},
]


def shuffled(n, rng):
    p = list(range(n))
    while n > 1 and p == list(range(n)):
        rng.shuffle(p)
    return p


def make_input(rng, directed=None):
    grid = rng.choice(GRIDS) if directed is None else GRIDS[directed % len(GRIDS)]
    ncell, nmag = grid['nx'] * grid['ny'], len(grid['mags'])
    rates = [[round(10 ** rng.uniform(-3, 0), 6) for _ in range(nmag)] for _ in range(ncell)]
    rates_b = [[round(10 ** rng.uniform(-3, 0), 6) for _ in range(nmag)] for _ in range(ncell)]
    n_obs = rng.choice((2, 3, 5, 9)) if directed is None else (2, 4, 7)[directed % 3]
    observed = [[rng.randrange(ncell), rng.randrange(nmag)] for _ in range(n_obs)]
    if rng.random() < 0.5:      # several events in one bin, and an identical pair of bins
        observed += [observed[0], observed[0]]
    synthetic = []
    for _ in range(rng.randint(3, 5)):
        synthetic.append([] if rng.random() < 0.25 else
                         [[rng.randrange(ncell), rng.randrange(nmag)] for _ in range(rng.choice((1, 2, 4, 9)))])
    if not any(synthetic):
        synthetic[0] = [[0, 0]]
    if rng.random() < 0.4:      # the observation repeats a synthetic catalog (ties in the empirical distribution)
        synthetic.append(list(observed))
    total = sum(sum(r) for r in rates)
    return {'grid': grid, 'rates': rates, 'rates_b': rates_b, 'observed': observed, 'synthetic': synthetic,
            'variance': round(2.0 * total + 1.0, 6), 'seed': rng.choice((1, 7, 123456)), 'num_simulations': 5}


def tie_input(kind):
    """directed: two forecasts with equal totals that mirror each other in two cells, events in both cells - the
    log-rate differences about the null median tie in magnitude with opposite signs (rank ties in the W-test)"""
    grid = GRIDS[0]
    ncell, nmag = grid['nx'] * grid['ny'], len(grid['mags'])
    a = [[0.5] * nmag for _ in range(ncell)]
    b = [[0.5] * nmag for _ in range(ncell)]
    a[0][0], a[1][0] = 2.0, 1.0
    b[0][0], b[1][0] = 1.0, 2.0
    observed = [[0, 0], [1, 0]] if kind == 'ties' else [[0, 0], [1, 0], [0, 0], [2, 1], [1, 0], [0, 0]]
    total = sum(sum(r) for r in a)
    return {'grid': grid, 'rates': a, 'rates_b': b, 'observed': observed, 'synthetic': [[[0, 0]], [[1, 0], [0, 0]], []],
            'variance': round(2.0 * total + 1.0, 6), 'seed': 7, 'num_simulations': 5}


def run(tier, seed):
    rng = random.Random(seed)
    T = Tally()
    n_inputs = 25 if tier == 'quick' else 500
    skipped, judged = {}, set()
    for r in list(range(n_inputs)) + ['ties', 'ties2']:
        inp = tie_input(r) if isinstance(r, str) else make_input(rng, directed=r if r < 3 else None)
        ncell = inp['grid']['nx'] * inp['grid']['ny']
        n_ev, n_cat = len(inp['observed']), len(inp['synthetic'])
        perms = [
            ('events reversed', {'perm_events': list(range(n_ev))[::-1]}),
            ('events', {'perm_events': shuffled(n_ev, rng)}),
            ('cells', {'perm_cells': shuffled(ncell, rng)}),
            ('catalogs', {'perm_catalogs': shuffled(n_cat, rng)}),
            ('all', {'perm_events': shuffled(n_ev, rng), 'perm_cells': shuffled(ncell, rng), 'perm_catalogs': shuffled(n_cat, rng)}),
        ]
        if tier != 'quick':
            perms += [('cells reversed', {'perm_cells': list(range(ncell))[::-1]}),
                      ('events+cells', {'perm_events': shuffled(n_ev, rng), 'perm_cells': shuffled(ncell, rng)})]
        for test in oc.ALL_C20_TESTS:
            is_cat = test.startswith('catalog.')
            fail = oc.c20_base_failure(test, **inp)
            if fail is not None:
                skipped.setdefault(test, fail)
                continue
            judged.add(test)
            for pname, p in perms:
                if (pname.startswith('catalogs') and not is_cat):
                    continue
                args = dict(inp)
                args['test'] = test
                args.update({k: v for k, v in p.items() if is_cat or k != 'perm_catalogs'})
                if is_cat:
                    args.pop('rates'), args.pop('rates_b'), args.pop('variance'), args.pop('num_simulations')
                else:
                    args.pop('synthetic')
                T.run('perm_invariance', args, key=(test, r, pname))
    # ---- cells re-ordered IN THE FORECAST FILE (cells of a region together with the forecast's rates): the rate looked up
    #      for any point of a row's box must be that row's rate whatever the order of the cell blocks in the file
    from . import oracles_io  # noqa: F401  (registers 'forecast_ascii')
    block = [[i, j] for i in range(3) for j in range(2)]
    orders = [block, block[::-1], [block[k] for k in (3, 0, 5, 1, 4, 2)]]
    for _ in range(2 if tier == 'quick' else 12):
        b = list(block)
        rng.shuffle(b)
        orders.append(b)
    for oi, cells in enumerate(orders):
        for lon0, lat0, dh in (('-125.4', '31.5', '0.1'), ('10', '40', '0.5')):
            T.run('forecast_ascii', {'lon0': lon0, 'lat0': lat0, 'dh': dh, 'cells': cells, 'mags': ['4.95', '5.05'], 'dmag': '0.1',
                                     'rate_seed': oi}, key=('file-cell-order', oi, lon0))
    return T.result(bound='forecast files with the cell blocks in %d orders; ' % len(orders) + '%d tests (12 gridded, 6 catalog-based) x %d generated inputs (3 regions, random rates, 2-11 observed '
                          'events with repeats, 3-6 synthetic catalogs with empty ones and ties) x re-orderings of events / synthetic '
                          'catalogs / cells+rates / all' % (len(oc.ALL_C20_TESTS), n_inputs),
                    judged_tests=sorted(judged), skipped_tests=skipped)
