"""Run-time side (executed by /venv/bin/python with PYTHONPATH=<repo>): oracles =
concrete form of the contracts, replays of solver counter-models on the real code,
bounded stand-ins.  Nothing here is counted as proof."""
