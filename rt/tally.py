from .oracles import ORACLES


class Tally:
    def __init__(self, max_fail=5):
        self.evaluations = 0
        self.distinct = set()
        self.failures = []
        self.samples = []
        self.max_fail = max_fail
        self.known = []

    def run(self, oracle, args, key=None, nontrivial=True):
        self.evaluations += 1
        if nontrivial:
            self.distinct.add(key if key is not None else repr(args))
        bad = ORACLES[oracle](**args)
        if len(self.samples) < 3:
            self.samples.append({'oracle': oracle, 'args': args})
        if bad and len(self.failures) < self.max_fail:
            self.failures.append({'oracle': oracle, 'args': args, 'violated_clauses': bad})
        return bad

    def result(self, **extra):
        r = {'evaluations': self.evaluations, 'distinct_nontrivial': len(self.distinct),
             'failures': self.failures, 'samples': self.samples}
        r.update(extra)
        return r
