import importlib
import json
import os

from .oracles import ORACLES

_ROOT = os.path.dirname(os.path.dirname(os.path.abspath(__file__)))


def _open_findings():
    p = os.path.join(_ROOT, 'known_findings.json')
    if not os.path.exists(p):
        return []
    with open(p) as fh:
        return [f for f in json.load(fh).get('findings', []) if f.get('kind') == 'open']


def match_known(oracle, args, bad):
    """open known finding matched by this failure (oracle listed AND witness-class predicate holds), else None"""
    for kf in _OPEN:
        names = kf.get('oracles') or ([kf['oracle']] if kf.get('oracle') else [])
        if names and oracle not in names:
            continue
        cls = kf.get('witness_class')
        if cls:
            mod, fn = cls.rsplit('.', 1)
            try:
                if not getattr(importlib.import_module(mod), fn)(args, {'replay': {'violated_clauses': bad}, 'oracle': oracle}):
                    continue
            except Exception:
                continue
        return kf
    return None


_OPEN = _open_findings()


class Tally:
    """runs oracles, counts cases; failures matching an OPEN known finding (known_findings.json) are kept
    apart (count + one example) so that they neither hide nor crowd out new violations"""

    def __init__(self, max_fail=5):
        self.evaluations = 0
        self.distinct = set()
        self.failures = []
        self.samples = []
        self.max_fail = max_fail
        self.known = {}

    def run(self, oracle, args, key=None, nontrivial=True):
        self.evaluations += 1
        if nontrivial:
            self.distinct.add(key if key is not None else repr(args))
        bad = ORACLES[oracle](**args)
        if len(self.samples) < 3:
            self.samples.append({'oracle': oracle, 'args': args})
        if bad:
            self.record_failure(oracle, args, bad)
        return bad

    def record_failure(self, oracle, args, bad):
        kf = match_known(oracle, args, bad)
        if kf is not None:
            k = self.known.setdefault(kf['what'], {'what': kf['what'], 'property': kf.get('property'), 'count': 0,
                                                   'example': {'oracle': oracle, 'args': args, 'violated_clauses': bad}})
            k['count'] += 1
            return True
        if len(self.failures) < self.max_fail:
            self.failures.append({'oracle': oracle, 'args': args, 'violated_clauses': bad})
        return False

    def result(self, **extra):
        r = {'evaluations': self.evaluations, 'distinct_nontrivial': len(self.distinct),
             'failures': self.failures, 'samples': self.samples, 'known_findings': list(self.known.values())}
        r.update(extra)
        return r
