"""Bounded stand-in for C15: complete millisecond windows around second / day / year / leap-day /
epoch-sign / 2^31 s / 2^32 s boundaries and the ends of 1900..2200, every microsecond phase at
selected instants, time strings, decimal years (1 ms steps across year ends, day steps over the
whole range) and uniform samples - all expected values by integer arithmetic."""
import datetime
import random

from .tally import Tally
from . import oracles_io  # noqa: F401  (registers the oracles)

UTC = datetime.timezone.utc
EPOCH = datetime.datetime(1970, 1, 1, tzinfo=UTC)
MS = datetime.timedelta(milliseconds=1)


def ms_of(*a):
    return (datetime.datetime(*a, tzinfo=UTC) - EPOCH) // MS


LO = ms_of(1900, 1, 1)
HI = ms_of(2200, 1, 1)


def boundaries():
    b = [('epoch-sign', 0), ('1s', 1000), ('-1s', -1000),
         ('1900-01-01', LO), ('2200-01-01', HI),
         ('second 2020-06-15T12:34:57', ms_of(2020, 6, 15, 12, 34, 57)),
         ('day 1969-12-31', ms_of(1969, 12, 31)), ('day 2011-03-11', ms_of(2011, 3, 11)),
         ('year 2000', ms_of(2000, 1, 1)), ('year 2001', ms_of(2001, 1, 1)), ('year 1901', ms_of(1901, 1, 1)),
         ('year 2100', ms_of(2100, 1, 1)), ('year 2101', ms_of(2101, 1, 1)), ('year 1970->1971', ms_of(1971, 1, 1)),
         ('leap day 2000-02-29', ms_of(2000, 2, 29)), ('2000-03-01', ms_of(2000, 3, 1)),
         ('2100-03-01 (no leap day)', ms_of(2100, 3, 1)), ('1900-03-01 (no leap day)', ms_of(1900, 3, 1)),
         ('2^31 s', 2 ** 31 * 1000), ('2^32 s', 2 ** 32 * 1000), ('-2^31 s', -2 ** 31 * 1000),
         ('1e12 ms', 10 ** 12), ('2^40 ms', 2 ** 40), ('2^42 ms', 2 ** 42)]
    return b


def run(tier, seed):
    rng = random.Random(seed)
    T = Tally()
    half = 1500 if tier == 'quick' else 20000
    # D1 witness and its neighbours first
    T.run('time_epoch_window', {'start': 1001, 'count': 1}, key=('D1', 1001))
    for name, b in boundaries():
        lo = max(LO, b - half)
        hi = min(HI, b + half)
        T.run('time_epoch_window', {'start': lo, 'count': hi - lo + 1}, key=('win', name))
        T.run('decimal_year_window', {'start_ms': max(LO, min(b - 300, HI - 600)), 'count': 600, 'step_ms': 1,
                                      'aware': bool(b % 2)}, key=('dyw', name))
        for aware in (True, False):
            for off in (-1, 0):
                if LO <= b + off < HI:
                    T.run('time_microsecond_phase', {'base_ms': b + off, 'aware': aware}, key=('phase', name, aware, off))
        ms_list = [m for m in (b - 1001, b - 1000, b - 999, b - 1, b, b + 1, b + 999, b + 1000, b + 1001) if LO <= m <= HI]
        T.run('time_strings', {'ms_list': ms_list}, key=('str', name))
    # uniform samples
    n = 20000 if tier == 'quick' else 1500000
    chunk = 500
    for c in range(n // chunk):
        # windows of isolated samples: count=1 calls would dominate the tally; use strided windows
        start = rng.randint(LO, HI - 1)
        step = rng.choice([1, 7, 999, 1000, 1001, 86400000 + 1, 3600000 - 1])
        step = min(step, max(1, (HI - start) // chunk))
        T.run('time_epoch_window', {'start': start, 'count': chunk, 'step': step}, key=('uni', start, step))
    ns = 200 if tier == 'quick' else 5000
    for c in range(ns):
        T.run('time_strings', {'ms_list': [rng.randint(LO, HI) for _ in range(5)]}, key=('strs', c))
        T.run('time_microsecond_phase', {'base_ms': rng.randint(LO, HI - 1), 'aware': bool(c % 2), 'phases': 50},
              key=('phs', c))
    # decimal years: day steps over the whole range with a random millisecond offset, hour steps over some years
    span_days = (HI - LO) // 86400000
    per = 3000
    stride = 7 if tier == 'quick' else 1
    k = 0
    while k * stride < span_days:
        cnt = min(per, (span_days - k * stride + stride - 1) // stride)
        off = rng.randint(0, 86399999)
        start = LO + k * stride * 86400000 + off
        cnt = min(cnt, (HI - start) // (stride * 86400000) + 1)
        if cnt > 0:
            T.run('decimal_year_window', {'start_ms': start, 'count': cnt, 'step_ms': stride * 86400000, 'aware': bool(k % 2)},
                  key=('dyd', k))
        k += per
    for y in ([1900, 1999, 2000, 2100] if tier == 'quick' else [1900, 1904, 1969, 1970, 1999, 2000, 2024, 2100, 2196, 2199]):
        T.run('decimal_year_window', {'start_ms': ms_of(y, 12, 25) + rng.randint(0, 999), 'count': 24 * 14, 'step_ms': 3600000},
              key=('dyh', y))
    for c in range(40 if tier == 'quick' else 2000):
        T.run('decimal_year_window', {'start_ms': rng.randint(LO, HI - 2000), 'count': 300, 'step_ms': 1, 'aware': bool(c % 2)},
              key=('dyu', c))
    return T.result(bound='all integer ms within +-%d ms of %d boundaries (1900..2200), all 1000 microsecond phases at each, '
                          '%d strided uniform ms samples, time strings (8 layouts), decimal years at 1 ms steps around the '
                          'boundaries and %d-day steps over 1900..2200' % (half, len(boundaries()), n, stride))
