"""Bounded stand-in for C17: single-resolution grids zoom 1..6 (quick) / 1..8 (thorough), catalog-driven
grids (clustered / uniform / tile-boundary epicentres x thresholds x maximum zooms), random prefix-free
quadkey sets and the shipped California quadkeys; probes at tile corners, antimeridian, latitude limits."""
import math
import random

from .tally import Tally
from . import oracles_io  # noqa: F401
from .oracles_io import _tile_bounds


def rand_catalog(rng, kind, n):
    ev = []
    if kind == 'uniform':
        for _ in range(n):
            ev.append([rng.uniform(-180, 180), rng.uniform(-85, 85)])
    elif kind == 'clustered':
        cs = [(rng.uniform(-170, 170), rng.uniform(-70, 70)) for _ in range(rng.randint(1, 3))]
        for _ in range(n):
            c = rng.choice(cs)
            s = rng.choice([0.01, 0.5, 5.0])
            ev.append([max(-180.0, min(179.999, rng.gauss(c[0], s))), max(-85.0, min(85.0, rng.gauss(c[1], s)))])
    elif kind == 'boundary':
        # events on tile corners / edges of random tiles
        for _ in range(n):
            qk = ''.join(rng.choice('0123') for _ in range(rng.randint(1, 6)))
            w, s, e, nn = _tile_bounds(qk)
            lo, la = rng.choice([(w, s), (w, (s + nn) / 2), ((w + e) / 2, s), (w, nn), (e, s)])
            if lo >= 180.0:
                lo = -180.0
            ev.append([lo, max(-85.0, min(85.0, la))])
    elif kind == 'same-point':
        p = [rng.uniform(-180, 180), rng.uniform(-80, 80)]
        ev = [list(p) for _ in range(n)]
    elif kind == 'outside':
        for _ in range(n):
            ev.append([rng.uniform(-180, 180), rng.choice([rng.uniform(85.06, 90), rng.uniform(-90, -85.06), rng.uniform(-80, 80)])])
    return ev


def rand_quadkeys(rng, depth, p_split, complete):
    out = []

    def rec(q):
        if len(q) < depth and (len(q) == 0 or rng.random() < p_split):
            for d in '0123':
                rec(q + d)
        else:
            out.append(q)
    rec('')
    if not complete:
        out = [q for q in out if rng.random() < 0.6] or out[:1]
    if rng.random() < 0.5:
        rng.shuffle(out)
    return out


def run(tier, seed):
    rng = random.Random(seed)
    T = Tally()
    for z in range(1, 7 if tier == 'quick' else 9):
        T.run('quadtree_grid', {'kind': 'single', 'zoom': z, 'probe_seed': z, 'n_probes': 300 if z < 7 else 150,
                                'corner_cells': 150 if z < 7 else 60}, key=('single', z))
    reps = 10 if tier == 'quick' else 400
    for kind in ('uniform', 'clustered', 'boundary', 'same-point', 'outside'):
        for r in range(reps):
            n = rng.choice([0, 1, 5, 20, 80]) if tier == 'quick' else rng.choice([0, 1, 5, 20, 80, 300])
            thr = rng.choice([0, 1, 2, 5, 10, 1000])
            zoom = rng.choice([1, 2, 3, 4, 5, 6]) if tier == 'quick' or kind == 'uniform' else rng.choice([1, 2, 4, 6, 8, 10])
            if thr == 0 and n > 20:
                zoom = min(zoom, 5)
            T.run('quadtree_grid', {'kind': 'catalog', 'zoom': zoom, 'threshold': thr, 'events': rand_catalog(rng, kind, n),
                                    'probe_seed': r, 'n_probes': 100, 'corner_cells': 60}, key=('catalog', kind, r))
    for r in range(reps * 2):
        qk = rand_quadkeys(rng, rng.randint(1, 6), rng.choice([0.3, 0.6, 0.9]), complete=bool(r % 2))
        T.run('quadtree_grid', {'kind': 'quadkeys', 'quadkeys': qk, 'probe_seed': r, 'n_probes': 100, 'corner_cells': 80}, key=('quadkeys', r))
    for qk in (['0'], ['3'], ['0', '1', '2', '3'], ['03', '12', '21', '30'], ['0', '10', '110', '1110'], ['2222222222'], ['1' * 15], ['0' * 20]):
        T.run('quadtree_grid', {'kind': 'quadkeys', 'quadkeys': qk, 'n_probes': 100}, key=('quadkeys', tuple(qk)))
    T.run('quadtree_grid', {'kind': 'quadkeys', 'california': True, 'n_probes': 150 if tier == 'quick' else 1500,
                            'corner_cells': 60 if tier == 'quick' else 600}, key=('california',))
    return T.result(bound='single-resolution zoom 1..%d; %d catalogs per epicentre pattern (5 patterns) x thresholds {0..1000} x max zoom; '
                          '%d random prefix-free quadkey sets (depth <= 6) + 8 fixed sets + shipped California quadkeys; probes = 8 points per '
                          'sampled cell (corners, edges, centre, last float inside), globe limits, uniform points'
                          % (6 if tier == 'quick' else 8, reps, reps * 2))
