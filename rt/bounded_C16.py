"""Bounded stand-in for C16 (labelled bounded): the binary joint log-likelihood is
sum_active ln(1-exp(-rate)) + sum_inactive (-rate) (hence -inf with an event in a zero-rate bin), the
Brier score is -2/N sum_b (1-exp(-rate_b) - [b active])^2 over all N bins; both depend on the
observation only through the set of active bins; the binary spatial / conditional tests and the Brier
test report these values for the observed catalog and for every simulated one.

Exhaustive: every (rates, counts) pair over 4 rates x 3 counts for 1-D arrays up to length 3 and
2x2 arrays.  Directed: rates 1e-9..10, zeros leading / interior / trailing, no events, several
events per bin, an event in a zero-rate bin.  Simulated statistics are checked with injected
numbers (one simulation per call) and with seeds, on positive-rate forecasts - how simulated
catalogs are drawn when zero-rate bins are present belongs to C06."""
import itertools
import random

from .tally import Tally
from . import oracles_eval as oe

POOL = [1e-9, 1e-6, 1e-3, 0.05, 0.3, 1.0, 4.0, 10.0]


def run(tier, seed):
    rng = random.Random(seed)
    T = Tally(max_fail=8)
    quick = tier == 'quick'

    # ---- directed cases first: an event in a zero-rate bin, array level and through the public tests
    g = oe.GRIDS['2x2x2']
    zr = [[0.0, 0.5], [0.5, 0.5], [0.5, 0.5], [0.5, 0.5]]
    T.run('binary_jll_ndarray', {'rates': [0.0, 0.5], 'counts': [1, 0]}, key='d1')
    T.run('sim_test_ndarray', {'kind': 'binary', 'rates': [[0.0, 0.5], [1.5, 2.0]], 'counts': [[2, 0], [0, 1]], 'num_simulations': 0,
                               'checks': ['observed']}, key='d2')
    T.run('gridded_test', {'test': 'bCL', 'grid': g, 'rates': zr, 'events': [[0, 0]], 'num_simulations': 0, 'checks': ['observed']}, key='d3')
    T.run('gridded_test', {'test': 'bS', 'grid': g, 'rates': [[0.0, 0.0], [0.5, 0.5], [0.5, 0.5], [0.5, 0.5]], 'events': [[0, 1], [2, 0]],
                           'num_simulations': 0, 'checks': ['observed']}, key='d4')
    T.run('gridded_test', {'test': 'brier', 'grid': g, 'rates': zr, 'events': [[0, 0]], 'num_simulations': 0, 'checks': ['observed']}, key='d5')

    # ---- the two scores on arrays: exhaustive small scope
    ralpha = [0.0, 1e-9, 0.3, 10.0]
    calpha = [0, 1, 4]
    for n in range(1, 4):
        for rr in itertools.product(ralpha, repeat=n):
            for cc in itertools.product(calpha, repeat=n):
                for orc in ('binary_jll_ndarray', 'brier_score_ndarray'):
                    T.run(orc, {'rates': list(rr), 'counts': list(cc)}, key=(orc, rr, cc))
    r2 = ralpha if not quick else [0.0, 0.3, 10.0]
    for rr in itertools.product(r2, repeat=4):
        for cc in itertools.product([0, 1, 4] if not quick else [0, 3], repeat=4):
            for orc in ('binary_jll_ndarray', 'brier_score_ndarray'):
                T.run(orc, {'rates': [list(rr[:2]), list(rr[2:])], 'counts': [list(cc[:2]), list(cc[2:])]}, key=(orc, '2d', rr, cc))
    for _ in range(40 if quick else 8000):
        shape = rng.choice([(5,), (9,), (3, 2), (4, 3), (2, 5)])
        n = shape[0] * (shape[1] if len(shape) > 1 else 1)
        rr = [rng.choice(POOL + [0.0]) for _ in range(n)]
        cc = [rng.choice([0, 0, 0, 1, 2, 7]) for _ in range(n)]
        if rng.random() < 0.7:
            cc = [c if r > 0 else 0 for r, c in zip(rr, cc)]
        if len(shape) > 1:
            rr = [rr[i * shape[1]:(i + 1) * shape[1]] for i in range(shape[0])]
            cc = [cc[i * shape[1]:(i + 1) * shape[1]] for i in range(shape[0])]
        for orc in ('binary_jll_ndarray', 'brier_score_ndarray'):
            T.run(orc, {'rates': rr, 'counts': cc}, key=(orc, 'rnd', repr(rr), repr(cc)))

    # ---- the array-level tests
    cases = [([0.5, 0.2, 1.5, 2.0], [1, 0, 0, 2]), ([[0.5, 0.2], [1.5, 2.0]], [[1, 0], [0, 2]]),
             ([0.3, 0.3, 0.3], [0, 0, 0]), ([1e-9, 1e-3, 10.0, 4.0], [3, 0, 1, 0]),
             ([[1e-6, 0.05, 1.0], [4.0, 0.3, 1e-3]], [[0, 5, 0], [1, 1, 0]]),
             ([0.0, 0.5, 1.5], [0, 1, 0]), ([0.5, 0.0, 1.5], [1, 0, 1]), ([0.5, 1.5, 0.0], [0, 2, 0]),      # zeros, inactive
             ([0.0, 0.5, 1.5], [1, 1, 0]), ([[0.5, 0.0], [1.5, 2.0]], [[0, 2], [0, 1]])]                    # event in a zero-rate bin
    for _ in range(10 if quick else 1500):
        n = rng.randint(2, 7)
        rr = [rng.choice(POOL) for _ in range(n)]
        cases.append((rr, [rng.choice([0, 0, 1, 3]) for _ in range(n)]))
    for rr, cc in cases:
        fr = [v for row in rr for v in row] if isinstance(rr[0], list) else rr
        fc = [v for row in cc for v in row] if isinstance(cc[0], list) else cc
        positive = all(v > 0 for v in fr)
        nact = sum(1 for c in fc if c > 0)
        for kind in ('binary', 'brier'):
            if positive:
                inner = oe.interior_numbers(fr, per_bin=2, min_width=1e-6)
                for j in range(3):
                    T.run('sim_test_ndarray', {'kind': kind, 'rates': rr, 'counts': cc, 'num_simulations': 1,
                                               'random_numbers': [[rng.choice(inner) for _ in range(nact)]]},
                          key=('t', kind, repr(rr), repr(cc), j))
                big = sum(1 for v in fr if v >= 0.01 * sum(fr))
                if nact <= big:
                    T.run('sim_test_ndarray', {'kind': kind, 'rates': rr, 'counts': cc, 'num_simulations': 8,
                                               'seed': rng.choice([0, 1, 2 ** 32 - 1]), 'timeout': 2.0},
                          key=('ts', kind, repr(rr), repr(cc)))
            else:
                T.run('sim_test_ndarray', {'kind': kind, 'rates': rr, 'counts': cc, 'num_simulations': 0, 'checks': ['observed']},
                      key=('tz', kind, repr(rr), repr(cc)))

    # ---- the public tests
    for gname, grid in oe.GRIDS.items():
        nc, nm = oe.grid_shape(grid)
        forecasts = [[[0.1 * (i + 1) * (k + 1) for k in range(nm)] for i in range(nc)],
                     [[rng.choice(POOL[2:]) for _ in range(nm)] for _ in range(nc)],
                     [[1e-9] * nm for _ in range(nc)]]
        z1 = [[0.2 + 0.1 * i + 0.3 * k for k in range(nm)] for i in range(nc)]
        z1[0] = [0.0] * nm
        z2 = [[0.2 + 0.1 * i + 0.3 * k for k in range(nm)] for i in range(nc)]
        z2[nc - 1][nm - 1] = 0.0
        forecasts += [z1, z2]
        for fi, rates in enumerate(forecasts):
            cats = [[], [[1, 0]], [[1, 0], [1, 0], [1, 0]], [[1, 0], [nc - 1, 0], [1, 1]],
                    [[0, 0], [1, 1]], [[nc - 1, nm - 1], [1, 0]],
                    [[rng.randrange(nc), rng.randrange(nm)] for _ in range(9)]]
            for ci, events in enumerate(cats):
                full = oe.event_counts(grid, events)
                for test in ('bS', 'bCL', 'brier'):
                    kind, marg = oe.GRIDDED[test][2], oe.GRIDDED[test][4]
                    fr = oe.marginal(rates, marg)
                    fc = oe.marginal(full, marg)
                    nact = sum(1 for c in fc if c > 0)
                    if all(v > 0 for v in fr):
                        inner = oe.interior_numbers(fr, per_bin=2, min_width=1e-6)
                        T.run('gridded_test', {'test': test, 'grid': grid, 'rates': rates, 'events': events, 'num_simulations': 1,
                                               'random_numbers': [[rng.choice(inner) for _ in range(nact)]]},
                              key=('g', gname, fi, ci, test))
                        T.run('gridded_test', {'test': test, 'grid': grid, 'rates': rates, 'events': events, 'num_simulations': 6,
                                               'seed': rng.choice([0, 1, 2 ** 32 - 1]), 'timeout': 2.0}, key=('gs', gname, fi, ci, test))
                    else:
                        T.run('gridded_test', {'test': test, 'grid': grid, 'rates': rates, 'events': events, 'num_simulations': 0,
                                               'checks': ['observed']}, key=('gz', gname, fi, ci, test))
    # ---- per-cell maps (poisson_spatial_likelihood / binary_spatial_likelihood): every count pattern 0..3 on up to 3 cells
    from . import oracles_contracts  # noqa: F401  (registers 'cell_maps')
    for nc in (1, 2, 3):
        for counts in itertools.product((0, 1, 2, 3), repeat=nc):
            for rates in ([0.5, 0.25, 2.0][:nc], [1e-3, 7.5, 0.125][:nc]):
                for kind in ('binary', 'poisson'):
                    T.run('cell_maps', {'kind': kind, 'rates': rates, 'counts': list(counts), 'forecast_total': sum(rates) * 1.5,
                                        'n_events': sum(counts)}, key=('cellmap', kind, counts, rates[0]))
    return T.result(bound='per-cell likelihood maps on every count pattern 0..3 over <= 3 cells; binary_joint_log_likelihood_ndarray and _brier_score_ndarray on every (rates, counts) over 4 rates x 3 counts '
                          'up to length 3 and 2x2, random 1-D/2-D arrays (rates 1e-9..10, zeros); _binary_likelihood_test / '
                          '_brier_score_test on %d arrays; binary_spatial / binary_conditional_likelihood / brier_score_test on '
                          '%d grids x 5 forecasts x 7 catalogs (no events .. several per bin, events in zero-rate bins)'
                          % (len(cases), len(oe.GRIDS)), exhaustive_part=True)
