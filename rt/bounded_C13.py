"""Bounded stand-in for C13 (labelled bounded): the property's own enumeration - every operation history of
length <= 3 (quick) / 4 (thorough) over {full iteration, get_event_counts, get_expected_rates, spatial_counts,
magnitude_counts, each of the six catalog-based tests} on a CatalogForecast in the configurations
{in-memory list (n_cat given / not given), file loader with store=True, file loader with store=False} x
{no filtering, magnitude filter, magnitude + spatial filter, spatial filter only, filters configured but
apply_filters off} x small forecasts with empty catalogs (first, middle, last, all after filtering), plus longer
random histories."""
import itertools
import random

from .tally import Tally
from . import oracles_catfc as oc  # registers the oracles

G22 = {'nx': 2, 'ny': 2, 'dh': 1.0, 'x0': 0.0, 'y0': 0.0, 'mags': [4.0, 5.0, 6.0]}
G11 = {'nx': 1, 'ny': 1, 'dh': 0.5, 'x0': -1.0, 'y0': 10.0, 'mags': [4.0, 5.0]}

# (grid, synthetic catalogs, observed catalog); events [cell, magnitude bin], cell -1 = outside the region
INSIDE = [
    (G22, [[[0, 0], [1, 1]], [], [[3, 2]]], [[0, 0], [1, 1]]),
    (G22, [[], [[0, 1], [0, 1], [2, 0]], []], [[0, 1]]),
    (G22, [[[0, 0]], [[0, 0], [1, 2]], [[2, 1], [2, 1], [2, 1]], []], [[3, 0], [0, 0]]),
    (G11, [[[0, 0]]], [[0, 0], [0, 1]]),
    (G11, [[[0, 1], [0, 0]], [[0, 1]]], [[0, 1]]),
]
OUTSIDE = [
    (G22, [[[0, 0], [-1, 1], [1, 1]], [[-1, 0]], [[3, 2]]], [[0, 0], [1, 1]]),
    (G22, [[[-1, 2]], [[0, 1], [-1, 1], [2, 0]], [], [[1, 1]]], [[2, 0]]),
    (G11, [[[0, 1], [-1, 1]], [[-1, 0], [-1, 1]]], [[0, 1]]),
]

# name: (apply_filters, filters, filter_spatial, forecasts)
FILTERS = {
    'none': (False, [], False, INSIDE),
    'magnitude': (True, ['magnitude >= 5.0'], False, INSIDE),
    'magnitude+spatial': (True, ['magnitude >= 5.0'], True, INSIDE + OUTSIDE),
    'spatial': (True, [], True, OUTSIDE + INSIDE),
    'configured-but-off': (False, ['magnitude >= 5.0'], True, INSIDE),
}


def case(config, fname, k, ops):
    apply_filters, filters, filter_spatial, forecasts = FILTERS[fname]
    grid, cats, obs = forecasts[k % len(forecasts)]
    args = {'config': config, 'grid': grid, 'catalogs': cats, 'ops': list(ops), 'apply_filters': apply_filters,
            'filters': filters, 'filter_spatial': filter_spatial, 'observed': obs}
    if config.startswith('file'):
        args['placeholder'] = [bool((k + i) % 2) for i in range(len(cats))]
        args['header'] = bool(k % 3 == 0)
    return args, (config, fname, k % len(forecasts), tuple(ops))


def run(tier, seed):
    rng = random.Random(seed)
    T = Tally()
    L = 3 if tier == 'quick' else 4
    fnames = list(FILTERS)
    n_hist = 0
    # every history up to length L in every source configuration (filter setting / forecast rotating)
    k = 0
    for ln in range(1, L + 1):
        for ops in itertools.product(oc.HISTORY_OPS, repeat=ln):
            n_hist += 1
            for config in oc.CONFIGS:
                k += 1
                args, key = case(config, fnames[k % len(fnames)], k // len(fnames), ops)
                T.run('catfc_history', args, key=key)
    # every history up to length 2 in the full cross configuration x filter setting x forecast
    L2 = 2
    for ln in range(1, L2 + 1):
        for ops in itertools.product(oc.HISTORY_OPS, repeat=ln):
            for config in oc.CONFIGS:
                for fname in fnames:
                    nf = len(FILTERS[fname][3]) if tier != 'quick' else 1
                    for j in range(nf):
                        args, key = case(config, fname, j + (0 if tier != 'quick' else len(ops) + ln), ops)
                        T.run('catfc_history', args, key=key)
    # longer histories, sampled
    reps = 100 if tier == 'quick' else 3000
    for r in range(reps):
        ops = [rng.choice(oc.HISTORY_OPS) for _ in range(rng.randint(L + 1, 8))]
        args, key = case(rng.choice(oc.CONFIGS), rng.choice(fnames), rng.randint(0, 50), ops)
        T.run('catfc_history', args, key=key)
    return T.result(bound='all %d operation histories of length <= %d over %d operations x 4 source configurations (filter '
                          'setting and forecast rotating); all histories of length <= 2 x 4 configurations x 5 filter settings x '
                          'small forecasts (empty first/middle/last catalogs, events outside the region); %d random histories of '
                          'length <= 8' % (n_hist, L, len(oc.HISTORY_OPS), reps), exhaustive_part=True)
