"""Bounded stand-in for C11: generated CSEP gridded-forecast ASCII files (anchor / spacing / extent /
holes / cell order / 1..M magnitude rows / flags / column order / number format) loaded through
csep.load_gridded_forecast and GriddedForecast.load_ascii, rate lookup at the lower corner and five
interior points of every (sampled) space-magnitude box, totals, marginals, scaling histories; the
quadtree ASCII and CSV layouts through the quadtree loaders."""
import random
from decimal import Decimal

from .tally import Tally
from . import oracles_io  # noqa: F401
from .bounded_C17 import rand_quadkeys

MAGSETS = [(['4.95'], '0.1'), (['4.95', '5.05'], '0.1'), (['5.95', '6.05', '6.15', '6.25'], '0.1'), (['2.5', '3.0', '3.5'], '0.5'),
           (['4.95'] + [format(Decimal('4.95') + k * Decimal('0.1'), 'f') for k in range(1, 41)], '0.1'), (['0', '1', '2'], '1'),
           (['5.0', '5.25', '5.5', '5.75', '6.0'], '0.25')]
OPS = [None,
       [['scale', 2.0], ['scale', 3.0]],
       [['scale', 0.5], ['scale', 0.5], ['scale', 1]],
       [['date', '2020-07-01 00:00:00'], ['date', '2020-07-01 00:00:00']],
       [['scale', 2.0], ['date', '2020-03-01 12:00:00'], ['scale', 4.0]],
       [['date', '2020-10-01 00:00:00'], ['date', '2020-02-29 00:00:00']],
       [['scale', 3.0], ['date', '2022-01-01 00:00:00']],
       [['date', '2020-07-01 00:00:00'], ['date', '2019-01-01 00:00:00']]]


def lattice(rng, long_axis=None):
    dh = rng.choice(['0.1', '0.1', '0.1', '0.5', '0.25', '1', '0.05', '0.2', '2'])
    places = max(0, -Decimal(dh).as_tuple().exponent)
    # anchors on the decimal grid of the spacing (as CSEP templates are) or offset by half a cell
    k = rng.randint(-1700, 1700)
    lon0 = Decimal(k) * Decimal(dh) if rng.random() < 0.8 else Decimal(k) * Decimal(dh) + Decimal(dh) / 2
    k = rng.randint(-800, 800)
    lat0 = Decimal(k) * Decimal(dh) if rng.random() < 0.8 else Decimal(k) * Decimal(dh) + Decimal(dh) / 2
    lon0 = max(Decimal(-180), min(Decimal(100), lon0))
    lat0 = max(Decimal(-85), min(Decimal(60), lat0))
    if long_axis == 'lon':
        nx, ny = rng.randint(40, 90), rng.randint(1, 3)
    elif long_axis == 'lat':
        nx, ny = rng.randint(1, 3), rng.randint(40, 90)
    else:
        nx, ny = rng.randint(1, 9), rng.randint(1, 9)
    cells = [[i, j] for i in range(nx) for j in range(ny)]       # latitude fastest (CSEP1 convention)
    order = rng.choice(['lat-fast', 'lon-fast', 'shuffled', 'reversed'])
    if order == 'lon-fast':
        cells = [[i, j] for j in range(ny) for i in range(nx)]
    elif order == 'reversed':
        cells.reverse()
    if len(cells) > 4 and rng.random() < 0.5:
        # holes, keeping the first cell and the extreme rows / columns populated
        keep = [c for c in cells if rng.random() < 0.75 or c[0] in (0, nx - 1) or c[1] in (0, ny - 1)]
        cells = keep
    if order == 'shuffled':
        rng.shuffle(cells)
    return format(lon0, 'f'), format(lat0, 'f'), dh, cells


def run(tier, seed):
    rng = random.Random(seed)
    T = Tally(max_fail=8)
    reps = 100 if tier == 'quick' else 4000
    k = 0
    # directed minimal cases first (the tally keeps the first failures)
    two = [[0, 0], [1, 0]]
    T.run('forecast_ascii', {'lon0': '-125.4', 'lat0': '54.7', 'dh': '0.1', 'cells': two, 'mags': ['4.95'], 'dmag': '0.1'}, key=('D13', '54.8-54.7'))
    T.run('forecast_ascii', {'lon0': '10', 'lat0': '40', 'dh': '0.5', 'cells': two, 'mags': ['4.95'], 'dmag': '0.1', 'start': '2020-01-01 00:00:00',
                             'end': '2021-01-01 00:00:00', 'ops': [['scale', 3.0], ['date', '2022-01-01 00:00:00']]}, key=('unity-after-end',))
    T.run('forecast_quadtree', {'quadkeys': ['0', '1', '2', '3'], 'mags': ['4.95', '5.05'], 'dmag': '0.1', 'layout': 'csv'}, key=('quadtree-csv-min',))
    T.run('forecast_ascii', {'lon0': '10', 'lat0': '40', 'dh': '0.5', 'cells': [[0, 0]], 'mags': ['4.95'], 'dmag': '0.1'}, key=('one-row-file',))
    T.run('forecast_quadtree', {'quadkeys': ['0'], 'mags': ['4.95'], 'dmag': '0.1', 'layout': 'ascii'}, key=('quadtree-one-row',))
    T.run('forecast_quadtree', {'quadkeys': ['0'], 'mags': ['4.95'], 'dmag': '0.1', 'layout': 'csv'}, key=('quadtree-csv-one-cell',))
    T.run('forecast_ascii', {'lon0': '10', 'lat0': '40', 'dh': '0.5', 'cells': [[0, 0]], 'mags': ['4.95', '5.05'], 'dmag': '0.1'}, key=('one-cell',))
    T.run('forecast_ascii', {'lon0': '10', 'lat0': '40', 'dh': '0.5', 'cells': two, 'mags': ['4.95', '5.05'], 'dmag': '0.1', 'start': '2020-01-01 00:00:00',
                             'end': '2021-01-01 00:00:00', 'ops': [['scale', 2.0], ['scale', 3.0], ['date', '2020-07-01 00:00:00'],
                                                                   ['date', '2020-07-01 00:00:00'], ['scale', 0.5]]}, key=('history',))
    for long_axis, n in ((None, reps), ('lon', reps // 2), ('lat', reps // 2)):
        for r in range(n):
            lon0, lat0, dh, cells = lattice(rng, long_axis)
            mags, dm = MAGSETS[k % len(MAGSETS)] if long_axis is None else rng.choice(MAGSETS[:3])
            args = {'lon0': lon0, 'lat0': lat0, 'dh': dh, 'cells': cells, 'mags': mags, 'dmag': dm, 'rate_seed': k, 'probe_seed': k,
                    'via': ['csep', 'class'][k % 2], 'numfmt': ['plain', 'fixed'][(k // 2) % 2], 'sep': ['\t', ' '][(k // 3) % 2]}
            if rng.random() < 0.3:
                args['swap_latlon'] = True
            if rng.random() < 0.3 and len(cells) > 1:
                fl = [1 if rng.random() < 0.7 else 0 for _ in cells]
                fl[0] = 1
                args['flags'] = fl
            ops = OPS[k % len(OPS)]
            if ops and long_axis is None:
                args['ops'] = ops
                args['start'] = '2020-01-01 00:00:00' + ('Z' if k % 3 == 0 else '')
                args['end'] = '2021-01-01 00:00:00' + ('Z' if k % 3 == 0 else '')
            if long_axis is not None:
                args['max_cells'] = 120
            T.run('forecast_ascii', args, key=('ascii', long_axis, r))
            k += 1
    # named regions' anchors: RELM California, Italy, NZ, global
    for name, lon0, lat0, dh, nx, ny in (('relm', '-125.4', '31.5', '0.1', 123, 2), ('relm-lat', '-125.4', '31.5', '0.1', 2, 115),
                                         ('italy', '5.5', '35.9', '0.1', 100, 2), ('nz', '165.7', '-47.9', '0.1', 60, 3),
                                         ('global-1deg', '-180', '-90', '1', 90 if tier == 'quick' else 360, 2),
                                         ('d13', '-125.4', '54.7', '0.1', 60, 1), ('d13-40.1', '-125.4', '40.1', '0.1', 60, 1)):
        cells = [[i, j] for i in range(nx) for j in range(ny)]
        T.run('forecast_ascii', {'lon0': lon0, 'lat0': lat0, 'dh': dh, 'cells': cells, 'mags': ['4.95', '5.05'], 'dmag': '0.1', 'max_cells': 400},
              key=('named', name))
    qreps = 30 if tier == 'quick' else 600
    for r in range(qreps):
        qk = rand_quadkeys(rng, rng.randint(1, 5), rng.choice([0.3, 0.7]), complete=bool(r % 2))
        mags, dm = MAGSETS[r % len(MAGSETS)]
        ops = OPS[r % len(OPS)]
        for layout in ('ascii', 'csv'):
            args = {'quadkeys': qk, 'mags': mags, 'dmag': dm, 'rate_seed': r, 'layout': layout, 'probe_seed': r, 'max_cells': 80}
            if ops:
                args.update(ops=ops, start='2020-01-01 00:00:00', end='2021-01-01 00:00:00')
            T.run('forecast_quadtree', args, key=('quadtree', layout, r))
    return T.result(bound='%d random lattices (<= 9 x 9) + %d long lattices (40..90 cells in one direction) + 7 named anchors, x 7 magnitude '
                          'sets x flags / holes / 4 cell orders / swap_latlon / 2 number formats / 8 scaling histories; 6 lookup points per '
                          'sampled box; %d quadtree cell sets x 2 layouts' % (reps, 2 * (reps // 2), qreps))
