"""oracles used for replays of C15 counter-models (the bounded suite has its own, richer ones)"""
import datetime

from .oracles import oracle, call, _exc

EPOCH = datetime.datetime(1970, 1, 1, tzinfo=datetime.timezone.utc)


@oracle('epoch_to_datetime')
def _e2d(epoch_time_milli):
    from csep.utils.time_utils import epoch_time_to_utc_datetime
    out = call(epoch_time_to_utc_datetime, epoch_time_milli)
    if out[0] == 'raise':
        return ['unexpected exception ' + _exc(out)]
    if epoch_time_milli is None:
        return [] if out[1] is None else ['None must pass through']
    exp = EPOCH + datetime.timedelta(milliseconds=int(epoch_time_milli))
    if out[1] != exp or out[1].tzinfo is None:
        return ['epoch_time_to_utc_datetime(%r) = %r, required %r' % (epoch_time_milli, out[1], exp)]
    return []


@oracle('datetime_to_epoch')
def _d2e(us, tz=None):
    from csep.utils.time_utils import datetime_to_utc_epoch
    dt = EPOCH + datetime.timedelta(microseconds=int(us))
    if tz is None:
        dt = dt.replace(tzinfo=None)
    out = call(datetime_to_utc_epoch, dt)
    if out[0] == 'raise':
        return ['unexpected exception ' + _exc(out)]
    r = out[1]
    if int(us) % 1000 == 0 and r * 1000 != int(us):
        return ['datetime_to_utc_epoch(%r) = %r, required %r' % (dt, r, int(us) // 1000)]
    if abs(r * 1000 - int(us)) >= 1000:
        return ['datetime_to_utc_epoch(%r) = %r is more than one millisecond away' % (dt, r)]
    return []


@oracle('evaluation_result_roundtrip')
def _eval_rt(clsname, **kw):
    import json
    import os
    import tempfile
    import csep
    import csep.models as models
    cls = getattr(models, clsname)
    obj = cls(test_distribution=[0.25, 0.5], name='N-Test', observed_statistic=1.5, quantile=(0.1, 0.9), status='normal',
              sim_name='fc', obs_name='cat', min_mw=4.95)
    with tempfile.TemporaryDirectory() as d:
        fn = os.path.join(d, 'r.json')
        with open(fn, 'w') as fh:
            json.dump(obj.to_dict(), fh)
        out = call(csep.load_evaluation_result, fn)
    if out[0] == 'raise':
        return ['load_evaluation_result of a %s raised %s' % (clsname, _exc(out))]
    r = out[1]
    bad = []
    if type(r) is not cls:
        bad.append('loaded as %s, written as %s' % (type(r).__name__, clsname))
    for f, v in (('name', 'N-Test'), ('status', 'normal'), ('observed_statistic', 1.5), ('quantile', [0.1, 0.9]),
                 ('test_distribution', [0.25, 0.5]), ('sim_name', 'fc'), ('obs_name', 'cat'), ('min_mw', 4.95)):
        got = getattr(r, f)
        got = list(got) if isinstance(got, (list, tuple)) else got
        if got != v:
            bad.append('field %s: %r != %r' % (f, got, v))
    return bad


@oracle('decimal_year_civil')
def _decimal_year_civil(year, month, day, hour, minute, second, microsecond):
    """decimal_year(d) == year + (d - Jan 1 of the year) / (Jan 1 of the next year - Jan 1 of the year), computed with exact
    datetime arithmetic (fractions); tolerance: a few ulps of the year number"""
    import datetime
    import fractions
    from csep.utils import time_utils as tu
    try:
        d = datetime.datetime(int(year), int(month), int(day), int(hour), int(minute), int(second), int(microsecond))
    except (ValueError, OverflowError):
        return []
    if not 1 <= d.year <= 9998:
        return []
    out = call(tu.decimal_year, d)
    if out[0] == 'raise':
        return ['unexpected exception ' + _exc(out)]
    a, b = datetime.datetime(d.year, 1, 1), datetime.datetime(d.year + 1, 1, 1)
    us = lambda td: td.days * 86400 * 10 ** 6 + td.seconds * 10 ** 6 + td.microseconds
    exp = d.year + fractions.Fraction(us(d - a), us(b - a))
    got = fractions.Fraction(float(out[1]))
    tol = fractions.Fraction(4 * 2.0 ** -52 * d.year)
    if abs(got - exp) > tol:
        return ['decimal_year(%s) = %r, elapsed fraction of the year gives %r' % (d.isoformat(), out[1], float(exp))]
    return []
