import json
import math
import numpy


class Fail(Exception):
    pass


def jsonable(v):
    if isinstance(v, numpy.ndarray):
        return {'__ndarray__': v.tolist(), 'dtype': str(v.dtype)}
    if isinstance(v, (numpy.floating,)):
        return float(v)
    if isinstance(v, (numpy.integer,)):
        return int(v)
    if isinstance(v, (numpy.bool_,)):
        return bool(v)
    if isinstance(v, (list, tuple)):
        return [jsonable(x) for x in v]
    if isinstance(v, dict):
        return {str(k): jsonable(x) for k, x in v.items()}
    if isinstance(v, (int, float, str, bool)) or v is None:
        return v
    return repr(v)


def unjson(v):
    if isinstance(v, dict) and '__ndarray__' in v:
        return numpy.array(v['__ndarray__'], dtype=v.get('dtype', 'float64'))
    if isinstance(v, dict) and '__tuple__' in v:
        return tuple(unjson(x) for x in v['__tuple__'])
    if isinstance(v, dict) and '__frac__' in v:
        n, d = v['__frac__']
        return n / d
    if isinstance(v, list):
        return [unjson(x) for x in v]
    if isinstance(v, dict):
        return {k: unjson(x) for k, x in v.items()}
    return v


def same_float(a, b):
    if a is None or b is None:
        return a is b
    a = float(a)
    b = float(b)
    if math.isnan(a) or math.isnan(b):
        return math.isnan(a) and math.isnan(b)
    return a == b


def close(a, b, rel=1e-9, abs_=1e-12):
    a = float(a)
    b = float(b)
    if math.isnan(a) or math.isnan(b):
        return math.isnan(a) and math.isnan(b)
    if math.isinf(a) or math.isinf(b):
        return a == b
    return abs(a - b) <= max(abs_, rel * max(abs(a), abs(b)))
