"""Bounded stand-in for C04 (labelled bounded): catalogs of 0..4 events whose attributes sit on,
just below and just above the thresholds; all 25 'attribute op value' shapes and the 5
'datetime op DATE TIME' shapes as str / list / tuple, both in_place modes, statements passed to
filter() or to the constructor; every ordered pair (and selected triples) of statements; every
millisecond of a window around the epoch and directed instants (leap day, year ends, pre-1970,
fractions written with 1..6 digits) for the datetime <-> origin_time clause; spatial filter on
lattices with holes - run-time contract of CSEPCatalog.filter / filter_spatial on the real code."""
import datetime
import itertools
import random

from . import oracles_grid as G

OPS = ['<', '<=', '>', '>=', '==']
# attribute -> (threshold, value just below, value just above) ; thresholds are decimal literals
THR = {'origin_time': (1262304000000, 1262303999999, 1262304000001),
       'latitude': (35.7, 35.699999999999996, 35.70000000000001),
       'longitude': (-117.5, -117.50000000000001, -117.49999999999999),
       'depth': (10.0, 9.999999999999998, 10.000000000000002),
       'magnitude': (4.95, 4.949999999999999, 4.950000000000001)}
POS = {'origin_time': 1, 'latitude': 2, 'longitude': 3, 'depth': 4, 'magnitude': 5}
BASE = ['x', 1262304000000, 35.7, -117.5, 10.0, 4.95]


def dt_string(ms, digits=3):
    """'YYYY-MM-DD HH:MM:SS[.f]' of an epoch millisecond (integer arithmetic only)"""
    d = datetime.datetime(1970, 1, 1) + datetime.timedelta(milliseconds=int(ms))
    s = d.strftime('%Y-%m-%d %H:%M:%S')
    sub = int(ms) % 1000
    if digits == 0:
        if sub:
            raise ValueError('whole second required')
        return s
    frac = ('%03d' % sub) + '000'
    if digits < 3:
        if frac[digits:].strip('0'):
            raise ValueError('fraction needs more digits')
    return s + '.' + frac[:digits]


def _event(name, **kw):
    e = list(BASE)
    e[0] = name
    for k, v in kw.items():
        e[POS[k]] = v
    return e


def _catalog_for(attrs):
    """events on / below / above the threshold of each named attribute (all combinations)"""
    ev = []
    for n, combo in enumerate(itertools.product(range(3), repeat=len(attrs))):
        ev.append(_event('e%d' % n, **{a: THR[a][c] for a, c in zip(attrs, combo)}))
    return ev


def _stmt(attr, op):
    return '%s %s %r' % (attr, op, THR[attr][0])


def run(tier, seed):
    rng = random.Random(seed)
    T = G.ClassTally()
    attrs = list(THR)
    # ---- single statements: 25 shapes x containers x in_place x via, catalogs incl. empty and duplicates
    for a in attrs:
        ev3 = _catalog_for([a])
        cats = [[], ev3[:1], ev3, ev3[::-1], ev3 + [list(e[:1]) + e[1:] for e in ev3[:2]]]
        cats[-1][3][0], cats[-1][4][0] = 'dup0', 'dup1'
        for op in OPS:
            s = _stmt(a, op)
            for ci, ev in enumerate(cats):
                for container in ('str', 'list', 'tuple'):
                    for in_place in (True, False):
                        T.run('catalog_filter', {'events': ev, 'statements': [s], 'container': container, 'in_place': in_place},
                              key=('single', s, ci, container, in_place))
                T.run('catalog_filter', {'events': ev, 'statements': [s], 'container': 'list', 'in_place': True, 'via': 'ctor'},
                      key=('single-ctor', s, ci))
    # ---- datetime shapes on the same threshold instant, written with and without fraction
    t0 = THR['origin_time'][0]
    evt = _catalog_for(['origin_time'])
    for op in OPS:
        for txt in (dt_string(t0, 0), dt_string(t0, 1), dt_string(t0, 3), dt_string(t0, 6)):
            s = 'datetime %s %s' % (op, txt)
            for container in ('str', 'list', 'tuple'):
                for in_place in (True, False):
                    for ev in ([], evt, evt[::-1]):
                        T.run('catalog_filter', {'events': ev, 'statements': [s], 'container': container, 'in_place': in_place},
                              key=('dt', s, container, in_place, len(ev), ev[:1] == evt[:1]))
    # ---- every ordered pair of statements (30 shapes), catalog = all on/below/above combinations of the two attributes
    shapes = [(a, op) for a in attrs for op in OPS] + [('datetime', op) for op in OPS]

    def text(sh):
        return 'datetime %s %s' % (sh[1], dt_string(t0)) if sh[0] == 'datetime' else _stmt(*sh)

    def attr_of(sh):
        return 'origin_time' if sh[0] == 'datetime' else sh[0]
    n = 0
    for s1, s2 in itertools.product(shapes, repeat=2):
        n += 1
        aa = sorted({attr_of(s1), attr_of(s2)})
        ev = _catalog_for(aa)
        T.run('catalog_filter', {'events': ev, 'statements': [text(s1), text(s2)], 'container': 'list' if n % 2 else 'tuple',
                                 'in_place': bool(n % 4 < 2)}, key=('pair', s1, s2))
    # ---- triples / longer lists: range queries as used by the library (time window + magnitude + box)
    ev = _catalog_for(['origin_time', 'magnitude', 'latitude'])
    triples = [[text(('origin_time', '>=')), text(('magnitude', '>=')), text(('latitude', '<'))],
               [text(('datetime', '>')), text(('magnitude', '==')), text(('latitude', '<='))],
               ['origin_time >= %d' % THR['origin_time'][1], 'origin_time < %d' % THR['origin_time'][2], text(('magnitude', '>'))],
               ['magnitude >= 4.95', 'magnitude < 4.95'],
               ['latitude >= 35.7', 'latitude <= 35.7', 'longitude == -117.5', 'depth == 10.0', 'magnitude == 4.95'],
               [text(('datetime', '>=')), text(('datetime', '<=')), 'origin_time == %d' % t0, text(('magnitude', '<=')), text(('depth', '<='))]]
    nrand = 40 if tier == 'quick' else 1500
    for _ in range(nrand):
        k = rng.randint(2, 5)
        triples.append([text(rng.choice(shapes)) for _ in range(k)])
    for st in triples:
        for in_place in (True, False):
            for cat in (ev, ev[::2], []):
                T.run('catalog_filter', {'events': cat, 'statements': st, 'container': 'list', 'in_place': in_place},
                      key=('multi', tuple(st), in_place, len(cat)))
    T.run('catalog_filter', {'events': ev[:3], 'statements': [], 'container': 'list', 'in_place': False}, key=('no statements',))
    # ---- datetime <-> origin_time at millisecond resolution: every ms of a window, directed instants
    window = range(0, 3000) if tier == 'quick' else range(0, 30000)
    directed = [-1, -1000, -1001, -86400001, 951782400000 + 1, 951782399999, 1078012800123, 1230767999999, 1230768000000,
                1262304000001, 1583020800001, 4102444800000 - 1, 1001, 1002, 1009, 2049, 16385, 1262304000009, 1262304000017,
                1262304000033, 1262304000065, 1262304000513, 1262304001001, 1262304002049]
    rnd = [rng.randrange(0, 4102444800000) for _ in range(300 if tier == 'quick' else 20000)]
    for j, ms in enumerate(itertools.chain(window, directed, rnd)):
        evs = [['m', ms - 1, 1.0, 2.0, 3.0, 4.0], ['t', ms, 1.0, 2.0, 3.0, 4.0], ['p', ms + 1, 1.0, 2.0, 3.0, 4.0]]
        op = OPS[j % 5]
        T.run('catalog_filter', {'events': evs, 'statements': ['datetime %s %s' % (op, dt_string(ms, 3 if j % 3 else 6))],
                                 'container': 'str' if j % 2 else 'list', 'in_place': bool(j % 4 < 2)}, key=('ms', ms, op))
    # ---- spatial filter (the partition itself is C01): lattice with a hole and a flagged-out cell, both modes
    lat = {'anchor': [-117.6, 35.6], 'dh': 0.1, 'cells': [[0, 0], [2, 1], [1, 0], [0, 1], [2, 0]], 'mask': [1, 1, 1, 1, 0]}
    for in_place in (True, False):
        T.run('grid_catalog', {'lattice': lat, 'probe': {'ulps': [1, 2], 'holes': True, 'beyond': True}, 'in_place': in_place},
              key=('spatial', in_place))
        T.run('grid_catalog', {'lattice': lat, 'points': [], 'in_place': in_place}, key=('spatial-empty', in_place))
        T.run('grid_catalog', {'lattice': lat, 'points': [[-117.55, 35.65], [-117.35, 35.65], [-117.55, 35.65], [-110.0, 35.65], [-117.5, 35.7]],
                               'in_place': in_place}, key=('spatial-directed', in_place))
    return T.result(bound='25 attribute shapes x 5 catalogs (empty, 1, 3 on/below/above the threshold, reversed, duplicates) x str/list/tuple x in_place x via; '
                          '5 datetime shapes x 4 spellings; all %d ordered pairs of the 30 shapes on 3^k-event catalogs; %d longer statement lists; '
                          'datetime vs origin_time on every millisecond of [0, %d) + %d directed + %d random instants'
                          % (len(shapes) ** 2, len(triples), len(window), len(directed), len(rnd)),
                    exhaustive_part=True)
