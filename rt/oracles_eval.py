"""Oracles for the evaluation properties C05, C06, C07, C08 and C16.

Two levels:
 (a) the ndarray-level private functions of csep.core.{poisson,binomial,brier}_evaluations and
     csep.utils.stats, and
 (b) the public consistency / comparison tests on a small GriddedForecast + CSEPCatalog built on a
     small CartesianGrid2D (and, for C06/C07, a small in-memory CatalogForecast).

Every expected value is computed from the property statement with plain loops / math.fsum /
math.lgamma / exact rationals - never by calling the function under test or a sibling of it.

Conventions of the JSON-able arguments
  rates            nested list, 1-D or 2-D (cells x magnitude bins for level (b))
  counts           nested list of the same shape (ints)
  grid             {'nx':3,'ny':2,'dh':1.0,'x0':0.0,'y0':0.0,'mags':[4.0,5.0,6.0]}
                   cell index = i*ny + j  (origin x0+i*dh, y0+j*dh)
  events           list of [cell, magnitude_bin]; the oracle puts the event strictly inside that
                   bin (so no C01/C02 boundary question interferes)
  random_numbers   list of rows (one per simulation) of uniform numbers in [0,1)
  poisson_draws    list (one per simulation) - the values numpy.random.poisson is made to return
                   for the L-test, so that the number of events of each simulated catalog is known
"""
import contextlib
import datetime
import itertools
import math
import signal
import warnings
from fractions import Fraction

import numpy

from .oracles import oracle, call, _exc

INF = float('inf')
ALL_CHECKS = ('observed', 'simulated', 'quantile')


# ------------------------------------------------------------------ infrastructure
@contextlib.contextmanager
def _quiet():
    with warnings.catch_warnings():
        warnings.simplefilter('ignore')
        with numpy.errstate(all='ignore'):
            yield


class Hang(Exception):
    """the call did not return within the time limit (e.g. a rejection loop that cannot end)"""


def tcall(fn, *a, _timeout=5.0, **kw):
    """call() with warnings silenced and a wall-clock limit (main thread only)"""
    def handler(signum, frame):
        raise Hang('no result after %g s' % _timeout)
    armed = False
    try:
        old = signal.signal(signal.SIGALRM, handler)
        signal.setitimer(signal.ITIMER_REAL, _timeout)
        armed = True
    except ValueError:  # not in the main thread
        pass
    try:
        with _quiet():
            return call(fn, *a, **kw)
    finally:
        if armed:
            signal.setitimer(signal.ITIMER_REAL, 0)
            signal.signal(signal.SIGALRM, old)


@contextlib.contextmanager
def _fixed_poisson(draws, record):
    """numpy.random.poisson returns the prescribed draws (and records the mean it was asked for)"""
    if draws is None:
        yield
        return
    orig = numpy.random.poisson
    seq = list(draws)

    def fake(lam=1.0, size=None):
        record.append(float(lam))
        if len(record) > len(seq):
            raise RuntimeError('oracle: more Poisson draws requested than prescribed')
        return seq[len(record) - 1]
    numpy.random.poisson = fake
    try:
        yield
    finally:
        numpy.random.poisson = orig


def _flat(x):
    return [float(v) for v in numpy.asarray(x, dtype=float).ravel().tolist()]


def _eq(got, exp, scale=0.0, rel=1e-9, abs_=1e-12):
    """got == exp up to rel * max(|exp|, scale) + abs_ ; infinities and nan must coincide"""
    try:
        got = float(got)
    except Exception:
        return False
    exp = float(exp)
    if math.isnan(got) or math.isnan(exp):
        return math.isnan(got) and math.isnan(exp)
    if math.isinf(got) or math.isinf(exp):
        return got == exp
    return abs(got - exp) <= rel * max(abs(exp), abs(scale)) + abs_


# ------------------------------------------------------------------ definitions (from the statements)
def poisson_ll(rates, counts):
    """sum_b log Poisson-pmf(count_b | rate_b); returns (value, magnitude of the summed terms)"""
    terms = []
    for r, c in zip(rates, counts):
        if r == 0:
            if c != 0:
                return -INF, 0.0
            continue
        if c:
            terms += [c * math.log(r), -math.lgamma(c + 1)]
        terms.append(-r)
    return math.fsum(terms), math.fsum(abs(t) for t in terms)


def binary_ll(rates, counts):
    """sum_active ln(1-exp(-r)) + sum_inactive (-r); second value: granted absolute error of
    evaluating 1-exp(-r) in double precision (the statement's own formula)"""
    terms, slack = [], 0.0
    for r, c in zip(rates, counts):
        if c > 0:
            if r <= 0:
                return -INF, 0.0
            p = -math.expm1(-r)
            terms.append(math.log(p))
            slack += 4.5e-16 / p
        else:
            terms.append(-r)
    return math.fsum(terms), slack + 1e-9 * math.fsum(abs(t) for t in terms)


def brier(rates, counts):
    n = len(rates)
    s = math.fsum((-math.expm1(-r) - (1.0 if c > 0 else 0.0)) ** 2 for r, c in zip(rates, counts))
    return -2.0 * s / n, 2.0


def _statistic(kind, mode, rates, counts, n_obs):
    """-> (expected value, absolute tolerance) of the test statistic of a (simulated or observed)
    catalog `counts`; n_obs = number of OBSERVED events (normalisation of the S/M statistics)"""
    if kind == 'poisson':
        if mode == 'N':
            tot = math.fsum(rates)
            rr = [r * n_obs / tot for r in rates]
        else:
            rr = rates
        v, mag = poisson_ll(rr, counts)
        return v, 1e-9 * mag + 1e-12
    if kind == 'binary':
        v, slack = binary_ll(rates, counts)
        return v, slack + 1e-12
    if kind == 'brier':
        v, mag = brier(rates, counts)
        return v, 1e-9 * mag
    raise ValueError(kind)


def cumulative(rates):
    """exact cumulative normalised rates F_0..F_{n-1} (rational arithmetic, rounded once)"""
    fr = [Fraction(r) for r in rates]
    tot = sum(fr)
    acc, out = Fraction(0), []
    for f in fr:
        acc += f
        out.append(float(acc / tot))
    return out


def candidates(rates, F, u, tol=None):
    """bins k of positive rate with F_{k-1} <= u < F_k, the comparison taken up to `tol`: the
    float cumulative sums of an implementation differ from the exact ones by up to ~n ulps, so a
    number that close to a boundary may go to either side (default: relative 4(n+2) ulps)"""
    if tol is None:
        tol = 4 * (len(rates) + 2) * 2.220446049250313e-16
    out = []
    for k, r in enumerate(rates):
        if r <= 0:
            continue
        lo = F[k - 1] if k else 0.0
        if lo * (1 - tol) <= u < F[k] * (1 + tol):
            out.append(k)
    if not out:  # u at/above the (rounded) total: the last positive-rate bin
        out = [max(k for k, r in enumerate(rates) if r > 0)]
    return out


def _prescribed(kind, mode, counts, draw):
    if kind == 'poisson':
        return int(draw) if mode == 'L' else int(sum(counts))
    return sum(1 for c in counts if c > 0)


def _placements(rates, F, us, cap=64):
    """all count vectors compatible with the inverse-CDF placement of the numbers `us`
    (at most `cap`; beyond that the remaining ambiguous numbers take their first candidate)"""
    cands, n = [], 1
    for u in us:
        c = candidates(rates, F, u)
        if n * len(c) > cap:
            c = c[:1]
        n *= len(c)
        cands.append(c)
    out = []
    for combo in itertools.product(*cands):
        cnt = [0] * len(rates)
        for k in combo:
            cnt[k] += 1
        out.append(cnt)
    return out


def _valid_catalogs(kind, rates, n, cap=4000):
    """all count vectors with n events (poisson) / n distinct active cells (binary, brier) in
    positive-rate bins; [] when there are more than `cap` of them or none"""
    pos = [k for k, r in enumerate(rates) if r > 0]
    if not pos:
        return []
    out = []
    if kind == 'poisson':
        if math.comb(n + len(pos) - 1, len(pos) - 1) > cap:
            return []
        for combo in itertools.combinations_with_replacement(pos, n):
            cnt = [0] * len(rates)
            for k in combo:
                cnt[k] += 1
            out.append(cnt)
    else:
        if n > len(pos) or math.comb(len(pos), n) > cap:
            return []
        for combo in itertools.combinations(pos, n):
            cnt = [0] * len(rates)
            for k in combo:
                cnt[k] = 1
            out.append(cnt)
    return out


def judge_sim_test(out, kind, mode, rates, counts, num_simulations, random_numbers, draws, lam_rec,
                   checks=ALL_CHECKS, what=''):
    """clauses of C05/C06/C16 on the triple (quantile, observed statistic, simulated statistics)"""
    if out[0] == 'raise':
        return ['%s: unexpected exception %s (the test must return for every admissible input)' % (what, _exc(out))]
    qs, obs, sims = out[1]
    bad = []
    n_obs = sum(counts)
    try:
        sims = [float(s) for s in sims]
        obs = float(obs)
    except Exception:
        return ['%s: statistics are not numbers: %r / %r' % (what, obs, sims)]
    if 'observed' in checks:
        exp, tol = _statistic(kind, mode, rates, counts, n_obs)
        if not _eq(obs, exp, rel=0.0, abs_=tol):
            bad.append('%s: observed statistic %r, definition gives %r (rates=%r counts=%r)' % (what, obs, exp, rates, counts))
    if len(sims) != num_simulations:
        bad.append('%s: %d simulated statistics for num_simulations=%d' % (what, len(sims), num_simulations))
    if mode == 'L' and draws is not None and 'simulated' in checks:
        tot = math.fsum(rates)
        if len(lam_rec) != num_simulations:
            bad.append('%s: %d Poisson draws for %d simulations' % (what, len(lam_rec), num_simulations))
        for lam in lam_rec:
            if not _eq(lam, tot):
                bad.append('%s: number of simulated events drawn from Poisson(%r), forecast mean is %r' % (what, lam, tot))
                break
    if random_numbers is not None and 'simulated' in checks and sum(1 for r in rates if r > 0):
        F = cumulative(rates)
        for i, row in enumerate(random_numbers[:len(sims)]):
            okay, exps = False, []
            for cnt in _placements(rates, F, row):
                exp, tol = _statistic(kind, mode, rates, cnt, n_obs)
                exps.append((exp, cnt))
                if _eq(sims[i], exp, rel=0.0, abs_=tol):
                    okay = True
                    break
            if not okay:
                bad.append('%s: simulated statistic #%d = %r; inverse-CDF placement of u=%r gives counts %r with statistic %r'
                           % (what, i, sims[i], row, exps[0][1], exps[0][0]))
                break
    if random_numbers is None and 'simulated' in checks and (kind != 'poisson' or mode != 'L'):
        # seeded run: every simulated statistic must be the statistic of SOME admissible catalog
        # (prescribed number of events / active cells, none in a zero-rate bin) - small scopes only
        valid = _valid_catalogs(kind, rates, _prescribed(kind, mode, counts, 0))
        if valid:
            exps = [_statistic(kind, mode, rates, cnt, n_obs) for cnt in valid]
            for i, sv in enumerate(sims):
                if not any(_eq(sv, ev, rel=0.0, abs_=tol) for ev, tol in exps):
                    bad.append('%s: simulated statistic #%d = %r is not the statistic of any catalog with the prescribed %d '
                               'events/active cells in positive-rate bins (rates=%r)'
                               % (what, i, sv, _prescribed(kind, mode, counts, 0), rates))
                    break
    if 'quantile' in checks and num_simulations > 0 and len(sims) == num_simulations:
        expq = sum(1 for s in sims if s <= obs) / float(num_simulations)
        try:
            q = float(qs)
        except Exception:
            q = float('nan')
        if not (0.0 <= q <= 1.0):
            bad.append('%s: quantile %r outside [0,1]' % (what, qs))
        elif not _eq(q, expq, abs_=1e-15):
            bad.append('%s: quantile %r, fraction of simulated statistics <= observed is %r' % (what, qs, expq))
    return bad[:5]


# ------------------------------------------------------------------ level (a): ndarray functions
@oracle('poisson_jll_ndarray')
def _poisson_jll_ndarray(rates, counts):
    """C05: stats.poisson_joint_log_likelihood_ndarray fed the way its callers feed it"""
    from csep.utils import stats
    R = numpy.asarray(rates, dtype=float)
    C = numpy.asarray(counts, dtype=float)
    idx = numpy.nonzero(C.ravel())
    with _quiet():
        logs = numpy.log(R.ravel())[idx] * C.ravel()[idx]
        out = tcall(stats.poisson_joint_log_likelihood_ndarray, logs, C.ravel()[idx], numpy.sum(R))
    if out[0] == 'raise':
        return ['unexpected exception ' + _exc(out)]
    exp, mag = poisson_ll(_flat(rates), _flat(counts))
    if not _eq(out[1], exp, rel=0.0, abs_=1e-9 * mag + 1e-12):
        return ['joint log-likelihood %r, sum of log Poisson pmf is %r (rates=%r counts=%r)' % (out[1], exp, rates, counts)]
    return []


@oracle('sim_test_ndarray')
def _sim_test_ndarray(kind, rates, counts, num_simulations=1, random_numbers=None, seed=None, mode='CL',
                      poisson_draws=None, checks=None, timeout=5.0):
    """C05/C06/C16: _poisson_likelihood_test (mode 'L' | 'CL' | 'N' = normalised, the S/M form),
    _binary_likelihood_test, _brier_score_test on plain arrays"""
    R = numpy.array(rates, dtype=float)
    C = numpy.array(counts, dtype=float)
    rn = None if random_numbers is None else numpy.array(random_numbers, dtype=float)
    if rn is not None and rn.ndim != 2:
        raise ValueError('oracle: random_numbers must be a list of equally long rows')
    rec = []
    if kind == 'poisson':
        from csep.core import poisson_evaluations as m
        kw = dict(num_simulations=num_simulations, random_numbers=rn, seed=seed, verbose=False,
                  use_observed_counts=(mode != 'L'), normalize_likelihood=(mode == 'N'))
        fn = m._poisson_likelihood_test
    elif kind == 'binary':
        from csep.core import binomial_evaluations as m
        kw = dict(num_simulations=num_simulations, random_numbers=rn, seed=seed, verbose=False)
        fn = m._binary_likelihood_test
    elif kind == 'brier':
        from csep.core import brier_evaluations as m
        kw = dict(num_simulations=num_simulations, random_numbers=rn, seed=seed, verbose=False)
        fn = m._brier_score_test
    else:
        raise ValueError(kind)
    fr, fc = _flat(rates), [int(v) for v in _flat(counts)]
    if rn is not None:
        for i, row in enumerate(rn.tolist()):
            need = _prescribed(kind, mode, fc, poisson_draws[i] if poisson_draws else 0)
            if len(row) != need:
                raise ValueError('oracle: row %d has %d numbers, the property prescribes %d events' % (i, len(row), need))
    with _fixed_poisson(poisson_draws if (kind == 'poisson' and mode == 'L') else None, rec):
        out = tcall(fn, R, C, _timeout=timeout, **kw)
    return judge_sim_test(out, kind, mode, fr, fc, num_simulations, None if rn is None else rn.tolist(),
                          poisson_draws, rec, checks or ALL_CHECKS, what='%s/%s' % (kind, mode))


@oracle('simulate_catalog')
def _simulate_catalog(module, rates, num_events, random_numbers=None, seed=None, timeout=5.0):
    """C06: _simulate_catalog of the three modules, given the normalised cumulative rates as
    sampling weights.  Injected numbers: inverse-CDF placement of each; seeded: counts only."""
    import importlib
    m = importlib.import_module('csep.core.%s_evaluations' % {'poisson': 'poisson', 'binary': 'binomial', 'brier': 'brier'}[module])
    # the sampling weights handed in are the correctly rounded cumulative normalised rates (ending
    # at exactly 1.0); how the three tests build their own weights is probed by 'sim_test_ndarray'
    w = numpy.array(cumulative(_flat(rates)), dtype=float)
    rn = None if random_numbers is None else numpy.array(random_numbers, dtype=float)
    if rn is not None and len(rn) != num_events:
        raise ValueError('oracle: need exactly num_events random numbers')
    if seed is not None:
        numpy.random.seed(seed)
    if module == 'brier':
        out = tcall(m._simulate_catalog, num_events, w, random_numbers=rn, _timeout=timeout)
    else:
        out = tcall(m._simulate_catalog, num_events, w, numpy.zeros(w.shape), random_numbers=rn, _timeout=timeout)
    if out[0] == 'raise':
        return ['%s._simulate_catalog: unexpected exception %s (rates=%r, u=%r)' % (module, _exc(out), rates, random_numbers)]
    s = numpy.asarray(out[1], dtype=float).ravel()
    fr = _flat(rates)
    bad = []
    if s.shape != w.shape:
        return ['result shape %r for %d bins' % (s.shape, len(fr))]
    if numpy.any(s < 0) or numpy.any(s != numpy.floor(s)):
        bad.append('counts are not non-negative integers: %r' % s.tolist())
    if s.sum() != num_events:
        bad.append('%r events simulated, %d prescribed' % (s.sum(), num_events))
    for k, rk in enumerate(fr):
        if rk <= 0 and s[k] != 0:
            bad.append('event placed in zero-rate bin %d (rates=%r, counts=%r)' % (k, fr, s.tolist()))
            break
    if rn is None:
        if module != 'poisson' and numpy.any(s > 1):
            bad.append('binary simulation must activate %d distinct cells, got %r' % (num_events, s.tolist()))
    else:
        F = cumulative(fr)
        lo, hi = [0] * len(fr), [0] * len(fr)
        for u in rn.tolist():
            c = candidates(fr, F, u)
            for k in c:
                hi[k] += 1
            if len(c) == 1:
                lo[c[0]] += 1
        for k in range(len(fr)):
            if not (lo[k] <= s[k] <= hi[k]):
                bad.append('bin %d holds %r events, inverse CDF of u=%r on rates=%r requires between %d and %d'
                           % (k, s[k], random_numbers, fr, lo[k], hi[k]))
                break
    return bad[:5]


@oracle('binary_jll_ndarray')
def _binary_jll_ndarray(rates, counts):
    """C16: binary_joint_log_likelihood_ndarray = definition; depends on activity only"""
    from csep.core import binomial_evaluations as m
    R = numpy.array(rates, dtype=float)
    C = numpy.array(counts, dtype=float)
    out = tcall(m.binary_joint_log_likelihood_ndarray, R, C)
    if out[0] == 'raise':
        return ['unexpected exception ' + _exc(out)]
    exp, tol = binary_ll(_flat(rates), _flat(counts))
    bad = []
    if not _eq(out[1], exp, rel=0.0, abs_=tol + 1e-12):
        bad.append('binary joint log-likelihood %r, definition gives %r (rates=%r counts=%r)' % (float(out[1]), exp, rates, counts))
    out2 = tcall(m.binary_joint_log_likelihood_ndarray, R, (C > 0).astype(float))
    if out2[0] == 'raise' or not _eq(out2[1], float(out[1]), abs_=1e-12):
        bad.append('value changes when counts are replaced by activity: %r vs %r' % (out[1], out2[1]))
    return bad


@oracle('brier_score_ndarray')
def _brier_score_ndarray(rates, counts):
    """C16: _brier_score_ndarray = -2/N sum (1-exp(-r) - [active])^2"""
    from csep.core import brier_evaluations as m
    R = numpy.array(rates, dtype=float)
    C = numpy.array(counts, dtype=float)
    out = tcall(m._brier_score_ndarray, R, C)
    if out[0] == 'raise':
        return ['unexpected exception ' + _exc(out)]
    exp, mag = brier(_flat(rates), _flat(counts))
    bad = []
    if not _eq(out[1], exp, rel=1e-9, abs_=1e-12):
        bad.append('Brier score %r, definition gives %r (rates=%r counts=%r)' % (float(out[1]), exp, rates, counts))
    out2 = tcall(m._brier_score_ndarray, R, (C > 0).astype(float))
    if out2[0] == 'raise' or not _eq(out2[1], float(out[1]), abs_=1e-12):
        bad.append('value changes when counts are replaced by activity: %r vs %r' % (out[1], out2[1]))
    return bad


# ------------------------------------------------------------------ level (b): small forecasts and catalogs
T0 = datetime.datetime(2020, 1, 1)


def build_region(grid):
    from csep.core.regions import CartesianGrid2D
    nx, ny = int(grid['nx']), int(grid['ny'])
    dh = float(grid.get('dh', 1.0))
    x0, y0 = float(grid.get('x0', 0.0)), float(grid.get('y0', 0.0))
    origins = [[x0 + i * dh, y0 + j * dh] for i in range(nx) for j in range(ny)]
    mags = numpy.array(grid['mags'], dtype=float)
    region = CartesianGrid2D.from_origins(numpy.array(origins), dh=dh, magnitudes=mags)
    if not numpy.array_equal(numpy.asarray(region.origins()), numpy.array(origins)):
        raise RuntimeError('oracle: region reordered the cells')
    return region, origins, mags, dh


def build_forecast(grid, region, rates, name='A', days=None, scale=None):
    from csep.core.forecasts import GriddedForecast
    R = numpy.array(rates, dtype=float)
    end = T0 + datetime.timedelta(days=days) if days else T0 + datetime.timedelta(days=365)
    f = GriddedForecast(start_time=T0, end_time=end, data=R, region=region,
                        magnitudes=numpy.array(grid['mags'], dtype=float), name=name)
    if scale is not None:
        f.scale(scale)
    return f


def build_catalog(grid, region, origins, dh, events, name='obs'):
    """events [[cell, magbin], ...] strictly inside their bins"""
    from csep.core.catalogs import CSEPCatalog
    mags = [float(m) for m in grid['mags']]
    dm = (mags[1] - mags[0]) if len(mags) > 1 else 1.0
    off = [0.25, 0.5, 0.75, 0.375, 0.625]
    data = []
    for i, (cell, mb) in enumerate(events):
        ox, oy = origins[cell]
        lon = ox + dh * off[i % 5]
        lat = oy + dh * off[(i * 2 + 1) % 5]
        mag = mags[mb] + dm * off[(i + 2) % 5]
        data.append((str(i), 1577836800000 + 1000 * i, lat, lon, 10.0, mag))
    return CSEPCatalog(data=data, region=region, name=name)


def event_counts(grid, events):
    nc = int(grid['nx']) * int(grid['ny'])
    nm = len(grid['mags'])
    full = [[0] * nm for _ in range(nc)]
    for cell, mb in events:
        full[cell][mb] += 1
    return full


def marginal(table, which):
    if which == 'full':
        return [v for row in table for v in row]
    if which == 'spatial':
        return [math.fsum(row) for row in table]
    return [math.fsum(row[k] for row in table) for k in range(len(table[0]))]


GRIDDED = {
    # name: (module, function, kind, mode, marginal)
    'L': ('poisson_evaluations', 'likelihood_test', 'poisson', 'L', 'full'),
    'CL': ('poisson_evaluations', 'conditional_likelihood_test', 'poisson', 'CL', 'full'),
    'S': ('poisson_evaluations', 'spatial_test', 'poisson', 'N', 'spatial'),
    'M': ('poisson_evaluations', 'magnitude_test', 'poisson', 'N', 'magnitude'),
    'bS': ('binomial_evaluations', 'binary_spatial_test', 'binary', 'CL', 'spatial'),
    'bCL': ('binomial_evaluations', 'binary_conditional_likelihood_test', 'binary', 'CL', 'full'),
    'brier': ('brier_evaluations', 'brier_score_test', 'brier', 'CL', 'full'),
}


def _run_gridded(test, grid, rates, events, num_simulations, seed, random_numbers, poisson_draws, rec, timeout):
    import importlib
    modn, fnn, kind, mode, marg = GRIDDED[test]
    m = importlib.import_module('csep.core.' + modn)
    region, origins, mags, dh = build_region(grid)
    fore = build_forecast(grid, region, rates)
    cat = build_catalog(grid, region, origins, dh, events)
    rn = None if random_numbers is None else numpy.array(random_numbers, dtype=float)
    with _fixed_poisson(poisson_draws if mode == 'L' else None, rec):
        out = tcall(getattr(m, fnn), fore, cat, num_simulations=num_simulations, seed=seed, random_numbers=rn,
                    _timeout=timeout)
    if out[0] == 'return':
        r = out[1]
        out = ('return', (r.quantile, r.observed_statistic, r.test_distribution))
    return out


@oracle('gridded_test')
def _gridded_test(test, grid, rates, events, num_simulations=1, seed=None, random_numbers=None,
                  poisson_draws=None, checks=None, timeout=5.0):
    """C05/C06/C16 through the public tests L, CL, S, M, bS, bCL, brier"""
    modn, fnn, kind, mode, marg = GRIDDED[test]
    fr = marginal([[float(v) for v in row] for row in rates], marg)
    fc = [int(v) for v in marginal(event_counts(grid, events), marg)]
    if random_numbers is not None:
        for i, row in enumerate(random_numbers):
            need = _prescribed(kind, mode, fc, poisson_draws[i] if poisson_draws else 0)
            if len(row) != need:
                raise ValueError('oracle: row %d has %d numbers, the property prescribes %d events' % (i, len(row), need))
    rec = []
    out = _run_gridded(test, grid, rates, events, num_simulations, seed, random_numbers, poisson_draws, rec, timeout)
    return judge_sim_test(out, kind, mode, fr, fc, num_simulations, random_numbers, poisson_draws, rec,
                          checks or ALL_CHECKS, what=fnn)


def _same_bits(a, b):
    a, b = float(a), float(b)
    return (math.isnan(a) and math.isnan(b)) or a == b


def _flatten_result(q, obs, dist):
    vals = []
    for v in (q, obs, dist):
        if v is None:
            vals.append(None)
        elif isinstance(v, (list, tuple, numpy.ndarray)):
            vals += [None if x is None else float(x) for x in v]
        else:
            vals.append(float(v))
    return vals


def build_catalog_forecast(mag_bins, synthetic, observed):
    """synthetic: list of catalogs, each a list of magnitude-bin indices; observed likewise"""
    from csep.core.regions import CartesianGrid2D
    from csep.core.catalogs import CSEPCatalog
    from csep.core.forecasts import CatalogForecast
    mags = [float(m) for m in mag_bins]
    dm = mags[1] - mags[0] if len(mags) > 1 else 1.0
    region = CartesianGrid2D.from_origins(numpy.array([[0.0, 0.0]]), dh=1.0, magnitudes=numpy.array(mags))

    def cat(bins, name):
        data = [(str(i), 1577836800000 + 1000 * i, 0.5, 0.5, 10.0, mags[b] + 0.5 * dm) for i, b in enumerate(bins)]
        return CSEPCatalog(data=data, region=region, name=name)
    cats = [cat(b, 's%d' % i) for i, b in enumerate(synthetic)]
    fore = CatalogForecast(catalogs=cats, region=region, n_cat=len(cats), name='cf')
    return fore, cat(observed, 'obs')


@oracle('determinism')
def _determinism(target, seed, num_simulations=4, grid=None, rates=None, events=None,
                 mag_bins=None, synthetic=None, observed=None, timeout=5.0):
    """C06: the result is a function of (forecast, catalog, seed) - run twice with the same seed
    from two different states of the global numpy generator and compare bit for bit"""
    def once(state):
        numpy.random.seed(state)
        numpy.random.rand(3)
        if target in GRIDDED:
            return _run_gridded(target, grid, rates, events, num_simulations, seed, None, None, [], timeout)
        from csep.core import catalog_evaluations as ce
        fore, obs = build_catalog_forecast(mag_bins, synthetic, observed)
        fn = {'resampled_M': ce.resampled_magnitude_test, 'MLL_M': ce.MLL_magnitude_test}[target]
        out = tcall(fn, fore, obs, seed=seed, _timeout=timeout)
        if out[0] == 'return':
            r = out[1]
            out = ('return', (r.quantile, r.observed_statistic, r.test_distribution))
        return out
    a, b = once(111), once(987654)
    for o in (a, b):
        if o[0] == 'raise':
            return ['%s(seed=%r): unexpected exception %s' % (target, seed, _exc(o))]
    va, vb = _flatten_result(*a[1]), _flatten_result(*b[1])
    if len(va) != len(vb) or any((x is None) != (y is None) or (x is not None and not _same_bits(x, y)) for x, y in zip(va, vb)):
        return ['%s(seed=%r) is not reproducible: two runs with the same seed give %r and %r' % (target, seed, va[:8], vb[:8])]
    return []


# ------------------------------------------------------------------ C07 number tests
def _pois_tail_exact(n, mu):
    """(P(N>=n), P(N<=n), P(N=n)) by direct summation (n small)"""
    lm = math.log(mu)
    pm = [math.exp(k * lm - mu - math.lgamma(k + 1)) for k in range(n + 1)]
    le = math.fsum(pm)
    lt = math.fsum(pm[:-1])
    return (1.0 - lt if lt < 0.5 else _upper_pois(n, mu, lm)), min(le, 1.0), pm[-1]


def _upper_pois(n, mu, lm):
    tot, k = [], n
    while True:
        t = math.exp(k * lm - mu - math.lgamma(k + 1))
        tot.append(t)
        if (k > mu and t < 1e-22 * max(tot)) or k > n + 200000 or (t == 0.0 and k > mu):
            break
        k += 1
    return min(math.fsum(tot), 1.0)


def poisson_tails(n, mu):
    import scipy.stats
    n = int(n)
    pmf = math.exp(n * math.log(mu) - mu - math.lgamma(n + 1))
    if n <= 400:
        ge, le, pmf = _pois_tail_exact(n, mu)
        return ge, le, pmf
    return float(scipy.stats.poisson.sf(n - 1, mu)), float(scipy.stats.poisson.cdf(n, mu)), pmf


def nbd_tails(n, mean, var):
    import scipy.stats
    n = int(n)
    p = mean / var
    r = mean * mean / (var - mean)
    lq = math.log1p(-p) if p < 0.5 else math.log((var - mean) / var)

    def lpmf(k):
        return math.lgamma(k + r) - math.lgamma(k + 1) - math.lgamma(r) + r * math.log(p) + k * lq
    pmf = math.exp(lpmf(n))
    if n <= 400:
        pm = [math.exp(lpmf(k)) for k in range(n + 1)]
        le = min(math.fsum(pm), 1.0)
        lt = math.fsum(pm[:-1])
        ge = 1.0 - lt
        if lt > 0.5:
            ge = float(scipy.stats.nbinom.sf(n - 1, r, p))
        return ge, le, pmf
    return float(scipy.stats.nbinom.sf(n - 1, r, p)), float(scipy.stats.nbinom.cdf(n, r, p)), pmf


def judge_deltas(out, ge, le, pmf, what, rel=1e-9, abs_=1e-10):
    if out[0] == 'raise':
        return ['%s: unexpected exception %s' % (what, _exc(out))]
    try:
        d1, d2 = (float(v) for v in out[1])
    except Exception:
        return ['%s: result %r is not a pair of numbers' % (what, out[1])]
    bad = []
    if not _eq(d1, ge, rel=rel, abs_=abs_):
        bad.append('%s: delta1 = %r, P(N >= n_obs) = %r' % (what, d1, ge))
    if not _eq(d2, le, rel=rel, abs_=abs_):
        bad.append('%s: delta2 = %r, P(N <= n_obs) = %r' % (what, d2, le))
    if not (0.0 <= d1 <= 1.0 and 0.0 <= d2 <= 1.0):
        bad.append('%s: (delta1, delta2) = %r not in [0,1]' % (what, (d1, d2)))
    if not _eq(d1 + d2, 1.0 + pmf, rel=rel, abs_=abs_):
        bad.append('%s: delta1 + delta2 = %r, 1 + P(N = n_obs) = %r' % (what, d1 + d2, 1.0 + pmf))
    return bad


@oracle('number_test_ndarray')
def _number_test_ndarray(fore_cnt, obs_cnt):
    from csep.core import poisson_evaluations as m
    out = tcall(m._number_test_ndarray, fore_cnt, obs_cnt)
    return judge_deltas(out, *poisson_tails(obs_cnt, float(fore_cnt)), what='_number_test_ndarray(%r, %r)' % (fore_cnt, obs_cnt))


@oracle('nbd_number_test_ndarray')
def _nbd_number_test_ndarray(fore_cnt, obs_cnt, variance):
    from csep.core import binomial_evaluations as m
    out = tcall(m._nbd_number_test_ndarray, fore_cnt, obs_cnt, variance)
    return judge_deltas(out, *nbd_tails(obs_cnt, float(fore_cnt), float(variance)),
                        what='_nbd_number_test_ndarray(%r, %r, %r)' % (fore_cnt, obs_cnt, variance))


@oracle('number_test_monotone')
def _number_test_monotone(means, obs_cnt, variance_factor=None):
    """delta1 non-decreasing, delta2 non-increasing in the forecast mean (means ascending)"""
    from csep.core import poisson_evaluations as pe, binomial_evaluations as be
    vals = []
    for mu in means:
        if variance_factor is None:
            out = tcall(pe._number_test_ndarray, mu, obs_cnt)
        else:
            out = tcall(be._nbd_number_test_ndarray, mu, obs_cnt, mu * variance_factor)
        if out[0] == 'raise':
            return ['unexpected exception ' + _exc(out)]
        vals.append((float(out[1][0]), float(out[1][1])))
    bad = []
    for (m0, a), (m1, b) in zip(zip(means, vals), zip(means[1:], vals[1:])):
        if b[0] < a[0] - 1e-12:
            bad.append('delta1 decreases from %r to %r when the mean grows from %r to %r (n_obs=%r)' % (a[0], b[0], m0, m1, obs_cnt))
        if b[1] > a[1] + 1e-12:
            bad.append('delta2 increases from %r to %r when the mean grows from %r to %r (n_obs=%r)' % (a[1], b[1], m0, m1, obs_cnt))
    return bad[:5]


@oracle('number_test_public')
def _number_test_public(grid, rates, events, scale=None, variance=None):
    """poisson_evaluations.number_test / binomial_evaluations.negative_binomial_number_test"""
    from csep.core import poisson_evaluations as pe, binomial_evaluations as be
    region, origins, mags, dh = build_region(grid)
    fore = build_forecast(grid, region, rates, scale=scale)
    cat = build_catalog(grid, region, origins, dh, events)
    mu = math.fsum(v for row in rates for v in row) * (1.0 if scale is None else float(scale))
    n = len(events)
    if variance is None:
        out = tcall(pe.number_test, fore, cat)
        tails, what = poisson_tails(n, mu), 'number_test(total=%r, n_obs=%d)' % (mu, n)
    else:
        out = tcall(be.negative_binomial_number_test, fore, cat, variance)
        tails, what = nbd_tails(n, mu, float(variance)), 'negative_binomial_number_test(total=%r, n_obs=%d, var=%r)' % (mu, n, variance)
    if out[0] == 'return':
        r = out[1]
        bad = [] if r.observed_statistic == n else ['%s: observed_statistic %r, catalog holds %d events' % (what, r.observed_statistic, n)]
        return bad + judge_deltas(('return', r.quantile), *tails, what=what)
    return judge_deltas(out, *tails, what=what)


@oracle('catalog_number_test')
def _catalog_number_test(sizes, n_obs):
    """catalog_evaluations.number_test: empirical >= / <= fractions of the synthetic-catalog sizes"""
    from csep.core import catalog_evaluations as ce
    fore, obs = build_catalog_forecast([4.0, 5.0], [[k % 2 for k in range(s)] for s in sizes], [k % 2 for k in range(n_obs)])
    out = tcall(ce.number_test, fore, obs, verbose=False)
    if out[0] == 'raise':
        return ['catalog number_test: unexpected exception ' + _exc(out)]
    d1, d2 = out[1].quantile
    n = float(len(sizes))
    e1 = sum(1 for s in sizes if s >= n_obs) / n
    e2 = sum(1 for s in sizes if s <= n_obs) / n
    bad = []
    if not _eq(d1, e1, abs_=1e-15):
        bad.append('delta1 = %r, #{sizes >= %d}/n = %r (sizes=%r)' % (d1, n_obs, e1, sizes))
    if not _eq(d2, e2, abs_=1e-15):
        bad.append('delta2 = %r, #{sizes <= %d}/n = %r (sizes=%r)' % (d2, n_obs, e2, sizes))
    pm = sum(1 for s in sizes if s == n_obs) / n
    if not bad and not _eq(float(d1) + float(d2), 1.0 + pm, abs_=1e-12):
        bad.append('delta1 + delta2 = %r, 1 + P(N = n_obs) = %r' % (float(d1) + float(d2), 1.0 + pm))
    return bad


# ------------------------------------------------------------------ C08 comparison tests
def t_expected(x, n_a, n_b, n, alpha):
    """Rhoades et al. (2011) eq. 17/18 on the log-rate differences x (list of floats)"""
    import scipy.stats
    sx = math.fsum(x)
    sxx = math.fsum(v * v for v in x)
    ig = (sx - (n_a - n_b)) / n
    ig_tol = 1e-9 * (math.fsum(abs(v) for v in x) + abs(n_a) + abs(n_b)) / n + 1e-13
    first = sxx / (n - 1)
    var = first - sx * sx / (n * n - n)
    # two-pass value of the same quantity, to know how much of `first` cancels
    mean = sx / n
    var2 = math.fsum((v - mean) ** 2 for v in x) / (n - 1)
    degenerate = not (var2 > 1e-9 * first) or first == 0
    std = math.sqrt(var2) if var2 > 0 else 0.0
    tcrit = float(scipy.stats.t.ppf(1 - alpha / 2.0, n - 1))
    relv = 1e-9 + (0 if degenerate else 1e-13 * first / var2)
    return dict(n=n, ig=ig, ig_tol=ig_tol, std=std, tcrit=tcrit, degenerate=degenerate, relv=relv,
                t=(ig / (std / math.sqrt(n)) if not degenerate else float('nan')),
                half=tcrit * std / math.sqrt(n))


def judge_t(res, e, what):
    """res = dict(information_gain, t_statistic, t_critical, ig_lower, ig_upper)"""
    bad = []
    ig = float(res['information_gain'])
    if not _eq(ig, e['ig'], rel=0.0, abs_=e['ig_tol']):
        bad.append('%s: information gain %r, [sum(ln rA - ln rB) - (N_A - N_B)]/N = %r' % (what, ig, e['ig']))
    if not _eq(res['t_critical'], e['tcrit']):
        bad.append('%s: critical value %r, t.ppf(1-alpha/2, N-1) = %r' % (what, float(res['t_critical']), e['tcrit']))
    if not e['degenerate']:
        tt = abs(e['t']) * e['relv'] + e['ig_tol'] * math.sqrt(e['n']) / e['std'] + 1e-12
        if not _eq(res['t_statistic'], e['t'], rel=0.0, abs_=tt):
            bad.append('%s: t statistic %r, required %r' % (what, float(res['t_statistic']), e['t']))
        ht = e['half'] * e['relv'] + e['ig_tol'] + 1e-12
        if not _eq(res['ig_lower'], e['ig'] - e['half'], rel=0.0, abs_=ht) or not _eq(res['ig_upper'], e['ig'] + e['half'], rel=0.0, abs_=ht):
            bad.append('%s: interval (%r, %r), required (%r, %r)' % (what, float(res['ig_lower']), float(res['ig_upper']),
                                                                    e['ig'] - e['half'], e['ig'] + e['half']))
    return bad


def judge_antisymmetry(ab, ba, e, what):
    bad = []
    tol = 2 * e['ig_tol']
    if not _eq(ba['information_gain'], -float(ab['information_gain']), rel=0.0, abs_=tol):
        bad.append('%s: swapping gives gain %r, required %r' % (what, float(ba['information_gain']), -float(ab['information_gain'])))
    if not e['degenerate']:
        tt = 2 * (abs(e['t']) * e['relv'] + e['ig_tol'] * math.sqrt(e['n']) / e['std'] + 1e-12)
        if not _eq(ba['t_statistic'], -float(ab['t_statistic']), rel=0.0, abs_=tt):
            bad.append('%s: swapping gives t %r, required %r' % (what, float(ba['t_statistic']), -float(ab['t_statistic'])))
        ht = 2 * (e['half'] * e['relv'] + e['ig_tol'] + 1e-12)
        if not _eq(ba['ig_lower'], -float(ab['ig_upper']), rel=0.0, abs_=ht) or not _eq(ba['ig_upper'], -float(ab['ig_lower']), rel=0.0, abs_=ht):
            bad.append('%s: swapping gives interval (%r, %r), mirror of (%r, %r) required'
                       % (what, float(ba['ig_lower']), float(ba['ig_upper']), float(ab['ig_lower']), float(ab['ig_upper'])))
    return bad


@oracle('t_test_ndarray')
def _t_test_ndarray(rates1, rates2, n_f1, n_f2, alpha=0.05):
    from csep.core import poisson_evaluations as m
    r1, r2 = numpy.array(rates1, dtype=float), numpy.array(rates2, dtype=float)
    n = len(rates1)
    ab = tcall(m._t_test_ndarray, r1, r2, n, n_f1, n_f2, alpha=alpha)
    ba = tcall(m._t_test_ndarray, r2, r1, n, n_f2, n_f1, alpha=alpha)
    for o in (ab, ba):
        if o[0] == 'raise':
            return ['_t_test_ndarray: unexpected exception ' + _exc(o)]
    x = [math.log(a) - math.log(b) for a, b in zip(rates1, rates2)]
    e = t_expected(x, float(n_f1), float(n_f2), n, alpha)
    bad = judge_t(ab[1], e, '_t_test_ndarray') + judge_antisymmetry(ab[1], ba[1], e, '_t_test_ndarray')
    if list(rates1) == list(rates2) and n_f1 == n_f2 and float(ab[1]['information_gain']) != 0.0:
        bad.append('identical forecasts: gain %r, required 0' % float(ab[1]['information_gain']))
    return bad[:5]


def w_expected(d):
    """Wilcoxon signed-rank z (no continuity correction, tie-corrected) and two-sided normal p of
    the differences d (zeros dropped); None when nothing is left"""
    d = [v for v in d if v != 0]
    n = len(d)
    if n == 0:
        return None
    order = sorted(range(n), key=lambda i: abs(d[i]))
    ranks = [0.0] * n
    ties = []
    i = 0
    while i < n:
        j = i
        while j + 1 < n and abs(d[order[j + 1]]) == abs(d[order[i]]):
            j += 1
        for k in range(i, j + 1):
            ranks[order[k]] = (i + j) / 2.0 + 1.0
        if j > i:
            ties.append(j - i + 1)
        i = j + 1
    rp = math.fsum(r for r, v in zip(ranks, d) if v > 0)
    rm = math.fsum(r for r, v in zip(ranks, d) if v < 0)
    t = min(rp, rm)
    mn = n * (n + 1) / 4.0
    se = n * (n + 1) * (2 * n + 1) - 0.5 * sum(c * (c * c - 1) for c in ties)
    se = math.sqrt(se / 24.0)
    z = (t - mn) / se
    return z, math.erfc(abs(z) / math.sqrt(2.0))


def _fragile_ranks(d, keys, delta):
    """True when the ranking of |d| (or the removal of zeros) could change if every difference
    were perturbed by `delta`: two differences closer than delta that do not stem from the same
    pair of rates (keys), or a difference closer than delta to zero"""
    idx = sorted(range(len(d)), key=lambda i: abs(d[i]))
    for a, b in zip(idx, idx[1:]):
        if keys[a] != keys[b] and abs(abs(d[a]) - abs(d[b])) <= delta:
            return True
    return any(abs(v) <= delta for v in d)


@oracle('w_test_ndarray')
def _w_test_ndarray(x, m=0.0):
    from csep.core import poisson_evaluations as pe
    xs = numpy.array(x, dtype=float)
    ab = tcall(pe._w_test_ndarray, xs, m)
    ba = tcall(pe._w_test_ndarray, -xs, -m)
    d = [float(v) - float(m) for v in x]
    e = w_expected(d)
    if e is None:
        return []  # outside the quantifier (no difference distinct from the null median)
    for o in (ab, ba):
        if o[0] == 'raise':
            return ['_w_test_ndarray(x=%r, m=%r): unexpected exception %s' % (x, m, _exc(o))]
    return judge_w(ab[1], ba[1], e, '_w_test_ndarray(x=%r, m=%r)' % (x, m))


def judge_w(ab, ba, e, what, check_value=True):
    bad = []
    z, p = float(ab['z_statistic']), float(ab['probability'])
    if check_value and (not _eq(z, e[0], abs_=1e-12) or not _eq(p, e[1], abs_=1e-12)):
        bad.append('%s: (z, p) = %r, Wilcoxon signed-rank gives %r' % (what, (z, p), e))
    if not (0.0 <= p <= 1.0):
        bad.append('%s: p = %r outside [0,1]' % (what, p))
    if not _eq(ba['z_statistic'], z, abs_=1e-12) or not _eq(ba['probability'], p, abs_=1e-12):
        bad.append('%s: swapping the forecasts changes (z, p) from %r to %r'
                   % (what, (z, p), (float(ba['z_statistic']), float(ba['probability']))))
    return bad


def _pair(grid, rates_a, rates_b, events, days):
    region, origins, mags, dh = build_region(grid)
    fa = build_forecast(grid, region, rates_a, name='A', days=days)
    fb = build_forecast(grid, region, rates_b, name='B', days=days)
    cat = build_catalog(grid, region, origins, dh, events)
    return fa, fb, cat


@oracle('paired_t_test_public')
def _paired_t_test_public(grid, rates_a, rates_b, events, alpha=0.05, scale=False, days=365):
    from csep.core import poisson_evaluations as pe
    fa, fb, cat = _pair(grid, rates_a, rates_b, events, days)
    ab = tcall(pe.paired_t_test, fa, fb, cat, alpha=alpha, scale=scale)
    ba = tcall(pe.paired_t_test, fb, fa, cat, alpha=alpha, scale=scale)
    for o in (ab, ba):
        if o[0] == 'raise':
            return ['paired_t_test: unexpected exception ' + _exc(o)]

    def as_dict(r):
        return {'information_gain': r.observed_statistic, 't_statistic': r.quantile[0], 't_critical': r.quantile[1],
                'ig_lower': r.test_distribution[0], 'ig_upper': r.test_distribution[1]}
    div = float(days) if scale else 1.0
    x = [math.log(rates_a[c][k] / div) - math.log(rates_b[c][k] / div) for c, k in events]
    na = math.fsum(v / div for row in rates_a for v in row)
    nb = math.fsum(v / div for row in rates_b for v in row)
    e = t_expected(x, na, nb, len(events), alpha)
    bad = judge_t(as_dict(ab[1]), e, 'paired_t_test') + judge_antisymmetry(as_dict(ab[1]), as_dict(ba[1]), e, 'paired_t_test')
    if rates_a == rates_b and float(ab[1].observed_statistic) != 0.0:
        bad.append('identical forecasts: gain %r, required 0' % float(ab[1].observed_statistic))
    return bad[:5]


@oracle('w_test_public')
def _w_test_public(grid, rates_a, rates_b, events, scale=False, days=365):
    from csep.core import poisson_evaluations as pe
    fa, fb, cat = _pair(grid, rates_a, rates_b, events, days)
    n = len(events)
    na = math.fsum(v for row in rates_a for v in row)
    nb = math.fsum(v for row in rates_b for v in row)
    med = (na - nb) / n
    with _quiet():
        x = [float(numpy.log(rates_a[c][k]) - numpy.log(rates_b[c][k])) for c, k in events]
    d = [v - med for v in x]
    e = w_expected(d)
    if e is None:
        return []  # outside the quantifier
    ab = tcall(pe.w_test, fa, fb, cat, scale=scale)
    ba = tcall(pe.w_test, fb, fa, cat, scale=scale)
    for o in (ab, ba):
        if o[0] == 'raise':
            return ['w_test: unexpected exception %s (two positive-rate forecasts, %d in-region events)' % (_exc(o), n)]

    def as_dict(r):
        return {'z_statistic': r.observed_statistic, 'probability': r.quantile}
    # the forecast totals are sums of many floats and the logs may differ in the last bit: the
    # null median, hence a zero or tied difference, is only known up to rounding - the VALUE of
    # (z, p) is compared only when the ranks are robust against that
    delta = 1e-12 * (max(abs(v) for v in x) + (na + nb) / n + abs(med))
    robust = not _fragile_ranks(d, [(rates_a[c][k], rates_b[c][k]) for c, k in events], delta)
    return judge_w(as_dict(ab[1]), as_dict(ba[1]), e, 'w_test', check_value=robust)


@oracle('binary_paired_t_test_public')
def _binary_paired_t_test_public(grid, rates_a, rates_b, events, alpha=0.05, scale=False, days=365):
    """C08 only promises that the binary variant returns a result"""
    from csep.core import binomial_evaluations as be
    fa, fb, cat = _pair(grid, rates_a, rates_b, events, days)
    out = tcall(be.binary_paired_t_test, fa, fb, cat, alpha=alpha, scale=scale)
    if out[0] == 'raise':
        return ['binary_paired_t_test: unexpected exception %s (two positive-rate forecasts, %d in-region events)'
                % (_exc(out), len(events))]
    r = out[1]
    try:
        float(r.observed_statistic), float(r.quantile[0]), float(r.quantile[1])
        float(r.test_distribution[0]), float(r.test_distribution[1])
    except Exception:
        return ['binary_paired_t_test: result fields are not numbers']
    return []


# ------------------------------------------------------------------ helpers shared by the bounded suites
GRIDS = {
    '2x2x2': {'nx': 2, 'ny': 2, 'dh': 1.0, 'x0': 0.0, 'y0': 0.0, 'mags': [4.0, 5.0]},
    '3x2x3': {'nx': 3, 'ny': 2, 'dh': 0.5, 'x0': -1.0, 'y0': 10.0, 'mags': [5.0, 5.1, 5.2]},
    '2x1x3': {'nx': 2, 'ny': 1, 'dh': 0.1, 'x0': 170.0, 'y0': -40.0, 'mags': [2.5, 3.5, 4.5]},
}


def grid_shape(grid):
    return int(grid['nx']) * int(grid['ny']), len(grid['mags'])


def boundary_numbers(rates):
    """uniform numbers that probe an inverse CDF: 0, the largest double below 1, and every
    cumulative boundary (computed exactly, as cumsum/sum and as cumsum of the normalised rates)
    with its float neighbours - all in [0,1), ascending, without duplicates"""
    r = numpy.asarray(rates, dtype=float).ravel()
    bs = set(cumulative([float(v) for v in r]))
    with _quiet():
        bs |= set((numpy.cumsum(r) / numpy.sum(r)).tolist())
        bs |= set(numpy.cumsum(r / numpy.sum(r)).tolist())
    out = {0.0, float(numpy.nextafter(1.0, 0.0)), float(numpy.nextafter(numpy.nextafter(1.0, 0.0), 0.0))}
    for b in bs:
        for v in (b, float(numpy.nextafter(b, 0.0)), float(numpy.nextafter(b, 2.0))):
            if 0.0 <= v < 1.0:
                out.add(v)
    return sorted(out)


def interior_numbers(rates, per_bin=1, min_width=1e-9):
    """numbers well inside the cumulative interval of every positive-rate bin that is at least
    min_width wide (narrower bins cannot be hit unambiguously in double precision)"""
    fr = [float(v) for v in numpy.asarray(rates, dtype=float).ravel()]
    F = cumulative(fr)
    out = []
    for k, r in enumerate(fr):
        lo = F[k - 1] if k else 0.0
        if r > 0 and F[k] - lo >= min_width:
            for j in range(per_bin):
                out.append(lo + (F[k] - lo) * (j + 1.0) / (per_bin + 1.0))
    return out


def rounding_below_one(max_bins=64, limit=6):
    """rate arrays whose float cumulative total, divided by their float sum, is below 1"""
    found = []
    for v in (0.1, 0.3, 0.7, 1e-3, 0.05, 1.1, 2.3, 1e-5):
        for n in list(range(2, 17)) + [31, 56, 64]:
            if n > max_bins:
                continue
            x = numpy.full(n, v)
            if (numpy.cumsum(x) / numpy.sum(x))[-1] < 1.0:
                found.append([v] * n)
                break
    found.sort(key=len)
    return found[:limit]
