"""Bounded stand-in for C02 (labelled bounded): every edge, edge +- 2^j ulps (j<=12), both
modes, scalar/array/int/float32 inputs, on the CSEP magnitude grids, generated decimal grids
(through the library's own generators) - run-time contract of bin1d_vec on the real code."""
import random

import numpy

from .tally import Tally


def ulp_neighbours(x, maxpow=12):
    out = [float(x)]
    for j in range(maxpow + 1):
        up = dn = float(x)
        for _ in range(1):
            pass
        # step 2^j ulps by repeated nextafter on the integer representation
        a = numpy.array([x], dtype=numpy.float64).view(numpy.int64)[0]
        for s in (+1, -1):
            b = a + s * (1 << j) if x >= 0 else a - s * (1 << j)
            v = numpy.array([b], dtype=numpy.int64).view(numpy.float64)[0]
            if numpy.isfinite(v):
                out.append(float(v))
    return out


def grids(tier, rng):
    from csep.utils.constants import CSEP_MW_BINS
    from csep.utils.calc import cleaner_range
    from csep.core.regions import magnitude_bins
    gs = [('CSEP_MW_BINS', numpy.asarray(CSEP_MW_BINS, dtype=float)),
          ('5.95:8.95:0.1', magnitude_bins(5.95, 8.95, 0.1)),
          ('4.95:8.95:0.1', magnitude_bins(4.95, 8.95, 0.1)),
          ('2.5:8.0:0.1', magnitude_bins(2.5, 8.0, 0.1)),
          ('lon -125.4:-113.1:0.1', cleaner_range(-125.4, -113.1, 0.1)),
          ('lat 31.5:43.0:0.1', cleaner_range(31.5, 43.0, 0.1)),
          ('zero-crossing -1:1:0.25', cleaner_range(-1.0, 1.0, 0.25)),
          ('single edge', numpy.array([4.95])),
          ('ints', numpy.arange(0, 10, 2)),
          ]
    n = 6 if tier == 'quick' else 60
    for _ in range(n):
        dec = rng.choice([0, 1, 2])
        step = rng.choice([0.1, 0.05, 0.2, 0.25, 0.5, 1.0, 0.01]) if dec < 2 else rng.choice([0.01, 0.05, 0.1, 0.25])
        start = round(rng.uniform(-180, 180), dec)
        nb = rng.randint(2, 40)
        from decimal import Decimal
        end = float(Decimal(repr(start)) + nb * Decimal(repr(step)))
        try:
            g = cleaner_range(start, end, step)
        except Exception:
            continue
        # only grids the generator got right (generator exactness is a separate clause)
        gs.append(('gen %r:%r:%r' % (start, end, step), g))
    return gs


def run(tier, seed):
    rng = random.Random(seed)
    T = Tally()
    maxpow = 6 if tier == 'quick' else 12
    for name, g in grids(tier, rng):
        g = numpy.asarray(g)
        vals = []
        for e in g.tolist():
            vals += ulp_neighbours(e, maxpow)
        if len(g) > 1:
            h = float(g[1] - g[0])
            vals += ulp_neighbours(float(g[-1]) + h, maxpow)
            vals += [float(g[0]) - h, float(g[0]) - 1e-9, float(g[-1]) + 10 * h, (float(g[0]) + float(g[1])) / 2]
        arr = numpy.array(vals, dtype=float)
        for rc in (False, True):
            T.run('bin1d_vec', {'p': arr, 'bins': g, 'right_continuous': rc}, key=(name, rc, 'array'))
            # scalar inputs at the edges themselves
            for e in g.tolist()[:8]:
                T.run('bin1d_vec', {'p': e, 'bins': g, 'right_continuous': rc}, key=(name, rc, 'scalar', e))
            T.run('bin1d_vec', {'p': arr.astype(numpy.float32), 'bins': g, 'right_continuous': rc}, key=(name, rc, 'f32'))
            ints = numpy.arange(int(numpy.floor(g[0])) - 2, int(numpy.ceil(g[-1])) + 3)
            T.run('bin1d_vec', {'p': ints, 'bins': g, 'right_continuous': rc}, key=(name, rc, 'ints'))
    # edge generators: decimal exactness on the grids the property names
    for a in [(5.95, 8.95, 0.1), (4.95, 8.95, 0.1), (2.5, 8.0, 0.1), (0.0, 1.0, 0.25), (-125.4, -113.1, 0.1),
              (31.5, 43.0, 0.1), (-180.0, 180.0, 0.5), (-90.0, 90.0, 1.0), (1.0, 2.0, 0.125), (0.5, 3.0, 0.25)]:
        T.run('cleaner_range', {'start': a[0], 'end': a[1], 'h': a[2]}, key=('cr',) + a)
        T.run('magnitude_bins', {'start_magnitude': a[0], 'end_magnitude': a[1], 'dmw': a[2]}, key=('mb',) + a)
    n = 40 if tier == 'quick' else 2000
    from decimal import Decimal
    for _ in range(n):
        dec = rng.choice([0, 1, 2, 3])
        sdec = rng.choice([0, 1, 2, 3])
        step = float(Decimal(rng.randint(1, 500)) / (10 ** sdec))
        start = round(rng.uniform(-200, 200), dec)
        nb = rng.randint(1, 60)
        end = float(Decimal(repr(start)) + nb * Decimal(repr(step)))
        T.run('cleaner_range', {'start': start, 'end': end, 'h': step}, key=('cr', start, end, step))
    return T.result(bound='edges +- 2^j ulps (j <= %d) of %d grids x 2 modes x {float64 array, scalar, float32, int}; '
                          'cleaner_range/magnitude_bins on 10 named + %d random decimal grids' % (maxpow, len(grids(tier, random.Random(seed))), n))
