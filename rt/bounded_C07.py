"""Bounded stand-in for C07 (labelled bounded): the number tests report delta1 = P(N >= n_obs) and
delta2 = P(N <= n_obs) of the Poisson law (gridded N-test), of the negative binomial with the given
mean and variance (NBD N-test) and of the empirical distribution of synthetic-catalog sizes
(catalog N-test); delta1 + delta2 = 1 + P(N = n_obs); both in [0,1]; monotone in the mean.

Exhaustive: every count 0..40 x a grid of means 0.05..40; every multiset of <= 4 catalog sizes over
0..4 x every observed count 0..5.  Directed: totals 1e-6..1e5 x counts 0..1e5 (including the corner
pairs), the documented NBD variance 23541, variances from 1.01 x mean to 1e4 x mean, scaled
forecasts, the unit test's own example (mean 0.0015, n = 0)."""
import itertools
import random

from .tally import Tally
from . import oracles_eval as oe


def run(tier, seed):
    rng = random.Random(seed)
    T = Tally()
    quick = tier == 'quick'

    # ---- Poisson, array level: exhaustive small scope
    nmax = 40 if quick else 120
    means = [0.05, 0.3, 1.0, 2.5, 7.0, 15.5, 40.0] if quick else [0.05 * 1.25 ** k for k in range(32)]
    for mu in means:
        for n in range(nmax + 1):
            T.run('number_test_ndarray', {'fore_cnt': mu, 'obs_cnt': n}, key=('p', mu, n))
    # ---- directed: the full range of the quantifier
    big_mu = [1e-6, 1e-5, 1e-3, 0.0015, 0.1, 1.0, 9.99, 100.0, 1234.5, 1e4, 99999.5, 1e5]
    big_n = [0, 1, 2, 3, 10, 99, 100, 400, 401, 1000, 9999, 10000, 50000, 99999, 100000]
    for mu in big_mu:
        for n in big_n:
            T.run('number_test_ndarray', {'fore_cnt': mu, 'obs_cnt': n}, key=('P', mu, n))
        # around the mean, where both tails matter
        for n in {max(0, int(mu) + d) for d in (-2, -1, 0, 1, 2)} | {max(0, int(mu + k * mu ** 0.5)) for k in (-3, 3)}:
            T.run('number_test_ndarray', {'fore_cnt': mu, 'obs_cnt': n}, key=('Pm', mu, n))
    for _ in range(50 if quick else 20000):
        mu = 10 ** rng.uniform(-6, 5)
        n = rng.choice([rng.randint(0, 20), max(0, int(rng.gauss(mu, 2 * mu ** 0.5 + 1))), rng.randint(0, 100000)])
        T.run('number_test_ndarray', {'fore_cnt': mu, 'obs_cnt': n}, key=('Pr', mu, n))
    for n in [0, 1, 4, 50, 1000, 100000]:
        T.run('number_test_monotone', {'means': [1e-6, 1e-3, 0.5, 1.0, 3.9, 4.0, 4.1, 50.0, 999.0, 1000.0, 1e4, 1e5], 'obs_cnt': n},
              key=('mono', n))

    # ---- negative binomial
    factors = [1.01, 1.5, 3.0, 10.0, 100.0, 1e4]
    nbd_means = [0.05, 1.0, 2.5, 15.5] if quick else means
    for mu in nbd_means:
        for vf in factors:
            for n in range(0, (25 if quick else 80) + 1):
                T.run('nbd_number_test_ndarray', {'fore_cnt': mu, 'obs_cnt': n, 'variance': mu * vf}, key=('nb', mu, vf, n))
    for mu in [1e-6, 1e-3, 0.1, 5.0, 100.0, 1234.5, 1e4, 1e5]:
        for vf in factors:
            for n in [0, 1, 10, 100, 401, 1000, 10000, 100000] + [int(mu), int(mu) + 1]:
                T.run('nbd_number_test_ndarray', {'fore_cnt': mu, 'obs_cnt': n, 'variance': mu * vf}, key=('NB', mu, vf, n))
    for mu, n in [(6000.0, 5500), (6000.0, 6000), (6000.0, 7000), (1500.0, 0), (20000.0, 20500), (12.0, 30)]:
        T.run('nbd_number_test_ndarray', {'fore_cnt': mu, 'obs_cnt': n, 'variance': 23541.0}, key=('NB23541', mu, n))
    for n in [0, 3, 50, 1000]:
        for vf in (1.5, 10.0, 1e4):
            T.run('number_test_monotone', {'means': [1e-3, 0.5, 1.0, 3.0, 4.0, 50.0, 1000.0, 1e4], 'obs_cnt': n, 'variance_factor': vf},
                  key=('monoNB', n, vf))

    # ---- the public gridded tests (forecast total = sum of rates x scale, n_obs = catalog size)
    for gname, grid in oe.GRIDS.items():
        nc, nm = oe.grid_shape(grid)
        forecasts = [[[0.1 * (i + 1) * (k + 1) for k in range(nm)] for i in range(nc)],
                     [[1e-6 / (nc * nm)] * nm for _ in range(nc)],
                     [[(0.0 if (i + k) % 2 else 2.5) for k in range(nm)] for i in range(nc)],
                     [[1e5 / (nc * nm)] * nm for _ in range(nc)],
                     [[rng.choice([0.0, 1e-3, 0.2, 4.0]) for _ in range(nm)] for _ in range(nc)]]
        for fi, rates in enumerate(forecasts):
            if not any(v for row in rates for v in row):
                continue
            for ne in [0, 1, 2, 5, 17] + ([] if quick else [300]):
                events = [[rng.randrange(nc), rng.randrange(nm)] for _ in range(ne)]
                for scale in (None, 0.25, 3.0, 1.0 / 365):
                    T.run('number_test_public', {'grid': grid, 'rates': rates, 'events': events, 'scale': scale},
                          key=('pub', gname, fi, ne, scale))
                    tot = sum(v for row in rates for v in row) * (scale or 1.0)
                    for vf in (1.2, 25.0):
                        T.run('number_test_public', {'grid': grid, 'rates': rates, 'events': events, 'scale': scale,
                                                     'variance': tot * vf}, key=('pubNB', gname, fi, ne, scale, vf))

    # ---- large observed catalogs through the public tests (counts up to 1e5 are part of the property: the
    #      +-epsilon around the count must survive float rounding there)
    gname, grid = sorted(oe.GRIDS.items())[0]
    nc, nm = oe.grid_shape(grid)
    for ne in ([20000] if quick else [16385, 20000, 65537, 100000]):
        events = [[t % nc, t % nm] for t in range(ne)]
        rates = [[float(ne) / (nc * nm)] * nm for _ in range(nc)]
        T.run('number_test_public', {'grid': grid, 'rates': rates, 'events': events, 'scale': None}, key=('pubL', ne))
        T.run('number_test_public', {'grid': grid, 'rates': rates, 'events': events, 'scale': None, 'variance': ne * 1.5},
              key=('pubLNB', ne))

    # ---- catalog N-test: all multisets of sizes
    K = 3 if quick else 5
    for size in range(1, K + 1):
        for ms in itertools.combinations_with_replacement(range(0, 5), size):
            for n_obs in range(0, 6):
                T.run('catalog_number_test', {'sizes': list(ms), 'n_obs': n_obs}, key=('cat', ms, n_obs))
    for _ in range(10 if quick else 2000):
        sizes = [rng.choice([0, 1, 2, 3, 5, 8, 13, 40]) for _ in range(rng.randint(1, 30))]
        T.run('catalog_number_test', {'sizes': sizes, 'n_obs': rng.choice(sizes + [4, 100])}, key=('catr', tuple(sizes)))
    return T.result(bound='Poisson: counts 0..%d x %d means (exhaustive) + totals 1e-6..1e5 x counts 0..1e5 (directed/random); '
                          'NBD: %d variance factors 1.01..1e4 and the documented 23541; public tests on %d grids x 5 forecasts x '
                          '4 scalings; catalog N-test on every multiset of <= %d sizes over 0..4 x n_obs 0..5'
                          % (nmax, len(means), len(factors), len(oe.GRIDS), K), exhaustive_part=True)
