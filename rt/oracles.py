"""Concrete oracles: oracle(**args) runs the real function from the working tree and
returns a list of violated clauses (empty list = contract holds on this input).

Each oracle states the clauses of the sidecar contract of the same function
(contracts/*.py) in executable form; the expected values are computed from the
property statement, independently of the code under test."""
import numpy

from .common import same_float

ORACLES = {}


def oracle(name):
    def deco(fn):
        ORACLES[name] = fn
        return fn
    return deco


def call(fn, *a, **kw):
    """('return', value) | ('raise', exception)"""
    try:
        return ('return', fn(*a, **kw))
    except Exception as e:  # noqa
        return ('raise', e)


def _exc(out):
    return '%s: %s' % (type(out[1]).__name__, str(out[1])[:200])


# ------------------------------------------------------------------ C09
def _ecdf_oracle(fname, cmp):
    def orc(x, val, cdf=()):
        from csep.utils import stats
        fn = getattr(stats, fname)
        xs = numpy.asarray(x)
        out = call(fn, x, val) if not cdf else call(fn, x, val, cdf=stats.ecdf(xs))
        if xs.shape[0] == 0:
            if out != ('return', None):
                return ['empty sample must give None, got %r' % (out,)]
            return []
        if out[0] == 'raise':
            return ['unexpected exception ' + _exc(out)]
        exp = int(numpy.sum(cmp(xs, val))) / float(len(xs))
        if not isinstance(out[1], (float, numpy.floating)) or not same_float(out[1], exp):
            return ['%s(x=%r, val=%r) = %r, required %r' % (fname, list(xs.tolist()), val, out[1], exp)]
        return []
    return orc


ORACLES['greater_equal_ecdf'] = _ecdf_oracle('greater_equal_ecdf', lambda xs, v: xs >= v)
ORACLES['less_equal_ecdf'] = _ecdf_oracle('less_equal_ecdf', lambda xs, v: xs <= v)


@oracle('get_quantiles')
def _get_quantiles(sim_counts, obs_count):
    from csep.utils import stats
    out = call(stats.get_quantiles, sim_counts, obs_count)
    xs = numpy.asarray(sim_counts)
    if out[0] == 'raise':
        return ['unexpected exception ' + _exc(out)]
    if len(xs) == 0:
        return [] if tuple(out[1]) == (None, None) else ['empty sample: %r' % (out[1],)]
    n = float(len(xs))
    e1 = int(numpy.sum(xs >= obs_count)) / n
    e2 = int(numpy.sum(xs <= obs_count)) / n
    d1, d2 = out[1]
    bad = []
    if not same_float(d1, e1):
        bad.append('delta1=%r required %r (x=%r v=%r)' % (d1, e1, xs.tolist(), obs_count))
    if not same_float(d2, e2):
        bad.append('delta2=%r required %r (x=%r v=%r)' % (d2, e2, xs.tolist(), obs_count))
    return bad


@oracle('binned_ecdf')
def _binned_ecdf(x, vals):
    from csep.utils import stats
    out = call(stats.binned_ecdf, x, vals)
    xs = numpy.asarray(x)
    if len(xs) == 0:
        return [] if out == ('return', None) else ['empty sample must give None']
    if out[0] == 'raise':
        return ['unexpected exception ' + _exc(out)]
    v, cdf = out[1]
    bad = []
    for k, q in enumerate(vals):
        e = int(numpy.sum(xs <= q)) / float(len(xs))
        if not same_float(cdf[k], e):
            bad.append('binned_ecdf at %r: %r required %r (x=%r)' % (q, cdf[k], e, xs.tolist()))
    return bad


# ------------------------------------------------------------------ C02
TOL_REL = {'float64': 1e-11, 'float32': 1e-5}


def _mkbins(bins):
    if isinstance(bins, dict) and '__grid__' in bins:
        a0, h, n = bins['__grid__']
        return numpy.array([a0 + k * h for k in range(int(n))], dtype=bins.get('dtype', 'float64'))
    return numpy.asarray(bins)


def bin1d_clauses(p, bins, r, right_continuous, tol_rel=None):
    """clauses of the bin1d_vec contract on concrete data; returns list of violations"""
    bad = []
    p = numpy.atleast_1d(numpy.asarray(p))
    r = numpy.atleast_1d(numpy.asarray(r))
    n = len(bins)
    if r.shape != p.shape:
        return ['result shape %r for input shape %r' % (r.shape, p.shape)]
    if not numpy.issubdtype(r.dtype, numpy.integer):
        bad.append('result dtype %s is not integer' % r.dtype)
    a0 = float(bins[0])
    h = float(bins[1] - bins[0]) if n > 1 else 1.0
    opn = bool(right_continuous) or n == 1
    if tol_rel is None:
        tol_rel = TOL_REL['float32'] if p.dtype == numpy.float32 else TOL_REL['float64']
    edges = [float(b) for b in bins]
    for v, ri in zip(p.tolist(), r.tolist()):
        v = float(v)
        if not (-1 <= ri <= n - 1):
            bad.append('index %r out of range for value %r' % (ri, v))
            continue
        # largest k with v >= e_k  (exact float comparisons on the given edges)
        kge = -1
        for k in range(n):
            if v >= edges[k]:
                kge = k
        tau = lambda k: tol_rel * (abs(v) + (k + 2) * abs(a0))
        if kge >= 0:
            top = edges[n - 1] + h
            if opn:
                if ri < kge:
                    bad.append('value %r is at/above edge %d (%r) but got bin %r (open mode)' % (v, kge, edges[kge], ri))
            else:
                if kge == n - 1 and v >= top * (1 + 0) + tau(n):
                    if ri != -1:
                        bad.append('value %r beyond the closed top %r must be -1, got %r' % (v, top, ri))
                elif not (ri >= kge or (ri == -1 and kge == n - 1 and v >= top - tau(n - 1))):
                    bad.append('value %r is at/above edge %d (%r) but got bin %r (closed mode)' % (v, kge, edges[kge], ri))
            # upper exclusive (granted tolerance below the next edge)
            nxt = edges[kge + 1] if kge + 1 < n else (None if opn else top)
            if nxt is not None and v < nxt - tau(kge) and not (ri <= kge and ri >= 0):
                bad.append('value %r is below edge %d (%r) by more than the tolerance but got bin %r' % (v, kge + 1, nxt, ri))
        else:
            if v < a0 - tol_rel * (abs(v) + abs(a0)) and ri != -1:
                bad.append('value %r below the first edge %r must be -1, got %r' % (v, a0, ri))
    if opn and len(p) > 1:
        order = numpy.argsort(p, kind='stable')
        rs = r[order]
        if numpy.any(numpy.diff(rs) < 0):
            j = int(numpy.argmax(numpy.diff(rs) < 0))
            bad.append('not monotone: %r -> %r but %r -> %r' % (p[order][j], rs[j], p[order][j + 1], rs[j + 1]))
    return bad[:5]


@oracle('bin1d_vec')
def _bin1d_vec(p, bins, tol=None, right_continuous=False):
    from csep.utils.calc import bin1d_vec
    b = _mkbins(bins)
    out = call(bin1d_vec, p, b, tol=tol, right_continuous=right_continuous)
    if len(b) > 1 and b[1] - b[0] < 0:
        return [] if (out[0] == 'raise' and isinstance(out[1], ValueError)) else ['decreasing edges must raise ValueError']
    if out[0] == 'raise':
        return ['unexpected exception ' + _exc(out)]
    return bin1d_clauses(p, b, out[1], right_continuous)


@oracle('cleaner_range')
def _cleaner_range(start, end, h):
    """edges are exactly the floats closest to the decimal grid start + k*h"""
    from decimal import Decimal
    from csep.utils.calc import cleaner_range
    out = call(cleaner_range, start, end, h)
    if out[0] == 'raise':
        return ['unexpected exception ' + _exc(out)]
    ds, de, dh = Decimal(repr(float(start))), Decimal(repr(float(end))), Decimal(repr(float(h)))
    n = int((de - ds) / dh) + 1
    exp = [float(ds + k * dh) for k in range(n)]
    got = [float(x) for x in out[1]]
    if len(got) != len(exp):
        return ['cleaner_range(%r,%r,%r) has %d edges, decimal grid has %d' % (start, end, h, len(got), len(exp))]
    for k, (a, b) in enumerate(zip(got, exp)):
        if a != b:
            return ['cleaner_range(%r,%r,%r)[%d] = %r, closest float to the decimal grid is %r' % (start, end, h, k, a, b)]
    return []


@oracle('magnitude_bins')
def _magnitude_bins(start_magnitude, end_magnitude, dmw):
    from csep.core import regions
    import csep.utils.calc as calc
    out = call(regions.magnitude_bins, start_magnitude, end_magnitude, dmw)
    ref = call(calc.cleaner_range, start_magnitude, end_magnitude, dmw)
    if out[0] != ref[0] or (out[0] == 'return' and not numpy.array_equal(out[1], ref[1])):
        return ['magnitude_bins differs from cleaner_range']
    return _cleaner_range(start_magnitude, end_magnitude, dmw)


class _Rec:
    pass


@oracle('get_magnitude_index')
def _get_magnitude_index(mags, magnitudes, tol=None):
    from csep.core.forecasts import MarkedGriddedDataSet
    b = _mkbins(magnitudes)
    obj = MarkedGriddedDataSet.__new__(MarkedGriddedDataSet)
    obj.region = _Rec()
    obj.region.magnitudes = b
    out = call(obj.get_magnitude_index, mags, tol=tol)
    mags = numpy.asarray(mags, dtype=float)
    below = mags < b[0] - TOL_REL['float64'] * (numpy.abs(mags) + abs(b[0]))
    if out[0] == 'raise':
        if isinstance(out[1], ValueError) and numpy.any(mags < b[0]):
            return []
        return ['unexpected exception ' + _exc(out)]
    if numpy.any(below):
        return ['magnitude %r below the first edge %r did not raise' % (float(mags[below][0]), float(b[0]))]
    if numpy.any(numpy.asarray(out[1]) < 0):
        return ['negative index returned']
    return bin1d_clauses(mags, b, out[1], True)
