"""Concrete oracles: oracle(**args) runs the real function from the working tree and
returns a list of violated clauses (empty list = contract holds on this input).

Each oracle states the clauses of the sidecar contract of the same function
(contracts/*.py) in executable form; the expected values are computed from the
property statement, independently of the code under test."""
import numpy

from .common import same_float

ORACLES = {}


def oracle(name):
    def deco(fn):
        ORACLES[name] = fn
        return fn
    return deco


def call(fn, *a, **kw):
    """('return', value) | ('raise', exception)"""
    try:
        return ('return', fn(*a, **kw))
    except Exception as e:  # noqa
        return ('raise', e)


def _exc(out):
    return '%s: %s' % (type(out[1]).__name__, str(out[1])[:200])


# ------------------------------------------------------------------ C09
def _ecdf_oracle(fname, cmp):
    def orc(x, val, cdf=()):
        from csep.utils import stats
        fn = getattr(stats, fname)
        xs = numpy.asarray(x)
        out = call(fn, x, val) if not cdf else call(fn, x, val, cdf=stats.ecdf(xs))
        if xs.shape[0] == 0:
            if out != ('return', None):
                return ['empty sample must give None, got %r' % (out,)]
            return []
        if out[0] == 'raise':
            return ['unexpected exception ' + _exc(out)]
        exp = int(numpy.sum(cmp(xs, val))) / float(len(xs))
        if not isinstance(out[1], (float, numpy.floating)) or not same_float(out[1], exp):
            return ['%s(x=%r, val=%r) = %r, required %r' % (fname, list(xs.tolist()), val, out[1], exp)]
        return []
    return orc


ORACLES['greater_equal_ecdf'] = _ecdf_oracle('greater_equal_ecdf', lambda xs, v: xs >= v)
ORACLES['less_equal_ecdf'] = _ecdf_oracle('less_equal_ecdf', lambda xs, v: xs <= v)


@oracle('get_quantiles')
def _get_quantiles(sim_counts, obs_count):
    from csep.utils import stats
    out = call(stats.get_quantiles, sim_counts, obs_count)
    xs = numpy.asarray(sim_counts)
    if out[0] == 'raise':
        return ['unexpected exception ' + _exc(out)]
    if len(xs) == 0:
        return [] if tuple(out[1]) == (None, None) else ['empty sample: %r' % (out[1],)]
    n = float(len(xs))
    e1 = int(numpy.sum(xs >= obs_count)) / n
    e2 = int(numpy.sum(xs <= obs_count)) / n
    d1, d2 = out[1]
    bad = []
    if not same_float(d1, e1):
        bad.append('delta1=%r required %r (x=%r v=%r)' % (d1, e1, xs.tolist(), obs_count))
    if not same_float(d2, e2):
        bad.append('delta2=%r required %r (x=%r v=%r)' % (d2, e2, xs.tolist(), obs_count))
    return bad


@oracle('binned_ecdf')
def _binned_ecdf(x, vals):
    from csep.utils import stats
    out = call(stats.binned_ecdf, x, vals)
    xs = numpy.asarray(x)
    if len(xs) == 0:
        return [] if out == ('return', None) else ['empty sample must give None']
    if out[0] == 'raise':
        return ['unexpected exception ' + _exc(out)]
    v, cdf = out[1]
    bad = []
    for k, q in enumerate(vals):
        e = int(numpy.sum(xs <= q)) / float(len(xs))
        if not same_float(cdf[k], e):
            bad.append('binned_ecdf at %r: %r required %r (x=%r)' % (q, cdf[k], e, xs.tolist()))
    return bad
