"""Bounded stand-in for C14: generated catalogs (0..N events; ids over printable ASCII with
delimiters / quotes / spaces; origin times over 1900..2200 incl. pre-1970 and every millisecond
phase class; extreme and 17-digit coordinates) through each persistence form and back."""
import datetime
import random
import string

from .tally import Tally
from . import oracles_io  # noqa: F401

UTC = datetime.timezone.utc
EPOCH = datetime.datetime(1970, 1, 1, tzinfo=UTC)


def ms_of(*a):
    return (datetime.datetime(*a, tzinfo=UTC) - EPOCH) // datetime.timedelta(milliseconds=1)


LO, HI = ms_of(1900, 1, 1), ms_of(2200, 1, 1)
ID_ALPHABET = string.ascii_letters + string.digits + ' ,";:_-./\'#|()[]{}<>=+*&^%$@!~`?\\'
SPECIAL_IDS = ['a,b', 'say "hi"', 'x;y', ' lead', 'trail ', 'two  spaces', '"', ',', ';', '""', 'a,"b",c', 'nc62905',
               '0', '-1', '1e5', 'lon', 'None', "it's", 'a\\b', '#c', 'ci,38457511;v2 "pref"']
SPECIAL_T = [0, -1, 1, 1001, -1001, 999, 1000, -1000, LO, LO + 1, HI - 1, HI, ms_of(1969, 12, 31, 23, 59, 59) + 999,
             ms_of(2000, 2, 29), ms_of(1999, 12, 31, 23, 59, 59) + 999, 2 ** 31 * 1000, 2 ** 32 * 1000 + 1, 10 ** 12 + 123,
             ms_of(1950, 6, 1, 12) + 500, ms_of(1906, 4, 18, 13, 12, 21)]
SPECIAL_F = {'lat': [-90.0, 90.0, 0.0, 0.1 + 0.2, -89.99999999999999, 1 / 3, 31.5, 1e-7, 5e-324, 42.90430068969727],
             'lon': [-180.0, 180.0, 179.99999999999997, -179.99999999999997, 0.0, -125.4, 2 / 3, 360.0 - 1e-13, -1e-300, 13.000499725341797],
             'depth': [0.0, -3.5, 700.0, 6371.0, 1e-7, 0.1 + 0.7, 1e21, 8.9, 123456.789, 1.7976931348623157e308],
             'mag': [-2.0, 0.0, 5.95, 4.949999999999999, 9.5, 2.5, 10.0, 0.30000000000000004, 6.05, 7.949999809265137]}


def rand_id(rng):
    if rng.random() < 0.4:
        return rng.choice(SPECIAL_IDS)
    return ''.join(rng.choice(ID_ALPHABET) for _ in range(rng.randint(1, 24)))


def rand_float(rng, kind):
    r = rng.random()
    if r < 0.35:
        return rng.choice(SPECIAL_F[kind])
    lo, hi = {'lat': (-90, 90), 'lon': (-180, 180), 'depth': (-5, 700), 'mag': (-2, 10)}[kind]
    v = rng.uniform(lo, hi)
    if r < 0.7:
        return round(v, rng.choice([0, 1, 2, 3, 4, 7]))
    return v


def rand_event(rng):
    t = rng.choice(SPECIAL_T) if rng.random() < 0.3 else rng.randint(LO, HI)
    return [rand_id(rng), t, rand_float(rng, 'lat'), rand_float(rng, 'lon'), rand_float(rng, 'depth'), rand_float(rng, 'mag')]


def region_spec(rng):
    nx, ny = rng.randint(1, 6), rng.randint(1, 6)
    cells = [[i, j] for i in range(nx) for j in range(ny)]
    if len(cells) > 3 and rng.random() < 0.5:
        for _ in range(rng.randint(1, len(cells) // 3)):
            cells.pop(rng.randrange(len(cells)))
    if rng.random() < 0.5:
        rng.shuffle(cells)
    return {'lon0': rng.choice(['-125.4', '0', '-1', '12.5', '165.3', '-180']), 'lat0': rng.choice(['31.5', '-0.5', '40.1', '-47.05']),
            'dh': rng.choice(['0.1', '0.5', '1', '0.25', '0.05']), 'cells': cells, 'name': rng.choice(['r', 'my region'])}


def run(tier, seed):
    rng = random.Random(seed)
    T = Tally()
    modes = ['ascii', 'dict', 'json', 'dataframe']
    # empty catalogs, every form
    for mode in modes:
        for cid in (None, 0, 3):
            T.run('catalog_roundtrip', {'events': [], 'mode': mode, 'catalog_id': cid, 'name': 'empty'}, key=('empty', mode, cid))
    # single special events: every special id / time / coordinate in turn
    base = ['ev', 1234567890123, 35.25, -118.5, 7.5, 4.2]
    singles = []
    for s in SPECIAL_IDS:
        singles.append([s] + base[1:])
    for t in SPECIAL_T:
        singles.append([base[0], t] + base[2:])
    for k, kind in enumerate(('lat', 'lon', 'depth', 'mag')):
        for v in SPECIAL_F[kind]:
            e = list(base)
            e[2 + k] = v
            singles.append(e)
    for i, e in enumerate(singles):
        for mode in modes:
            T.run('catalog_roundtrip', {'events': [e], 'mode': mode, 'catalog_id': i % 5, 'name': 'single'}, key=('single', i, mode))
    # every millisecond phase class of one second, pre- and post-1970, in one catalog per sign
    for b in (ms_of(1933, 3, 11, 1, 54, 7), ms_of(2019, 7, 6, 3, 19, 53)):
        evs = [['p%d' % k, b + k, 1.0, 2.0, 3.0, 4.0] for k in range(0, 1000, 1 if tier != 'quick' else 7)]
        for mode in modes:
            T.run('catalog_roundtrip', {'events': evs, 'mode': mode, 'catalog_id': 1}, key=('phases', b, mode))
    # random catalogs
    reps = 60 if tier == 'quick' else 3000
    for r in range(reps):
        n = rng.choice([1, 2, 3, 5, 10, 40])
        evs = [rand_event(rng) for _ in range(n)]
        cid = rng.choice([None, 0, 1, 17, 99999])
        name = rng.choice([None, 'cat', 'a name, with "quotes"'])
        for mode in modes:
            args = {'events': evs, 'mode': mode, 'catalog_id': cid, 'name': name}
            if mode == 'ascii':
                args['header'] = rng.random() < 0.7
                args['append'] = rng.random() < 0.3
            if mode in ('dict', 'json') and rng.random() < 0.6:
                args['region'] = region_spec(rng)
            if mode == 'dataframe':
                args['with_datetime'] = rng.random() < 0.3
            T.run('catalog_roundtrip', args, key=('rand', r, mode))
    return T.result(bound='empty catalogs x 4 forms x 3 ids; %d single special events (ids / times / coordinates) x 4 forms; all ms '
                          'phases of two seconds; %d random catalogs (n <= 40) x 4 forms with header / append / region options'
                          % (len(singles), reps))
