"""oracles with the argument conventions of the sidecar contracts (contracts/*.py): used to replay solver
counter-models of those contracts on the real code (the bounded suites have their own, richer oracles)"""
import math

import numpy

from .oracles import oracle, call, _exc
from .common import close


@oracle('poisson_joint_ll')
def _pjll(target_event_log_rates, target_observations, n_fore):
    from csep.utils.stats import poisson_joint_log_likelihood_ndarray as f
    t = numpy.asarray(target_event_log_rates, dtype=float)
    w = numpy.asarray(target_observations, dtype=float)
    if numpy.any(w < 0):
        return []
    out = call(f, t, w, n_fore)
    if out[0] == 'raise':
        return ['unexpected exception ' + _exc(out)]
    exp = math.fsum(t.tolist()) - math.fsum(math.lgamma(x + 1) for x in w.tolist()) - n_fore
    return [] if close(out[1], exp, 1e-9, 1e-9) else ['joint log-likelihood %r, required sum(t) - sum(lgamma(w+1)) - n_fore = %r' % (out[1], exp)]


@oracle('poisson_simulate_catalog')
def _psim(num_events, sampling_weights, sim_fore, random_numbers):
    from csep.core.poisson_evaluations import _simulate_catalog as f
    W = numpy.asarray(sampling_weights, dtype=float)
    u = numpy.asarray(random_numbers, dtype=float)
    sim = numpy.array(sim_fore, dtype=float)
    if len(W) == 0 or len(sim) != len(W) or len(u) != int(num_events):
        return []
    if numpy.any(numpy.diff(W) < 0) or W[-1] < 1 or numpy.any(u < 0) or numpy.any(u >= 1):
        return []      # outside the contract's precondition
    out = call(f, int(num_events), W, sim, random_numbers=u)
    if out[0] == 'raise':
        return ['unexpected exception ' + _exc(out)]
    exp = numpy.zeros(len(W))
    for x in u.tolist():
        k = 0
        while not (x < W[k]):
            k += 1
        exp[k] += 1
    bad = []
    if out[1] is not sim:
        bad.append('does not return the array passed in')
    if not numpy.array_equal(numpy.asarray(out[1]), exp):
        bad.append('simulated counts %r, inverse-CDF placement of the draws gives %r (weights %r, draws %r)' %
                   (numpy.asarray(out[1]).tolist(), exp.tolist(), W.tolist(), u.tolist()))
    return bad


@oracle('compute_likelihood')
def _cl(gridded_data, apprx_rate_density, expected_cond_count, n_obs):
    from csep.utils.calc import _compute_likelihood as f
    g = numpy.asarray(gridded_data, dtype=float)
    r = numpy.asarray(apprx_rate_density, dtype=float)
    if numpy.any(g < 0) or numpy.any(r[g != 0] <= 0) or len(g) != len(r) or len(g) == 0:
        return []
    out = call(f, g, r, expected_cond_count, n_obs)
    if out[0] == 'raise':
        return ['unexpected exception ' + _exc(out)]
    plh, ln = out[1]
    if g.sum() == 0:
        ok = close(plh, -expected_cond_count) and math.isnan(ln)
        return [] if ok else ['no events: got %r, required (-E, nan)' % (out[1],)]
    exp = math.fsum((g[i] * math.log(r[i])) for i in range(len(g)) if g[i] != 0) - expected_cond_count
    bad = []
    if not close(plh, exp, 1e-9, 1e-9):
        bad.append('pseudo-likelihood %r, required %r' % (plh, exp))
    if n_obs == 0 or expected_cond_count == 0:
        if not math.isnan(ln):
            bad.append('normalised score must be nan when n_obs = 0 or E = 0')
    else:
        e2 = math.fsum((g[i] * math.log(r[i] / r.sum())) for i in range(len(g)) if g[i] != 0) / g.sum()
        if not close(ln, e2, 1e-9, 1e-9):
            bad.append('normalised score %r, required %r' % (ln, e2))
    return bad


@oracle('quadtree_find_location')
def _qfl(bounds, lon, lat):
    from csep.core.regions import QuadtreeGrid2D
    b = numpy.asarray(bounds, dtype=float).reshape(-1, 4)
    g = QuadtreeGrid2D.__new__(QuadtreeGrid2D)
    g.bounds = b
    out = call(g._find_location, lon, lat)
    if out[0] == 'raise':
        return ['unexpected exception ' + _exc(out)]
    inside = [k for k in range(len(b)) if lon >= b[k, 0] and lat >= b[k, 1] and lon < b[k, 2] and lat < b[k, 3]]
    r = out[1]
    if not inside:
        return [] if numpy.size(r) == 0 else ['no cell contains (%r, %r) but got %r' % (lon, lat, r)]
    if numpy.size(r) != 1 or int(numpy.asarray(r).ravel()[0]) != inside[0]:
        return ['_find_location(%r, %r) = %r, the first containing cell is %d (bounds %r)' % (lon, lat, r, inside[0], b.tolist())]
    return []
