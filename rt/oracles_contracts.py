"""oracles with the argument conventions of the sidecar contracts (contracts/*.py): used to replay solver
counter-models of those contracts on the real code (the bounded suites have their own, richer oracles)"""
import math

import numpy

from .oracles import oracle, call, _exc
from .common import close


@oracle('poisson_joint_ll')
def _pjll(target_event_log_rates, target_observations, n_fore):
    from csep.utils.stats import poisson_joint_log_likelihood_ndarray as f
    t = numpy.asarray(target_event_log_rates, dtype=float)
    w = numpy.asarray(target_observations, dtype=float)
    if numpy.any(w < 0):
        return []
    out = call(f, t, w, n_fore)
    if out[0] == 'raise':
        return ['unexpected exception ' + _exc(out)]
    exp = math.fsum(t.tolist()) - math.fsum(math.lgamma(x + 1) for x in w.tolist()) - n_fore
    return [] if close(out[1], exp, 1e-9, 1e-9) else ['joint log-likelihood %r, required sum(t) - sum(lgamma(w+1)) - n_fore = %r' % (out[1], exp)]


@oracle('poisson_simulate_catalog')
def _psim(num_events, sampling_weights, sim_fore, random_numbers):
    from csep.core.poisson_evaluations import _simulate_catalog as f
    W = numpy.asarray(sampling_weights, dtype=float)
    u = numpy.asarray(random_numbers, dtype=float)
    sim = numpy.array(sim_fore, dtype=float)
    if len(W) == 0 or len(sim) != len(W) or len(u) != int(num_events):
        return []
    if numpy.any(numpy.diff(W) < 0) or W[-1] < 1 or numpy.any(u < 0) or numpy.any(u >= 1):
        return []      # outside the contract's precondition
    out = call(f, int(num_events), W, sim, random_numbers=u)
    if out[0] == 'raise':
        return ['unexpected exception ' + _exc(out)]
    exp = numpy.zeros(len(W))
    for x in u.tolist():
        k = 0
        while not (x < W[k]):
            k += 1
        exp[k] += 1
    bad = []
    if out[1] is not sim:
        bad.append('does not return the array passed in')
    if not numpy.array_equal(numpy.asarray(out[1]), exp):
        bad.append('simulated counts %r, inverse-CDF placement of the draws gives %r (weights %r, draws %r)' %
                   (numpy.asarray(out[1]).tolist(), exp.tolist(), W.tolist(), u.tolist()))
    return bad


@oracle('compute_likelihood')
def _cl(gridded_data, apprx_rate_density, expected_cond_count, n_obs):
    from csep.utils.calc import _compute_likelihood as f
    g = numpy.asarray(gridded_data, dtype=float)
    r = numpy.asarray(apprx_rate_density, dtype=float)
    if numpy.any(g < 0) or numpy.any(r[g != 0] <= 0) or len(g) != len(r) or len(g) == 0:
        return []
    out = call(f, g, r, expected_cond_count, n_obs)
    if out[0] == 'raise':
        return ['unexpected exception ' + _exc(out)]
    plh, ln = out[1]
    if g.sum() == 0:
        ok = close(plh, -expected_cond_count) and math.isnan(ln)
        return [] if ok else ['no events: got %r, required (-E, nan)' % (out[1],)]
    exp = math.fsum((g[i] * math.log(r[i])) for i in range(len(g)) if g[i] != 0) - expected_cond_count
    bad = []
    if not close(plh, exp, 1e-9, 1e-9):
        bad.append('pseudo-likelihood %r, required %r' % (plh, exp))
    if n_obs == 0 or expected_cond_count == 0:
        if not math.isnan(ln):
            bad.append('normalised score must be nan when n_obs = 0 or E = 0')
    else:
        e2 = math.fsum((g[i] * math.log(r[i] / r.sum())) for i in range(len(g)) if g[i] != 0) / g.sum()
        if not close(ln, e2, 1e-9, 1e-9):
            bad.append('normalised score %r, required %r' % (ln, e2))
    return bad


@oracle('quadtree_find_location')
def _qfl(bounds, lon, lat):
    from csep.core.regions import QuadtreeGrid2D
    b = numpy.asarray(bounds, dtype=float).reshape(-1, 4)
    g = QuadtreeGrid2D.__new__(QuadtreeGrid2D)
    g.bounds = b
    out = call(g._find_location, lon, lat)
    if out[0] == 'raise':
        return ['unexpected exception ' + _exc(out)]
    inside = [k for k in range(len(b)) if lon >= b[k, 0] and lat >= b[k, 1] and lon < b[k, 2] and lat < b[k, 3]]
    r = out[1]
    if not inside:
        return [] if numpy.size(r) == 0 else ['no cell contains (%r, %r) but got %r' % (lon, lat, r)]
    if numpy.size(r) != 1 or int(numpy.asarray(r).ravel()[0]) != inside[0]:
        return ['_find_location(%r, %r) = %r, the first containing cell is %d (bounds %r)' % (lon, lat, r, inside[0], b.tolist())]
    return []


@oracle('poisson_likelihood_test')
def _plt(forecast_data, observed_data, num_simulations, random_numbers, normalize_likelihood=False, seed=None,
         use_observed_counts=True, **_ignored):
    """contract of _poisson_likelihood_test with injected random numbers and use_observed_counts=True: observed statistic,
    one simulated statistic per simulation (each the joint log-likelihood of the inverse-CDF catalog of its row of random
    numbers), quantile = fraction of simulated statistics <= observed"""
    from csep.core.poisson_evaluations import _poisson_likelihood_test as f
    F = numpy.asarray(forecast_data, dtype=float)
    O = numpy.asarray(observed_data, dtype=float)
    U = numpy.asarray(random_numbers, dtype=float)
    S = int(num_simulations)
    if F.shape != O.shape or F.size == 0 or S < 1:
        return []
    n = O.sum()
    if numpy.any(F < 0) or numpy.any(O < 0) or numpy.any(O != numpy.floor(O)) or not (F.sum() > 0):
        return []
    n = int(n)
    seeded = random_numbers is None
    if seeded:
        if not isinstance(seed, int) or isinstance(seed, bool) or not (0 <= seed < 2 ** 32):
            return []
        out = call(f, F.copy(), O.copy(), num_simulations=S, random_numbers=None, seed=seed,
                   use_observed_counts=bool(use_observed_counts), verbose=False, normalize_likelihood=bool(normalize_likelihood))
        again = call(f, F.copy(), O.copy(), num_simulations=S, random_numbers=None, seed=seed,
                     use_observed_counts=bool(use_observed_counts), verbose=False, normalize_likelihood=bool(normalize_likelihood))
    else:
        if not use_observed_counts:
            return []
        U = U.reshape(S, -1) if U.size else U.reshape(S, 0)
        if U.shape != (S, n) or numpy.any(numpy.isnan(U)) or numpy.any(U < 0) or numpy.any(U >= 1):
            return []
        out = call(f, F.copy(), O.copy(), num_simulations=S, random_numbers=U.copy(), seed=None, use_observed_counts=True,
                   verbose=False, normalize_likelihood=bool(normalize_likelihood))
    if out[0] == 'raise':
        return ['unexpected exception ' + _exc(out)]
    qs, obs_ll, sims = out[1]
    if seeded and (again[0] == 'raise' or list(again[1][2]) != list(sims) or again[1][0] != qs):
        return ['two runs with seed=%r differ' % seed]
    Ff, Of = F.ravel().tolist(), O.ravel().tolist()
    tot = math.fsum(Ff)
    if normalize_likelihood:
        b = [x * (n / tot) for x in Ff] if n else [0.0 * x for x in Ff]
        E = float(n)
    else:
        b, E = Ff, tot

    def jll(counts):
        acc = []
        for c, r in zip(counts, b):
            if c != 0:
                acc.append(c * (math.log(r) if r > 0 else -math.inf) - math.lgamma(c + 1))
        return math.fsum(x for x in acc if x != -math.inf) - E if -math.inf not in acc else -math.inf

    bad = []
    exp_obs = jll(Of)
    if not (obs_ll == exp_obs or close(obs_ll, exp_obs, 1e-9, 1e-9)):
        bad.append('observed statistic %r, required sum over bins of log Poisson pmf = %r (rates %r, counts %r)' % (obs_ll, exp_obs, b, Of))
    sims = list(sims)
    if len(sims) != S:
        bad.append('%d simulated statistics for %d simulations' % (len(sims), S))
    else:
        # inverse-CDF placement of each row
        W = numpy.cumsum(numpy.asarray(Ff)) / tot
        for s in (range(S) if not seeded else ()):
            cnt = [0.0] * len(Ff)
            ok = True
            for x in U[s].tolist():
                k = 0
                while k < len(Ff) and not (x < W[k]):
                    k += 1
                if k >= len(Ff):
                    ok = False      # float round-off put the last cumulative weight below the draw: outside the model
                    break
                cnt[k] += 1
            if not ok:
                continue
            e = jll(cnt)
            if not (sims[s] == e or close(sims[s], e, 1e-9, 1e-9)):
                bad.append('simulated statistic %d is %r, the inverse-CDF catalog of its random numbers has %r' % (s, sims[s], e))
                break
        le = sum(1 for x in sims if x <= obs_ll)
        if not close(qs, le / S, 1e-12, 1e-12):
            bad.append('quantile %r, fraction of simulated statistics <= observed is %r' % (qs, le / S))
    return bad


@oracle('binary_simulate_catalog')
def _bsim(module, sim_cells, sampling_weights, random_numbers=None, draws=None):
    """_simulate_catalog of binomial_evaluations / brier_evaluations.
    random_numbers given: inverse-CDF placement of each number (counts).  random_numbers None: rejection sampling; `draws`
    (optional) is a list of numbers in [0,1) that numpy.random.uniform returns first (boundary values cannot be reached by
    seeding), after which the real generator continues: the result must be a 0/1 array with exactly sim_cells ones, none in a
    bin whose cumulative-rate interval [F(k-1), F(k)) is empty."""
    import importlib
    m = importlib.import_module('csep.core.' + module)
    W = numpy.asarray(sampling_weights, dtype=float)
    n = int(sim_cells)
    if len(W) == 0 or numpy.any(numpy.diff(W) < 0) or W[0] < 0 or W[-1] < 1 or n < 0:
        return []
    width = numpy.diff(numpy.concatenate([[0.0], W])) > 0
    if random_numbers is not None:
        u = numpy.asarray(random_numbers, dtype=float)
        if len(u) != n or numpy.any(numpy.isnan(u)) or numpy.any(u < 0) or numpy.any(u >= 1):
            return []
        args = (n, W, numpy.full(len(W), 7.0)) if module == 'binomial_evaluations' else (n, W)
        out = call(m._simulate_catalog, *args, random_numbers=u)
        if out[0] == 'raise':
            return ['unexpected exception ' + _exc(out)]
        exp = numpy.zeros(len(W))
        for x in u.tolist():
            k = 0
            while not (x < W[k]):
                k += 1
            exp[k] += 1
        if not numpy.array_equal(numpy.asarray(out[1]), exp):
            return ['simulated counts %r, inverse-CDF placement of the numbers gives %r (weights %r, numbers %r)'
                    % (numpy.asarray(out[1]).tolist(), exp.tolist(), W.tolist(), u.tolist())]
        return []
    if n > int(width.sum()):
        return []          # more active cells than positive-rate bins: the sampler cannot terminate (outside the contract)
    seq = [float(x) for x in (draws or []) if 0.0 <= float(x) < 1.0]
    real_uniform = numpy.random.uniform
    state = {'k': 0}

    def fake(low=0.0, high=1.0, size=None):
        if size is None and state['k'] < len(seq):
            state['k'] += 1
            return seq[state['k'] - 1]
        return real_uniform(low, high, size)
    numpy.random.seed(12345)
    numpy.random.uniform = fake
    try:
        args = (n, W, numpy.full(len(W), 7.0)) if module == 'binomial_evaluations' else (n, W)
        out = call(m._simulate_catalog, *args)
    finally:
        numpy.random.uniform = real_uniform
    if out[0] == 'raise':
        return ['unexpected exception %s (weights %r, first draws %r)' % (_exc(out), W.tolist(), seq)]
    r = numpy.asarray(out[1], dtype=float)
    bad = []
    if r.shape != W.shape:
        bad.append('result shape %r, weights %r' % (r.shape, W.shape))
        return bad
    if not numpy.all((r == 0) | (r == 1)):
        bad.append('entries other than 0/1: %r' % r.tolist())
    if r.sum() != n:
        bad.append('%r active cells, prescribed %d' % (r.sum(), n))
    if numpy.any((r != 0) & ~width):
        bad.append('active cell in a zero-rate bin: result %r, weights %r, first draws %r' % (r.tolist(), W.tolist(), seq))
    return bad


@oracle('kernel_test')
def _kernel_test(kind, rates, counts, num_simulations=1, random_numbers=None, seed=None):
    """_binary_likelihood_test / _brier_score_test (kind 'binary' | 'brier') on plain arrays: the clauses of C06 / C16 on the
    triple (quantile, observed score, simulated scores) as judged by rt/oracles_eval.sim_test_ndarray, and for seeded runs
    reproducibility from two different states of the global generator (every seed, 0 included)"""
    from . import oracles_eval as oe
    R = numpy.asarray(rates, dtype=float)
    C = numpy.asarray(counts, dtype=float)
    if R.shape != C.shape or R.size == 0 or numpy.any(R < 0) or numpy.any(C < 0) or numpy.any(C != numpy.floor(C)) or not R.sum() > 0:
        return []
    if kind == 'binary' and numpy.any(R <= 0):
        return []
    n_active = int((C.ravel() != 0).sum())
    S = int(num_simulations)
    if S < 1:
        return []
    if random_numbers is not None:
        U = numpy.asarray(random_numbers, dtype=float)
        U = U.reshape(S, -1) if U.size else U.reshape(S, 0)
        if U.shape != (S, n_active) or numpy.any(numpy.isnan(U)) or numpy.any(U < 0) or numpy.any(U >= 1):
            return []
        return oe._sim_test_ndarray(kind, R.tolist(), C.tolist(), S, U.tolist(), None)
    if not isinstance(seed, int) or isinstance(seed, bool) or not (0 <= seed < 2 ** 32):
        return []
    if n_active > int((R.ravel() > 0).sum()):
        return []
    bad = list(oe._sim_test_ndarray(kind, R.tolist(), C.tolist(), S, None, seed))
    import importlib
    m = importlib.import_module('csep.core.' + ('binomial_evaluations' if kind == 'binary' else 'brier_evaluations'))
    fn = m._binary_likelihood_test if kind == 'binary' else m._brier_score_test
    outs = []
    for state in (111, 987654):
        numpy.random.seed(state)
        numpy.random.rand(3)
        o = call(fn, R.copy(), C.copy(), num_simulations=S, seed=seed, verbose=False)
        if o[0] == 'raise':
            return bad + ['unexpected exception ' + _exc(o)]
        outs.append((float(o[1][0]), float(o[1][1]), [float(x) for x in o[1][2]]))
    if outs[0] != outs[1]:
        bad.append('seed=%r is not honoured: two runs with the same seed give %r and %r' % (seed, outs[0][2][:4], outs[1][2][:4]))
    return bad


@oracle('cell_maps')
def _cell_maps(kind, rates, counts, forecast_total, n_events):
    """poisson_spatial_likelihood / binary_spatial_likelihood on stub forecast / catalog objects: per-cell log-likelihoods of the
    forecast rates scaled to the observed number of events"""
    from csep.core import poisson_evaluations as pe
    R = numpy.asarray(rates, dtype=float)
    C = numpy.asarray(counts, dtype=float)
    if R.shape != C.shape or R.size == 0 or numpy.any(R <= 0) or numpy.any(C < 0) or not forecast_total > 0 or n_events < 0:
        return []

    class Stub:
        def __init__(self, arr, total):
            self._a, self.event_count = arr, total

        def spatial_counts(self):
            return self._a.copy()
    f = pe.binary_spatial_likelihood if kind == 'binary' else pe.poisson_spatial_likelihood
    out = call(f, Stub(R, float(forecast_total)), Stub(C, n_events))
    if out[0] == 'raise':
        return ['unexpected exception ' + _exc(out)]
    got = numpy.asarray(out[1], dtype=float)
    lam = R * (float(n_events) / float(forecast_total))
    if kind == 'binary':
        with numpy.errstate(divide='ignore', invalid='ignore'):
            exp = numpy.where(C != 0, numpy.log(-numpy.expm1(-lam)), -lam)
    else:
        with numpy.errstate(divide='ignore', invalid='ignore'):
            wlog = numpy.where(C > 0, C * numpy.log(lam), 0.0)          # a cell without events has no w*ln(x) term
        exp = -lam + wlog - numpy.array([math.lgamma(x + 1) for x in C.tolist()])
    if got.shape != exp.shape or not numpy.allclose(got, exp, rtol=1e-9, atol=1e-12, equal_nan=True):
        return ['per-cell scores %r, definition gives %r (rates %r, counts %r)' % (got.tolist(), exp.tolist(), lam.tolist(), C.tolist())]
    return []
