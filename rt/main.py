"""entry point of the run-time side:  python -m rt.main replay <file> | bounded <Cxx> <tier> <seed> <out>"""
import importlib
import json
import sys
import time
import traceback

from .common import unjson, jsonable


def replay(path):
    with open(path) as fh:
        rec = json.load(fh)
    from . import oracles
    for m in rec.get('oracle_modules', []):
        importlib.import_module(m)
    orc = oracles.ORACLES[rec['oracle']]
    args = unjson(rec['args'])
    try:
        bad = orc(**args)
        res = {'confirmed': bool(bad), 'violated_clauses': bad}
    except Exception:
        res = {'confirmed': False, 'oracle_error': traceback.format_exc()[-1500:]}
    print('REPLAY-RESULT ' + json.dumps(jsonable(res)))
    return 1 if res.get('confirmed') else 0


def bounded(prop, tier, seed, out):
    mod = importlib.import_module('rt.bounded_' + prop)
    t0 = time.time()
    res = mod.run(tier, int(seed))
    res['wall_s'] = time.time() - t0
    with open(out, 'w') as fh:
        json.dump(jsonable(res), fh)
    return 0


if __name__ == '__main__':
    if sys.argv[1] == 'replay':
        sys.exit(replay(sys.argv[2]))
    if sys.argv[1] == 'bounded':
        sys.exit(bounded(*sys.argv[2:6]))
    sys.exit(3)
