"""Oracles for the catalog-forecast properties C10, C12, C13 and C20.

  catfc_file_decode    C12  a catalog-forecast CSV decodes to exactly the catalogs it encodes
  catfc_history        C13  a CatalogForecast under an operation history (three configurations)
  catfc_test           C10  the six catalog-based consistency tests against the documented definitions
  perm_invariance      C20  evaluation outcomes do not depend on the storage order

Conventions of the JSON-able arguments
  grid        {'nx':2,'ny':2,'dh':1.0,'x0':0.0,'y0':0.0,'mags':[4.0,5.0,6.0]}  (+ optional 'order': a
              permutation p of the cells: polygon k of the region is base cell p[k]);
              base cell index = i*ny + j  (origin x0+i*dh, y0+j*dh); the last magnitude bin is open above
  events      list of [cell, magnitude_bin]; the oracle puts event number i strictly inside that bin at a
              position that depends on i only (so that no C01/C02 boundary question interferes);
              cell -1 = outside the region (west of it)
  catalogs    list of such event lists (the synthetic catalogs of a catalog forecast)

Expected values are computed with plain loops / math.fsum / math.lgamma from the (cell, bin) pairs of the
arguments - never from the gridding or counting code of the library."""
import calendar
import contextlib
import datetime
import io
import math
import os
import re
import tempfile
import warnings

import numpy

from .oracles import oracle, call, _exc

T0_MS = 1577836800000  # 2020-01-01T00:00:00Z
T0 = datetime.datetime(2020, 1, 1)
OFF = [0.25, 0.5, 0.75, 0.375, 0.625]
HEADER = 'lon,lat,mag,time_string,depth,catalog_id,event_id'


# ------------------------------------------------------------------ infrastructure
@contextlib.contextmanager
def _quiet():
    with warnings.catch_warnings():
        warnings.simplefilter('ignore')
        with numpy.errstate(all='ignore'):
            with contextlib.redirect_stdout(io.StringIO()):
                yield


def qcall(fn, *a, **kw):
    with _quiet():
        return call(fn, *a, **kw)


def _close(a, b, rel=1e-9, abs_=1e-12):
    try:
        a = float(a)
        b = float(b)
    except Exception:
        return False
    if math.isnan(a) or math.isnan(b):
        return math.isnan(a) and math.isnan(b)
    if math.isinf(a) or math.isinf(b):
        return a == b
    return abs(a - b) <= rel * max(abs(a), abs(b)) + abs_


def _num(v):
    """float, or None when v is not a finite-or-not number at all"""
    if v is None or isinstance(v, (str, bytes)):
        return None
    try:
        return float(v)
    except Exception:
        return None


def grid_cells(grid):
    nx, ny = int(grid['nx']), int(grid['ny'])
    dh = float(grid.get('dh', 1.0))
    x0, y0 = float(grid.get('x0', 0.0)), float(grid.get('y0', 0.0))
    base = [[x0 + i * dh, y0 + j * dh] for i in range(nx) for j in range(ny)]
    order = grid.get('order')
    if order is None:
        order = list(range(len(base)))
    order = [int(k) for k in order]
    if sorted(order) != list(range(len(base))):
        raise ValueError('oracle: grid order is not a permutation of the cells')
    return base, order, dh, [float(m) for m in grid['mags']]


def build_region(grid):
    """-> region, base origins, order (polygon k = base cell order[k]), dh, mags"""
    from csep.core.regions import CartesianGrid2D
    base, order, dh, mags = grid_cells(grid)
    origins = numpy.array([base[k] for k in order], dtype=float)
    region = CartesianGrid2D.from_origins(origins, dh=dh, magnitudes=numpy.array(mags, dtype=float))
    if not numpy.array_equal(numpy.asarray(region.origins()), origins):
        raise RuntimeError('oracle: the region re-ordered the cells it was given')
    return region, base, order, dh, mags


def place(grid, events, start=0):
    """event tuples (id, origin_time, lat, lon, depth, mag) of the catalog dtype; event number i
    (counted from `start`) lies strictly inside its bins at a position that depends on i only"""
    base, order, dh, mags = grid_cells(grid)
    dm = (mags[1] - mags[0]) if len(mags) > 1 else 1.0
    x0 = min(o[0] for o in base)
    y0 = min(o[1] for o in base)
    out = []
    for n, (cell, mb) in enumerate(events):
        i = n + start
        if cell < 0:
            lon = x0 - 5.0 * dh - dh * OFF[i % 5]
            lat = y0 + dh * OFF[(2 * i + 1) % 5]
        else:
            lon = base[cell][0] + dh * OFF[i % 5]
            lat = base[cell][1] + dh * OFF[(2 * i + 1) % 5]
        mag = mags[int(mb)] + dm * OFF[(i + 2) % 5]
        out.append((str(i), T0_MS + 1000 * i + 250 * (i % 3), lat, lon, 10.0 + i, mag))
    return out


def make_catalog(data, region=None, name=None, catalog_id=None):
    from csep.core.catalogs import CSEPCatalog
    return CSEPCatalog(data=list(data), region=region, name=name, catalog_id=catalog_id)


def table(grid, events):
    """counts[cell][magbin] of the events that lie inside the region (base cell numbering)"""
    base, order, dh, mags = grid_cells(grid)
    t = [[0] * len(mags) for _ in base]
    for cell, mb in events:
        if cell >= 0:
            t[cell][int(mb)] += 1
    return t


def ms_to_string(ms, style='auto'):
    """time string of the forecast files: fraction omitted when zero ('auto'), or 3 / 6 digits"""
    s, frac = divmod(int(ms), 1000)
    d = datetime.datetime(1970, 1, 1) + datetime.timedelta(seconds=s)
    txt = d.strftime('%Y-%m-%dT%H:%M:%S')
    if style == 'auto':
        return txt if frac == 0 else txt + '.%03d000' % frac
    if style == 'ms':
        return txt + '.%03d' % frac
    return txt + '.%03d000' % frac


_TIME = re.compile(r'^(\d{4})-(\d{1,2})-(\d{1,2})T(\d{1,2}):(\d{1,2}):(\d{1,2})(?:\.(\d{1,6}))?$')


def string_to_ms(txt):
    """independent reading of 'YYYY-MM-DDTHH:MM:SS[.f{1,6}]' (UTC) -> (ms, exact?)"""
    m = _TIME.match(txt)
    if not m:
        raise ValueError('oracle: time string %r' % txt)
    y, mo, d, h, mi, s = [int(v) for v in m.groups()[:6]]
    us = int((m.group(7) or '0').ljust(6, '0'))
    return calendar.timegm((y, mo, d, h, mi, s)) * 1000 + us // 1000, us % 1000 == 0


def write_forecast_file(path, blocks, header=False, trailing_newline=True):
    """blocks: [[catalog_id, [[lon, lat, mag, time_string, depth, event_id], ...]], ...] in file order;
    a block without rows is a placeholder row (all fields empty except the catalog id)"""
    lines = [HEADER] if header else []
    for cid, rows in blocks:
        if not rows:
            lines.append(',,,,,%d,' % int(cid))
        for lon, lat, mag, ts, depth, eid in rows:
            lines.append('%s,%s,%s,%s,%s,%d,%s' % (repr(float(lon)), repr(float(lat)), repr(float(mag)), ts,
                                                   repr(float(depth)), int(cid), eid))
    with open(path, 'w', newline='') as fh:
        fh.write('\n'.join(lines) + ('\n' if trailing_newline and lines else ''))


def blocks_of(datas, placeholder=None):
    """forecast-file blocks of catalogs given as lists of dtype tuples; empty catalogs are omitted unless
    placeholder[i] (the last catalog is always written)"""
    out = []
    for i, data in enumerate(datas):
        rows = [[lon, lat, mag, ms_to_string(t), depth, eid] for (eid, t, lat, lon, depth, mag) in data]
        if rows or i == len(datas) - 1 or (placeholder is not None and placeholder[i]):
            out.append([i, rows])
    return out


def events_of(cat):
    """[(lon, lat, mag, origin_time, depth, id)] of a catalog object, in stored order"""
    n = int(cat.event_count)
    if n == 0:
        return []
    c = cat.catalog
    ids = []
    for v in c['id'].tolist():
        ids.append(v.decode('utf-8') if isinstance(v, bytes) else str(v))
    return list(zip([float(v) for v in c['longitude'].tolist()], [float(v) for v in c['latitude'].tolist()],
                    [float(v) for v in c['magnitude'].tolist()], [int(v) for v in c['origin_time'].tolist()],
                    [float(v) for v in c['depth'].tolist()], ids))


def data_as_events(data):
    return [(float(lon), float(lat), float(mag), int(t), float(depth), str(eid)) for (eid, t, lat, lon, depth, mag) in data]


def compare_catalogs(got, exp, what, check_ids=None):
    """got: catalog objects, exp: list of lists of (lon, lat, mag, t, depth, id)"""
    bad = []
    if len(got) != len(exp):
        return ['%s: %d catalogs, required %d' % (what, len(got), len(exp))]
    for i, (c, e) in enumerate(zip(got, exp)):
        if check_ids is not None and c.catalog_id != check_ids[i]:
            bad.append('%s: catalog %d has catalog_id %r, required %r' % (what, i, c.catalog_id, check_ids[i]))
        g = events_of(c)
        if g != e:
            bad.append('%s: catalog %d holds %d events %r, required %d events %r'
                       % (what, i, len(g), g[:3], len(e), e[:3]))
        if len(bad) >= 3:
            break
    return bad


# ------------------------------------------------------------------ C12
LOADERS = ('load_ascii_catalogs', 'load_stochastic_event_sets', 'load_catalog_forecast', 'load_catalog_forecast_nostore')


def _load(loader, path):
    import csep
    from csep.core.catalogs import CSEPCatalog
    if loader == 'load_ascii_catalogs':
        return list(CSEPCatalog.load_ascii_catalogs(path))
    if loader == 'load_stochastic_event_sets':
        return list(csep.load_stochastic_event_sets(path))
    if loader == 'load_catalog_forecast':
        return list(csep.load_catalog_forecast(path))
    if loader == 'load_catalog_forecast_nostore':
        return list(csep.load_catalog_forecast(path, store=False))
    raise ValueError(loader)


@oracle('catfc_file_decode')
def _catfc_file_decode(blocks, header=False, loaders=None, trailing_newline=True):
    """C12.  blocks: [[catalog_id, rows], ...] in file order, rows = [[lon, lat, mag, time_string, depth,
    event_id], ...]; a block without rows is a placeholder row, a missing id an omitted (empty) catalog."""
    ids = [int(b[0]) for b in blocks]
    if not ids or ids[0] < 0:
        raise ValueError('oracle: at least one block, ids >= 0')
    decreasing = any(b < a for a, b in zip(ids, ids[1:]))
    n = ids[-1] + 1
    exp = [[] for _ in range(max(ids) + 1)]
    for cid, rows in blocks:
        for lon, lat, mag, ts, depth, eid in rows:
            ms, exact = string_to_ms(ts)
            if not exact:
                raise ValueError('oracle: time strings must be whole milliseconds')
            exp[int(cid)].append((float(lon), float(lat), float(mag), ms, float(depth), str(eid)))
    exp = exp[:n]
    bad = []
    with tempfile.TemporaryDirectory() as tmp:
        path = os.path.join(tmp, 'forecast.csv')
        write_forecast_file(path, blocks, header=header, trailing_newline=trailing_newline)
        for loader in (loaders or LOADERS):
            out = qcall(_load, loader, path)
            if decreasing:
                if out[0] != 'raise':
                    bad.append('%s: a file whose catalog ids decrease (%r) was accepted (%d catalogs)'
                               % (loader, ids, len(out[1])))
                continue
            if out[0] == 'raise':
                bad.append('%s: unexpected exception %s (ids in file %r, header=%r)' % (loader, _exc(out), ids, header))
                continue
            bad += compare_catalogs(out[1], exp, '%s (ids in file %r, header=%r)' % (loader, ids, header),
                                    check_ids=list(range(n)))
    return bad[:6]


# ------------------------------------------------------------------ filters (independent reading of the statements)
_OPS = {'>': lambda a, b: a > b, '<': lambda a, b: a < b, '>=': lambda a, b: a >= b, '<=': lambda a, b: a <= b,
        '==': lambda a, b: a == b}
_FIELD = {'longitude': 3, 'latitude': 2, 'magnitude': 5, 'depth': 4, 'origin_time': 1}


def keep(ev, filters):
    """ev: dtype tuple (id, t, lat, lon, depth, mag); implied logical and of 'name op value' statements"""
    for f in filters:
        name, op, value = f.split(' ')
        if not _OPS[op](float(ev[_FIELD[name]]), float(value)):
            return False
    return True


# ------------------------------------------------------------------ catalog forecast construction
CONFIGS = ('list', 'list_no_ncat', 'file_store', 'file_nostore')


def build_catalog_forecast(config, grid, region, datas, tmp, apply_filters=False, filters=None, filter_spatial=False,
                           placeholder=None, header=False, name='cf'):
    """datas: list (one per synthetic catalog) of lists of dtype tuples"""
    import csep
    from csep.core.forecasts import CatalogForecast
    kw = dict(region=region, name=name, apply_filters=bool(apply_filters), filter_spatial=bool(filter_spatial),
              start_time=T0, end_time=T0 + datetime.timedelta(days=365))
    if filters:
        kw['filters'] = list(filters)
    if config in ('list', 'list_no_ncat'):
        cats = [make_catalog(d, region=region, name='s%d' % i, catalog_id=i) for i, d in enumerate(datas)]
        if config == 'list':
            kw['n_cat'] = len(cats)
        return CatalogForecast(catalogs=cats, **kw)
    path = os.path.join(tmp, 'forecast_%d.csv' % len(os.listdir(tmp)))
    write_forecast_file(path, blocks_of(datas, placeholder), header=header)
    return csep.load_catalog_forecast(path, store=(config == 'file_store'), **kw)


CATALOG_TESTS = ('number_test', 'spatial_test', 'magnitude_test', 'pseudolikelihood_test',
                 'resampled_magnitude_test', 'MLL_magnitude_test')


def run_catalog_test(test, fore, obs, seed=None, full_calculation=False):
    from csep.core import catalog_evaluations as ce
    fn = getattr(ce, test)
    if test == 'resampled_magnitude_test':
        return fn(fore, obs, verbose=False, seed=seed)
    if test == 'MLL_magnitude_test':
        return fn(fore, obs, verbose=False, seed=seed, full_calculation=bool(full_calculation))
    return fn(fore, obs, verbose=False)


def result_view(r):
    """(status, observed, quantile tuple, distribution list) with numbers as floats / None"""
    if r is None:
        return None
    q = r.quantile
    if isinstance(q, (tuple, list, numpy.ndarray)):
        q = tuple(_num(v) for v in q)
    else:
        q = (_num(q),)
    d = r.test_distribution
    if isinstance(d, (tuple, list, numpy.ndarray)):
        d = [v if isinstance(v, str) else _num(v) for v in (d.tolist() if isinstance(d, numpy.ndarray) else d)]
    else:
        d = [d]
    return (getattr(r, 'status', None), _num(r.observed_statistic), q, d)


def _same_view(a, b, what, ordered=True, rel=1e-9):
    if a is None or b is None:
        return [] if a is b else ['%s: %s, reference %s' % (what, 'no result' if a is None else 'a result',
                                                            'no result' if b is None else 'a result')]
    bad = []
    if a[0] != b[0]:
        bad.append('%s: status %r, reference %r' % (what, a[0], b[0]))
    if (a[1] is None) != (b[1] is None) or (a[1] is not None and not _close(a[1], b[1], rel)):
        bad.append('%s: observed statistic %r, reference %r' % (what, a[1], b[1]))
    if len(a[2]) != len(b[2]) or any((x is None) != (y is None) or (x is not None and not _close(x, y, rel))
                                     for x, y in zip(a[2], b[2])):
        bad.append('%s: quantile %r, reference %r' % (what, a[2], b[2]))
    da, db = list(a[3]), list(b[3])
    if not ordered:
        key = lambda v: (0, 0.0) if v is None else ((1, v) if not isinstance(v, str) and not math.isnan(v) else (2, 0.0))
        da, db = sorted(da, key=key), sorted(db, key=key)
    if len(da) != len(db) or any((x != y) if (isinstance(x, str) or isinstance(y, str) or x is None or y is None)
                                 else not _close(x, y, rel) for x, y in zip(da, db)):
        bad.append('%s: test distribution %r, reference %r' % (what, da[:6], db[:6]))
    return bad


# ------------------------------------------------------------------ C13
HISTORY_OPS = ('iterate', 'get_event_counts', 'get_expected_rates', 'spatial_counts', 'magnitude_counts') + CATALOG_TESTS


@oracle('catfc_history')
def _catfc_history(config, grid, catalogs, ops, apply_filters=False, filters=None, filter_spatial=False,
                   observed=None, placeholder=None, header=False, seed=1234):
    """C13.  A CatalogForecast of `catalogs` in configuration `config` under the operation history `ops`.
    observed: the observed catalog passed to the catalog-based tests (default: one event per cell 0, bin 0)."""
    filters = list(filters or [])
    region, base, order, dh, mags = build_region(grid)
    J = len(catalogs)
    datas, start = [], 0
    for ev in catalogs:
        datas.append(place(grid, ev, start))
        start += len(ev)
    # ---- the single-pass view the property demands
    exp_datas, exp_pairs = [], []
    for ev, data in zip(catalogs, datas):
        kept = [(pair, d) for pair, d in zip(ev, data)
                if not apply_filters or ((not filters or keep(d, filters)) and (not filter_spatial or pair[0] >= 0))]
        exp_datas.append([d for _, d in kept])
        exp_pairs.append([p for p, _ in kept])
    exp_events = [data_as_events(d) for d in exp_datas]
    exp_counts = [len(d) for d in exp_datas]
    griddable = all(p[0] >= 0 for pairs in exp_pairs for p in pairs)
    tabs = [table(grid, pairs) for pairs in exp_pairs]
    ncell, nmag = len(base), len(mags)
    mean = [[math.fsum(t[c][m] for t in tabs) / J for m in range(nmag)] for c in range(ncell)]
    obs_pairs = observed if observed is not None else [[0, 0]]
    bad = []
    with tempfile.TemporaryDirectory() as tmp:
        out = qcall(build_catalog_forecast, config, grid, region, datas, tmp, apply_filters, filters, filter_spatial,
                    placeholder, header)
        if out[0] == 'raise':
            return ['constructing the forecast (%s): unexpected exception %s' % (config, _exc(out))]
        fore = out[1]
        first_rates = None
        for k, op in enumerate(ops):
            what = 'op %d %s after %r [%s, apply_filters=%r, filters=%r, filter_spatial=%r]' % (
                k, op, list(ops[:k]), config, apply_filters, filters, filter_spatial)
            needs_grid = op not in ('iterate', 'get_event_counts', 'number_test')
            if needs_grid and not griddable:
                raise ValueError('oracle: %s on a forecast that keeps events outside the region is not judged' % op)
            if op == 'iterate':
                out = qcall(lambda: list(fore))
                if out[0] == 'raise':
                    return bad + ['%s: a complete pass raised %s' % (what, _exc(out))]
                bad += compare_catalogs(out[1], exp_events, what)
            elif op == 'get_event_counts':
                out = qcall(fore.get_event_counts, verbose=False)
                if out[0] == 'raise':
                    return bad + ['%s: raised %s' % (what, _exc(out))]
                got = [int(v) for v in numpy.asarray(out[1]).tolist()]
                if got != exp_counts:
                    bad.append('%s: event counts %r, the counts of a single pass are %r' % (what, got, exp_counts))
            elif op == 'get_expected_rates':
                out = qcall(fore.get_expected_rates, verbose=False)
                if out[0] == 'raise':
                    return bad + ['%s: raised %s' % (what, _exc(out))]
                if out[1] is None:
                    bad.append('%s: returned None, required the expected rates (mean space-magnitude counts)' % what)
                else:
                    got = numpy.asarray(out[1].data, dtype=float)
                    bad += _check_rates(got, mean, order, what)
                    if first_rates is not None and (got.shape != first_rates.shape or not numpy.array_equal(got, first_rates)):
                        bad.append('%s: expected rates differ from those returned by the first request' % what)
                    if first_rates is None:
                        first_rates = got.copy()
            elif op in ('spatial_counts', 'magnitude_counts'):
                out = qcall(getattr(fore, op))
                if out[0] == 'raise':
                    return bad + ['%s: raised %s' % (what, _exc(out))]
                if op == 'spatial_counts':
                    e = [math.fsum(mean[order[kk]]) for kk in range(ncell)]
                else:
                    e = [math.fsum(mean[c][m] for c in range(ncell)) for m in range(nmag)]
                got = numpy.asarray(out[1], dtype=float).ravel().tolist()
                if len(got) != len(e) or any(not _close(x, y) for x, y in zip(got, e)):
                    bad.append('%s: %r, required %r' % (what, got, e))
            elif op in CATALOG_TESTS:
                obs = make_catalog(place(grid, obs_pairs, 1000), region=region, name='obs')
                out = qcall(run_catalog_test, op, fore, obs, seed=seed)
                # reference: the same evaluation of a fresh in-memory forecast holding the single-pass catalogs
                ref = _reference(op, grid, region, exp_datas, obs_pairs, seed)
                if out[0] == 'raise':
                    if ref[0] == 'raise' and type(ref[1]) is type(out[1]):
                        return bad  # the evaluation is not defined on this forecast (same failure without history)
                    return bad + ['%s: raised %s' % (what, _exc(out))]
                if ref[0] == 'raise':
                    return bad  # not judged
                if op == 'number_test':
                    d = result_view(out[1])[3]
                    if [None if v is None else int(v) for v in d] != exp_counts:
                        bad.append('%s: test distribution %r, the event counts of a single pass are %r' % (what, d, exp_counts))
                bad += _same_view(result_view(out[1]), ref[1], what,
                                  ordered=op in ('resampled_magnitude_test', 'MLL_magnitude_test', 'number_test'))
            else:
                raise ValueError('oracle: unknown operation %r' % op)
            n_cat = fore.n_cat
            passed = op in ('iterate', 'get_event_counts', 'number_test', 'get_expected_rates', 'spatial_counts',
                            'magnitude_counts')
            if (n_cat is not None or passed) and n_cat != J:
                bad.append('%s: afterwards n_cat = %r, the forecast holds %d catalogs' % (what, n_cat, J))
            if len(bad) >= 5:
                break
    return bad[:6]


_REF_CACHE = {}


def _reference(test, grid, region, datas, obs_pairs, seed):
    """the evaluation of a FRESH in-memory forecast (n_cat given) holding exactly `datas` - a function of its
    arguments, therefore cached; ('return', view) | ('raise', exc)"""
    key = repr((test, sorted(grid.items()), datas, obs_pairs, seed))
    if key not in _REF_CACHE:
        if len(_REF_CACHE) > 20000:
            _REF_CACHE.clear()
        fore = build_catalog_forecast('list', grid, region, datas, None)
        obs = make_catalog(place(grid, obs_pairs, 1000), region=region, name='obs')
        out = qcall(run_catalog_test, test, fore, obs, seed=seed)
        _REF_CACHE[key] = ('return', result_view(out[1])) if out[0] == 'return' else out
    return _REF_CACHE[key]


def _check_rates(got, mean, order, what):
    ncell, nmag = len(mean), len(mean[0])
    if got.shape != (ncell, nmag):
        return ['%s: expected rates of shape %r, required %r' % (what, got.shape, (ncell, nmag))]
    for k in range(ncell):
        for m in range(nmag):
            if not _close(got[k, m], mean[order[k]][m]):
                return ['%s: expected rate of cell %d bin %d is %r, the mean count is %r' % (what, order[k], m, float(got[k, m]),
                                                                                            mean[order[k]][m])]
    return []


# ------------------------------------------------------------------ C10: the documented definitions
def _log_multinomial(x):
    """log L(x) = log[ N!/(x_1!..x_K!) prod (x_k/N)^x_k ], factorials through the gamma function"""
    n = math.fsum(x)
    return math.lgamma(n + 1) - math.fsum(math.lgamma(v + 1) for v in x) + math.fsum(v * math.log(v / n) for v in x if v > 0)


def mll_documented(union, cat):
    """-2 log[ L(U + N_u/N_j + C + 1) / (L(U + N_u/N_j) L(C + 1)) ]   (theory page, Serafini et al.)"""
    nu, nj = math.fsum(union), math.fsum(cat)
    a = [u + nu / nj for u in union]
    b = [c + 1.0 for c in cat]
    m = [x + y for x, y in zip(a, b)]
    return -2.0 * (_log_multinomial(m) - _log_multinomial(a) - _log_multinomial(b))


def m_statistic(union, n_u, n_obs, hist, scale):
    return math.fsum((math.log10(n_obs / n_u * u + 1.0) - math.log10(scale * h + 1.0)) ** 2 for u, h in zip(union, hist))


def ecdf_pair(dist, v):
    n = float(len(dist))
    return sum(1 for x in dist if x >= v) / n, sum(1 for x in dist if x <= v) / n


def ecdf_bounds(dist, v, rel=1e-9, abs_=1e-12):
    """ranges of #{x >= v}/n and #{x <= v}/n when values closer than the rounding tolerance may tie"""
    n = float(len(dist))
    tol = lambda x: rel * max(abs(x), abs(v)) + abs_
    ge = (sum(1 for x in dist if x > v + tol(x)) / n, sum(1 for x in dist if x >= v - tol(x)) / n)
    le = (sum(1 for x in dist if x < v - tol(x)) / n, sum(1 for x in dist if x <= v + tol(x)) / n)
    return ge, le


class _Recorder:
    """records numpy.random.choice calls (a, size, p, result) made by the resampling tests"""
    def __init__(self):
        self.calls = []

    def __enter__(self):
        self.orig = numpy.random.choice
        rec = self

        def choice(a, size=None, replace=True, p=None):
            r = rec.orig(a, size=size, replace=replace, p=p)
            rec.calls.append((numpy.array(a, dtype=float).ravel().tolist(), size,
                              None if p is None else numpy.array(p, dtype=float).ravel().tolist(),
                              numpy.array(r, dtype=float).ravel().tolist()))
            return r
        numpy.random.choice = choice
        return self

    def __exit__(self, *a):
        numpy.random.choice = self.orig


def _bin_of(value, mags):
    k = -1
    for i, m in enumerate(mags):
        if value >= m:
            k = i
    return k


@oracle('catfc_test')
def _catfc_test(test, grid, synthetic, observed, source='list', seed=None, full_calculation=False, placeholder=None):
    """C10.  One catalog-based test against an independent evaluation of the documented definitions.
    synthetic: list of catalogs ([[cell, bin], ...]), observed: [[cell, bin], ...]; all events inside the region."""
    if any(c < 0 for ev in list(synthetic) + [observed] for c, _ in ev):
        raise ValueError('oracle: C10 is stated for catalogs filtered to the region')
    region, base, order, dh, mags = build_region(grid)
    J = len(synthetic)
    ncell, nmag = len(base), len(mags)
    datas, start = [], 0
    for ev in synthetic:
        datas.append(place(grid, ev, start))
        start += len(ev)
    tabs = [table(grid, ev) for ev in synthetic]
    tobs = table(grid, observed)
    n_j = [len(ev) for ev in synthetic]
    n_obs = len(observed)
    mean_s = [math.fsum(math.fsum(t[c]) for t in tabs) / J for c in range(ncell)]        # mean spatial rates
    n_bar = math.fsum(mean_s)
    g_j = [[sum(t[c]) for c in range(ncell)] for t in tabs]
    g_obs = [sum(tobs[c]) for c in range(ncell)]
    union = [sum(t[c][m] for t in tabs for c in range(ncell)) for m in range(nmag)]
    n_u = sum(union)
    h_j = [[sum(t[c][m] for c in range(ncell)) for m in range(nmag)] for t in tabs]
    h_obs = [sum(tobs[c][m] for c in range(ncell)) for m in range(nmag)]
    what = '%s(J=%d, N_j=%r, N_obs=%d, %s)' % (test, J, n_j, n_obs, source)

    with tempfile.TemporaryDirectory() as tmp:
        fore = build_catalog_forecast(source, grid, region, datas, tmp, placeholder=placeholder)
        obs = make_catalog(place(grid, observed, 1000), region=region, name='obs')
        with _Recorder() as rec:
            out = qcall(run_catalog_test, test, fore, obs, seed=seed, full_calculation=full_calculation)
    if out[0] == 'raise':
        return ['%s: unexpected exception %s' % (what, _exc(out))]
    res = out[1]
    view = result_view(res)

    def undefined(reason):
        """the statistic is undefined: explicit signal required (no result, or status 'not-valid')"""
        if view is None or view[0] == 'not-valid':
            return []
        return ['%s: %s, required status "not-valid" or no result; got status %r, statistic %r, quantile %r'
                % (what, reason, view[0], view[1], view[2])]

    # ---- expected distribution / statistic / status
    status = 'normal'
    if test == 'number_test':
        dist, stat = [float(v) for v in n_j], float(n_obs)
    elif test in ('spatial_test', 'pseudolikelihood_test'):
        if n_obs == 0:
            return undefined('the observed catalog is empty')
        never = [c for c in range(ncell) if g_obs[c] > 0 and mean_s[c] == 0]
        cells = [c for c in range(ncell) if g_obs[c] > 0 and mean_s[c] > 0]
        n_rem = sum(g_obs[c] for c in cells)
        if never:
            status = 'undersampled'
        if n_rem == 0:
            return undefined('every observed event lies in a cell no synthetic catalog sampled')
        if test == 'spatial_test':
            stat = math.fsum(g_obs[c] * math.log(mean_s[c] / n_bar) for c in cells) / n_rem
            dist = [math.fsum(g[c] * math.log(mean_s[c] / n_bar) for c in range(ncell) if g[c] > 0) / n
                    for g, n in zip(g_j, n_j) if n > 0]               # undefined for catalogs without events: skipped
        else:
            stat = math.fsum(g_obs[c] * math.log(mean_s[c]) for c in cells) - n_bar
            dist = [math.fsum(g[c] * math.log(mean_s[c]) for c in range(ncell) if g[c] > 0) - n_bar for g in g_j]
    elif test in ('magnitude_test', 'resampled_magnitude_test', 'MLL_magnitude_test'):
        if n_obs == 0:
            return undefined('the observed catalog is empty')
        if n_u == 0:
            raise ValueError('oracle: magnitude tests of a forecast without any event are not judged')
        if test == 'magnitude_test':
            stat = m_statistic(union, n_u, n_obs, h_obs, 1.0)
            dist = [m_statistic(union, n_u, n_obs, h, n_obs / float(n)) for h, n in zip(h_j, n_j) if n > 0]
        else:
            # the resampled catalogs: exactly N_obs magnitudes drawn from the union catalog
            draws = [c for c in rec.calls]
            bad = []
            if len(draws) != J:
                bad.append('%s: %d resampled catalogs were drawn, required one per synthetic catalog (%d)' % (what, len(draws), J))
            hists = []
            for a, size, p, r in draws:
                if len(r) != n_obs:
                    bad.append('%s: a resampled catalog holds %d events, required exactly N_obs = %d' % (what, len(r), n_obs))
                h = [0] * nmag
                for v in r:
                    kb = _bin_of(v, mags)
                    if kb < 0 or union[kb] == 0:
                        bad.append('%s: resampled magnitude %r is not in a bin of the union catalog %r' % (what, v, union))
                        break
                    h[kb] += 1
                hists.append(h)
                # sampling law: probability of bin k proportional to the union count
                pk = [0.0] * nmag
                for i, v in enumerate(a):
                    kb = _bin_of(v, mags)
                    w = (1.0 / len(a)) if p is None else p[i]
                    if kb < 0:
                        bad.append('%s: sampling support %r outside the magnitude bins' % (what, v))
                        break
                    pk[kb] += w
                if any(not _close(x, u / float(n_u), 1e-9) for x, u in zip(pk, union)):
                    bad.append('%s: resampling probabilities per bin %r, required union/N_u = %r' % (what, pk, [u / float(n_u) for u in union]))
                if bad:
                    break
            if bad:
                return bad[:4]
            if test == 'resampled_magnitude_test':
                stat = m_statistic(union, n_u, n_obs, h_obs, 1.0)
                dist = [m_statistic(union, n_u, n_obs, h, 1.0) for h in hists]
            else:
                stat = mll_documented(union, h_obs)
                dist = [mll_documented(union, h) for h in hists]
    else:
        raise ValueError('oracle: unknown test %r' % test)

    # ---- judge
    if view is None:
        return ['%s: no result, required status %r with statistic %r' % (what, status, stat)]
    gstatus, gstat, gq, gdist = view
    bad = []
    ordered = test in ('number_test', 'resampled_magnitude_test', 'MLL_magnitude_test')
    if gstat is not None and math.isinf(gstat):
        bad.append('%s: infinite observed statistic %r' % (what, gstat))
    if test == 'MLL_magnitude_test' and gstat is not None and stat != 0 and _close(gstat, -stat) and not _close(gstat, stat):
        gd = [v for v in gdist if v is not None]
        flipped = len(gd) == len(dist) and all(_close(x, -y) for x, y in zip(gd, dist))
        bad.append('%s: observed statistic %r%s has the opposite sign of the documented definition '
                   '-2 log[L(U+N_u/N+O+1)/(L(U+N_u/N) L(O+1))] = %r (union %r, observed %r)'
                   % (what, gstat, ' and the test distribution' if flipped else '', stat, union, h_obs))
        # judge the rest on the documented orientation
        gstat = -gstat
        gdist = [None if v is None else -v for v in gdist]
        gq = (gq[1], gq[0]) if len(gq) == 2 else gq
    if gstatus != status:
        bad.append('%s: status %r, required %r' % (what, gstatus, status))
    if gstat is None or not _close(gstat, stat):
        bad.append('%s: observed statistic %r, documented definition gives %r' % (what, gstat, stat))
    gd = [v for v in gdist]
    if any(v is None or math.isnan(v) for v in gd):
        bad.append('%s: test distribution holds undefined entries %r' % (what, gd[:6]))
    else:
        a, b = (gd, dist) if ordered else (sorted(gd), sorted(dist))
        if len(a) != len(b) or any(not _close(x, y) for x, y in zip(a, b)):
            bad.append('%s: test distribution %r, documented definition gives %r' % (what, a[:8], b[:8]))
        elif gstat is not None and len(gd) > 0:
            # quantiles: the empirical probabilities (C09) of the statistic in the distribution
            if len(gq) != 2 or gq[0] is None or gq[1] is None:
                bad.append('%s: quantile %r, required the empirical probabilities' % (what, gq))
            else:
                e1, e2 = ecdf_pair(gd, gstat)
                (lo1, hi1), (lo2, hi2) = ecdf_bounds(dist, stat)
                if not (_close(gq[0], e1, abs_=1e-15) and _close(gq[1], e2, abs_=1e-15)):
                    bad.append('%s: quantile %r, #{x>=v}/n = %r and #{x<=v}/n = %r for x=%r v=%r' % (what, gq, e1, e2, gd[:8], gstat))
                elif not (lo1 - 1e-12 <= gq[0] <= hi1 + 1e-12 and lo2 - 1e-12 <= gq[1] <= hi2 + 1e-12):
                    bad.append('%s: quantile %r outside [%r, %r] x [%r, %r] given by the documented statistic %r in %r'
                               % (what, gq, lo1, hi1, lo2, hi2, stat, sorted(dist)[:8]))
    return bad[:5]


# ------------------------------------------------------------------ C20
GRIDDED_TESTS = {
    # name: (module, function, class)   class: 'sim' simulation-based, 'analytic', 'pair' analytic with a benchmark
    'poisson.number_test': ('poisson_evaluations', 'number_test', 'analytic'),
    'poisson.likelihood_test': ('poisson_evaluations', 'likelihood_test', 'sim'),
    'poisson.conditional_likelihood_test': ('poisson_evaluations', 'conditional_likelihood_test', 'sim'),
    'poisson.spatial_test': ('poisson_evaluations', 'spatial_test', 'sim'),
    'poisson.magnitude_test': ('poisson_evaluations', 'magnitude_test', 'sim'),
    'poisson.paired_t_test': ('poisson_evaluations', 'paired_t_test', 'pair'),
    'poisson.w_test': ('poisson_evaluations', 'w_test', 'pair'),
    'binomial.negative_binomial_number_test': ('binomial_evaluations', 'negative_binomial_number_test', 'nbd'),
    'binomial.binary_spatial_test': ('binomial_evaluations', 'binary_spatial_test', 'sim'),
    'binomial.binary_conditional_likelihood_test': ('binomial_evaluations', 'binary_conditional_likelihood_test', 'sim'),
    'binomial.binary_paired_t_test': ('binomial_evaluations', 'binary_paired_t_test', 'pair'),
    'brier.brier_score_test': ('brier_evaluations', 'brier_score_test', 'sim'),
}
ALL_C20_TESTS = tuple(GRIDDED_TESTS) + tuple('catalog.' + t for t in CATALOG_TESTS)


def _permuted(seq, perm):
    if perm is None:
        return list(seq)
    perm = [int(k) for k in perm]
    if sorted(perm) != list(range(len(seq))):
        raise ValueError('oracle: %r is not a permutation of %d items' % (perm, len(seq)))
    return [seq[k] for k in perm]


def _gridded_forecast(grid, region, order, rates, name):
    from csep.core.forecasts import GriddedForecast
    data = numpy.array([rates[k] for k in order], dtype=float)
    return GriddedForecast(start_time=T0, end_time=T0 + datetime.timedelta(days=365), data=data, region=region,
                           magnitudes=numpy.array(grid['mags'], dtype=float), name=name)


def run_c20(test, grid, observed, rates=None, rates_b=None, synthetic=None, seed=7, num_simulations=5, variance=None,
            perm_events=None, perm_catalogs=None, perm_cells=None):
    """one evaluation on the (permuted) storage order -> ('return', view) | ('raise', exc)"""
    import importlib
    g = dict(grid)
    if perm_cells is not None:
        g['order'] = _permuted(list(range(int(grid['nx']) * int(grid['ny']))), perm_cells)
    region, base, order, dh, mags = build_region(g)
    obs = make_catalog(_permuted(place(grid, observed, 1000), perm_events), region=region, name='obs')
    if test.startswith('catalog.'):
        datas, start = [], 0
        for ev in synthetic:
            datas.append(place(grid, ev, start))
            start += len(ev)
        datas = _permuted(datas, perm_catalogs)
        fore = build_catalog_forecast('list', g, region, datas, None)
        out = qcall(run_catalog_test, test[len('catalog.'):], fore, obs, seed=seed)
    else:
        modn, fnn, cls = GRIDDED_TESTS[test]
        fn = getattr(importlib.import_module('csep.core.' + modn), fnn)
        fa = _gridded_forecast(g, region, order, rates, 'A')
        if cls == 'sim':
            out = qcall(fn, fa, obs, num_simulations=int(num_simulations), seed=seed)
        elif cls == 'analytic':
            out = qcall(fn, fa, obs)
        elif cls == 'nbd':
            out = qcall(fn, fa, obs, float(variance))
        else:
            fb = _gridded_forecast(g, region, order, rates_b, 'B')
            out = qcall(fn, fa, fb, obs)
    if out[0] == 'return':
        return ('return', result_view(out[1]))
    return out


def _bits(view):
    if view is None:
        return None
    st, ob, q, d = view
    f = lambda v: v if (v is None or isinstance(v, str)) else ('nan' if math.isnan(v) else float(v).hex())
    return (st, f(ob), tuple(f(v) for v in q), tuple(f(v) for v in d))


@oracle('perm_invariance')
def _perm_invariance(test, grid, observed, rates=None, rates_b=None, synthetic=None, seed=7, num_simulations=5,
                     variance=None, perm_events=None, perm_catalogs=None, perm_cells=None):
    """C20.  The evaluation `test` on the given inputs and on a re-ordered copy (events of the observed catalog,
    synthetic catalogs, cells of the region together with the rates)."""
    kw = dict(grid=grid, observed=observed, rates=rates, rates_b=rates_b, synthetic=synthetic, seed=seed,
              num_simulations=num_simulations, variance=variance)
    base = run_c20(test, **kw)
    if base[0] == 'raise':
        return []          # the test fails on the unpermuted input for an unrelated reason: not judged (see c20_base_failure)
    perm = run_c20(test, perm_events=perm_events, perm_catalogs=perm_catalogs, perm_cells=perm_cells, **kw)
    what = '%s [events %r, catalogs %r, cells %r]' % (test, perm_events, perm_catalogs, perm_cells)
    if perm[0] == 'raise':
        return ['%s: the re-ordered input raises %s, the original does not' % (what, _exc(perm))]
    a, b = base[1], perm[1]
    if a is None or b is None:
        return [] if a is b else ['%s: %s on the original, %s on the re-ordered input'
                                  % (what, 'no result' if a is None else 'a result', 'no result' if b is None else 'a result')]
    is_catalog = test.startswith('catalog.')
    name = test[len('catalog.'):] if is_catalog else test
    simulated = (not is_catalog and GRIDDED_TESTS[test][2] == 'sim') or name in ('resampled_magnitude_test', 'MLL_magnitude_test')
    only_events = perm_catalogs is None and perm_cells is None
    bad = []
    if a[0] != b[0]:
        bad.append('%s: status %r becomes %r' % (what, a[0], b[0]))
    if (a[1] is None) != (b[1] is None) or (a[1] is not None and not _close(a[1], b[1])):
        bad.append('%s: observed statistic %r becomes %r' % (what, a[1], b[1]))
    if simulated:
        if only_events and seed is not None and _bits(a) != _bits(b):
            bad.append('%s: with seed %r the result is not bit-for-bit identical: (statistic, quantile, distribution) '
                       '%r becomes %r' % (what, seed, (a[1], a[2], a[3][:4]), (b[1], b[2], b[3][:4])))
        return bad
    if is_catalog:
        # simulation-free distribution (multiset) and its empirical quantile (ties up to rounding may flip)
        da = sorted(v for v in a[3] if v is not None)
        db = sorted(v for v in b[3] if v is not None)
        if len(a[3]) != len(b[3]) or len(da) != len(db) or any(not _close(x, y) for x, y in zip(da, db)):
            bad.append('%s: test distribution (sorted) %r becomes %r' % (what, da[:8], db[:8]))
        elif a[1] is not None and len(da) > 0 and len(a[2]) == 2 and len(b[2]) == 2:
            n = float(len(da))
            near = sum(1 for x in da if _close(x, a[1]) and x != a[1]) + sum(1 for x in db if _close(x, b[1]) and x != b[1])
            for i in (0, 1):
                if (a[2][i] is None) != (b[2][i] is None) or (a[2][i] is not None and abs(a[2][i] - b[2][i]) > near / n + 1e-12):
                    bad.append('%s: quantile %r becomes %r' % (what, a[2], b[2]))
                    break
        elif a[2] != b[2] and not all((x is None and y is None) or (x is not None and y is not None and _close(x, y)) for x, y in zip(a[2], b[2])):
            bad.append('%s: quantile %r becomes %r' % (what, a[2], b[2]))
        return bad
    # analytic gridded tests: quantile and (where numeric) the distribution fields
    if len(a[2]) != len(b[2]) or any((x is None) != (y is None) or (x is not None and not _close(x, y)) for x, y in zip(a[2], b[2])):
        bad.append('%s: analytically computed quantile %r becomes %r' % (what, a[2], b[2]))
    if len(a[3]) != len(b[3]) or any((x != y) if (isinstance(x, str) or isinstance(y, str) or x is None or y is None)
                                     else not _close(x, y) for x, y in zip(a[3], b[3])):
        bad.append('%s: test distribution fields %r become %r' % (what, a[3], b[3]))
    return bad


def c20_base_failure(test, **kw):
    """None, or the exception text with which `test` fails on the UNPERMUTED input"""
    for k in ('perm_events', 'perm_catalogs', 'perm_cells'):
        kw.pop(k, None)
    out = run_c20(test, **kw)
    return None if out[0] == 'return' else _exc(out)
