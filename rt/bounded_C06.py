"""Bounded stand-in for C06 (labelled bounded): simulated catalogs follow the forecast by exact
inverse CDF and conserve counts; quantile = fraction of simulated statistics <= observed;
reproducibility for every seed.

 * _simulate_catalog of the three modules on every rate array over {0,1,3} up to length 4 and on
   arrays of equal small rates whose float cumulative total rounds below 1, with the uniform
   numbers 0, nextafter(1,0), every cumulative boundary and its float neighbours; seeded runs.
 * the same numbers pushed through _poisson_likelihood_test / _binary_likelihood_test /
   _brier_score_test (where the sampling weights are built by the code under test) one row at a
   time and as several rows (num_simulations > 1), and through the public tests on small grids.
 * two runs with the same seed (0, 1, 2**32-1, ...) from different global generator states must
   agree bit for bit: the seven gridded tests and the catalog-based resampled / MLL M-tests."""
import itertools
import random

from .tally import Tally
from . import oracles_eval as oe

SEEDS = [0, 1, 2 ** 32 - 1]


def _chunks(xs, n):
    return [xs[i:i + n] for i in range(0, len(xs) - n + 1, n)] if n else []


def _counts_with(rates, n_events, kind):
    """an observed count array (flat) prescribing n_events simulated events"""
    pos = [k for k, r in enumerate(rates) if r > 0]
    c = [0] * len(rates)
    if kind == 'poisson':
        if n_events:
            c[pos[0]] = n_events
    else:
        for k in pos[:n_events]:
            c[k] = 1
    return c


def _nbig(rates):
    """bins that a rejection sampler reaches quickly (>= 1 % of the total rate): seeded binary
    simulations are only asked for that many distinct cells, so that they end in reasonable time"""
    tot = sum(rates)
    return sum(1 for r in rates if r >= 0.01 * tot and r > 0)


def run(tier, seed):
    rng = random.Random(seed)
    T = Tally(max_fail=10)
    quick = tier == 'quick'

    # ---------------- directed edge cases first (one per clause, so that the few recorded failures
    # of a run name every clause that is violated, not five instances of the first one)
    g = oe.GRIDS['2x2x2']
    one = float(1.0 - 2.0 ** -53)                      # the largest double below 1
    eq = [0.1] * 8                                     # float cumsum(x)[-1]/sum(x) = 0.9999999999999999
    syn, obs = [[0, 1], [0, 1]], [0, 1, 1]
    T.run('determinism', {'target': 'resampled_M', 'seed': 0, 'mag_bins': [1.0, 2.0], 'synthetic': syn, 'observed': obs}, key='d1')
    T.run('determinism', {'target': 'MLL_M', 'seed': 0, 'mag_bins': [1.0, 2.0], 'synthetic': syn, 'observed': obs}, key='d2')
    T.run('sim_test_ndarray', {'kind': 'poisson', 'mode': 'CL', 'rates': eq, 'counts': [1] + [0] * 7, 'num_simulations': 1,
                               'random_numbers': [[one]]}, key='d3')
    T.run('gridded_test', {'test': 'S', 'grid': oe.GRIDS['3x2x3'], 'rates': [[0.1, 0.1, 0.1]] * 6, 'events': [[0, 0]],
                           'num_simulations': 1, 'random_numbers': [[one]]}, key='d4')
    T.run('gridded_test', {'test': 'brier', 'grid': g, 'rates': [[0.1, 0.1]] * 4, 'events': [[0, 0]], 'num_simulations': 1,
                           'random_numbers': [[one]]}, key='d5')
    T.run('sim_test_ndarray', {'kind': 'binary', 'rates': [1.0], 'counts': [1], 'num_simulations': 2,
                               'random_numbers': [[0.5], [0.5]]}, key='d6')
    T.run('gridded_test', {'test': 'bS', 'grid': g, 'rates': [[0.5, 0.5]] * 4, 'events': [[0, 0]], 'num_simulations': 2,
                           'random_numbers': [[0.1], [0.6]]}, key='d7')
    T.run('sim_test_ndarray', {'kind': 'binary', 'rates': [1.0, 0.0, 1.0], 'counts': [1, 0, 0], 'num_simulations': 1,
                               'random_numbers': [[0.6]]}, key='d8')
    T.run('sim_test_ndarray', {'kind': 'brier', 'rates': [1.0, 0.0, 1.0], 'counts': [1, 0, 0], 'num_simulations': 1,
                               'random_numbers': [[0.6]]}, key='d9')
    T.run('gridded_test', {'test': 'bS', 'grid': g, 'rates': [[0.5, 0.5], [0.0, 0.0], [0.5, 0.5], [0.5, 0.5]], 'events': [[0, 0]],
                           'num_simulations': 4, 'seed': 0, 'timeout': 2.0}, key='d10')

    # ---------------- rate arrays
    arrays = []
    maxlen = 4
    for n in range(1, maxlen + 1):
        for rr in itertools.product([0.0, 1.0, 3.0], repeat=n):
            if any(rr):
                arrays.append(list(rr))
    special = oe.rounding_below_one(limit=3 if quick else 8)
    special += [[0.1] * 31, [0.1] * 56] if not quick else [[0.1] * 31]
    special += [[0.0] + [0.1] * 8, [0.1] * 8 + [0.0], [0.1] * 4 + [0.0] + [0.1] * 4 + [0.0, 0.0],
                [1e-12, 1.0, 1e-12], [1e3, 1e-6, 0.5, 0.0, 2.5], [0.3, 0.3, 0.3], [1 / 3.0] * 3, [0.7, 0.2, 0.1]]
    n_rand = 5 if quick else 300
    for _ in range(n_rand):
        n = rng.randint(2, 12)
        special.append([rng.choice([0.0, 1e-6, 1e-3, 0.1, 0.1, 0.3, 0.7, 2.5, 10.0]) for _ in range(n)])
        if not any(special[-1]):
            special[-1][0] = 0.1
    if quick:
        arrays = [a for a in arrays if len(a) <= 3] + [a for a in arrays if len(a) == 4][::3]
    arrays += special

    # ---------------- (1) _simulate_catalog directly
    for rr in arrays:
        us = oe.boundary_numbers(rr) + oe.interior_numbers(rr)
        npos = sum(1 for r in rr if r > 0)
        for module in ('poisson', 'binary', 'brier'):
            T.run('simulate_catalog', {'module': module, 'rates': rr, 'num_events': len(us), 'random_numbers': us},
                  key=('sc-all', module, tuple(rr)))
            edge = [us[0], us[-1]] if (quick and len(rr) > 3 and rr not in special) else us
            for u in edge:
                T.run('simulate_catalog', {'module': module, 'rates': rr, 'num_events': 1, 'random_numbers': [u]},
                      key=('sc-one', module, tuple(rr), u))
            T.run('simulate_catalog', {'module': module, 'rates': rr, 'num_events': 0, 'random_numbers': []},
                  key=('sc-none', module, tuple(rr)))
            for sd in SEEDS if len(rr) <= 3 or rr in special else SEEDS[:1]:
                n = rng.randint(0, 7) if module == 'poisson' else rng.randint(0, _nbig(rr))
                T.run('simulate_catalog', {'module': module, 'rates': rr, 'num_events': n, 'seed': sd},
                      key=('sc-seed', module, tuple(rr), sd))

    # ---------------- (2) through the array-level tests (weights built by the code under test)
    for rr in arrays:
        if quick and len(rr) == 4 and rr not in special and rng.random() < 0.5:
            continue
        us = oe.boundary_numbers(rr)
        npos = sum(1 for r in rr if r > 0)
        shapes = [rr]
        if len(rr) % 2 == 0 and len(rr) >= 4:
            shapes.append([rr[:len(rr) // 2], rr[len(rr) // 2:]])       # the same rates as a 2-D array
        for kind in ('poisson', 'binary', 'brier'):
            n = 2 if kind == 'poisson' else min(2, _nbig(rr))
            rows = _chunks(us, n) or []
            if len(us) % max(n, 1):
                rows.append(us[-n:])
            cnt = _counts_with(rr, n, kind)
            for shaped in shapes:
                c2 = cnt if shaped is rr else [cnt[:len(rr) // 2], cnt[len(rr) // 2:]]
                modes = ('CL', 'N') if kind == 'poisson' else ('CL',)
                for mode in modes:
                    for row in rows:            # one simulation per call: a witness names one row
                        T.run('sim_test_ndarray', {'kind': kind, 'mode': mode, 'rates': shaped, 'counts': c2,
                                                   'num_simulations': 1, 'random_numbers': [row]},
                              key=('t1', kind, mode, repr(shaped), tuple(row)))
                    inner = oe.interior_numbers(rr, per_bin=2)
                    multi = [[rng.choice(inner) for _ in range(n)] for _ in range(3)]
                    T.run('sim_test_ndarray', {'kind': kind, 'mode': mode, 'rates': shaped, 'counts': c2,
                                               'num_simulations': 3, 'random_numbers': multi},
                          key=('t3', kind, mode, repr(shaped)))
                if kind == 'poisson':
                    for draw in (0, 2):
                        rws = [us[:draw], us[-draw:] if draw else []]
                        T.run('sim_test_ndarray', {'kind': kind, 'mode': 'L', 'rates': shaped, 'counts': c2,
                                                   'num_simulations': 2, 'random_numbers': rws, 'poisson_draws': [draw, draw]},
                              key=('tL', repr(shaped), draw))
                # seeded: statistics must belong to admissible catalogs; quantile; no hang
                if len(rr) <= 12:
                    for sd in SEEDS[:2] if quick else SEEDS:
                        T.run('sim_test_ndarray', {'kind': kind, 'mode': 'CL', 'rates': shaped, 'counts': c2,
                                                   'num_simulations': 6, 'seed': sd, 'timeout': 2.0},
                              key=('tseed', kind, repr(shaped), sd))

    # ---------------- (3) public tests on small grids
    for gname, grid in oe.GRIDS.items():
        nc, nm = oe.grid_shape(grid)
        forecasts = [[[0.1] * nm for _ in range(nc)],                                # equal small rates
                     [[0.1 * (i + 1) * (k + 1) for k in range(nm)] for i in range(nc)],
                     [[(0.0 if (i + k) % 3 == 0 else 0.3 + 0.1 * k) for k in range(nm)] for i in range(nc)]]
        z = [[0.7] * nm for _ in range(nc)]
        z[0] = [0.0] * nm
        z[nc - 1] = [0.0] * nm                                                         # leading and trailing zero cells
        forecasts.append(z)
        for fi, rates in enumerate(forecasts):
            cats = [[[1, nm - 1], [1, nm - 1]], [[1, 0], [nc - 2, nm - 1], [1, 0]], []]
            for ci, events in enumerate(cats):
                full = oe.event_counts(grid, events)
                for test, (_m, _f, kind, mode, marg) in oe.GRIDDED.items():
                    fr = oe.marginal(rates, marg)
                    fc = oe.marginal(full, marg)
                    if not any(fr) or any(c > 0 and r <= 0 for r, c in zip(fr, fc)):
                        continue                 # catalogs inside the support only (zero-rate events: C05/C16)
                    us = oe.boundary_numbers(fr)
                    n = 2 if mode == 'L' else oe._prescribed(kind, mode, [int(c) for c in fc], 0)
                    rows = ([us[:n], us[-n:]] + ([rng.sample(us, n)] if len(us) >= n else [])) if n else [[]]
                    for ri, row in enumerate(rows):
                        args = {'test': test, 'grid': grid, 'rates': rates, 'events': events, 'num_simulations': 1,
                                'random_numbers': [row]}
                        if mode == 'L':
                            args['poisson_draws'] = [n]
                        T.run('gridded_test', args, key=('g1', gname, fi, ci, test, ri))
                    if n and mode != 'L':
                        inner = oe.interior_numbers(fr, per_bin=2)
                        T.run('gridded_test', {'test': test, 'grid': grid, 'rates': rates, 'events': events, 'num_simulations': 2,
                                               'random_numbers': [[rng.choice(inner) for _ in range(n)] for _ in range(2)]},
                              key=('g2', gname, fi, ci, test))
                    for sd in SEEDS:
                        T.run('determinism', {'target': test, 'seed': sd, 'num_simulations': 4, 'grid': grid, 'rates': rates,
                                              'events': events, 'timeout': 2.0}, key=('det', gname, fi, ci, test, sd))
                    T.run('gridded_test', {'test': test, 'grid': grid, 'rates': rates, 'events': events, 'num_simulations': 5,
                                           'seed': rng.choice(SEEDS), 'timeout': 2.0}, key=('gseed', gname, fi, ci, test))

    # ---------------- (4) catalog-based magnitude tests: reproducible for every seed
    cfs = [([4.0, 5.0, 6.0], [[0, 1, 2, 0], [1, 1, 0], [2, 0, 0, 0, 1]], [0, 1, 2, 0, 0]),
           ([1.0, 2.0], [[0, 0, 0, 0, 1, 1], [0, 1], [1, 1, 0]], [0, 0, 1, 1]),
           ([2.5, 2.6, 2.7, 2.8], [[0, 1, 2, 3], [3, 3, 0, 1, 1, 2], [0, 0], [1, 2, 2, 2, 3]], [0, 1, 1, 2, 3, 3, 0])]
    for ki, (mb, syn, obs) in enumerate(cfs):
        for target in ('resampled_M', 'MLL_M'):
            for sd in SEEDS + [7, 123456]:
                T.run('determinism', {'target': target, 'seed': sd, 'mag_bins': mb, 'synthetic': syn, 'observed': obs},
                      key=('detcat', target, ki, sd))
    return T.result(bound='_simulate_catalog (3 modules) and the array-level tests on %d rate arrays (all over {0,1,3} up to '
                          'length %d, arrays of equal rates whose float total rounds below 1, random) x every boundary number '
                          '(0, nextafter(1,0), each cumulative edge +-1 ulp), one row and several rows per call, seeds %r; '
                          '7 public tests on %d grids x 4 forecasts x 3 catalogs; same-seed reproducibility incl. the '
                          'resampled and MLL magnitude tests' % (len(arrays), maxlen, SEEDS, len(oe.GRIDS)),
                    exhaustive_part=True)
