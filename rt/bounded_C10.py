"""Bounded stand-in for C10 (labelled bounded): the six catalog-based tests (number, spatial, magnitude,
pseudo-likelihood, resampled magnitude, MLL) on every forecast of J <= 2 (quick) / 3 (thorough) synthetic
catalogs drawn from a pool of small catalogs (empty, single event, several cells, many events per cell) on a
one-cell region with two magnitude bins, a 1x2 region and a 2x2 region with three magnitude bins, against every
observed catalog of a pool (empty, single event, events in never-sampled cells, many events per cell, identical
to a synthetic catalog), in memory and streamed from file (store on/off); plus random forecasts of up to 4
catalogs.  Expected values: independent evaluation of the definitions of the theory page."""
import itertools
import random

from .tally import Tally
from . import oracles_catfc as oc  # registers the oracles

G11 = {'nx': 1, 'ny': 1, 'dh': 1.0, 'x0': 0.0, 'y0': 0.0, 'mags': [4.0, 5.0]}
G12 = {'nx': 1, 'ny': 2, 'dh': 0.5, 'x0': -118.0, 'y0': 34.0, 'mags': [4.0, 4.5]}
G22 = {'nx': 2, 'ny': 2, 'dh': 1.0, 'x0': 0.0, 'y0': 0.0, 'mags': [4.0, 5.0, 6.0]}

POOLS = {
    'one cell': (G11,
                 [[], [[0, 0]], [[0, 1]], [[0, 0], [0, 0], [0, 1]], [[0, 0]] * 7 + [[0, 1]] * 3],
                 [[], [[0, 0]], [[0, 1]], [[0, 0], [0, 0], [0, 1]], [[0, 1]] * 6 + [[0, 0]] * 5]),
    '1x2': (G12,
            [[], [[0, 0]], [[1, 1]], [[0, 0], [0, 1], [0, 1]], [[1, 0]] * 4 + [[0, 1]]],
            [[], [[1, 0]], [[0, 1], [1, 1]], [[0, 0], [0, 1], [0, 1]], [[1, 1]] * 5 + [[0, 0]] * 2]),
    '2x2': (G22,
            [[], [[0, 0]], [[1, 1], [1, 2]], [[0, 0], [0, 1], [2, 2], [2, 0]], [[3, 1]] * 6 + [[0, 0]] * 2, [[1, 0]]],
            [[], [[0, 0]], [[3, 1]], [[0, 0], [3, 1], [2, 2]], [[1, 1]] * 5 + [[0, 0]], [[0, 0], [0, 1], [2, 2], [2, 0]],
             [[2, 1], [3, 0]]]),
}
SOURCES = ('list', 'file_store', 'file_nostore')
SEEDS = (1, 2, 12345, None, 7)
FIRST = ('number_test', 'spatial_test', 'pseudolikelihood_test', 'magnitude_test', 'resampled_magnitude_test')
LAST = ('MLL_magnitude_test',)


def cases(tier, rng):
    J = 2 if tier == 'quick' else 3
    k = 0
    for name, (grid, pool, observed) in POOLS.items():
        for j in range(1, J + 1):
            for syn in itertools.product(range(len(pool)), repeat=j):
                for o in range(len(observed)):
                    k += 1
                    yield (name, syn, o), grid, [pool[i] for i in syn], observed[o], k
    reps = 60 if tier == 'quick' else 1500
    for r in range(reps):
        name = rng.choice(list(POOLS))
        grid, pool, observed = POOLS[name]
        ncell, nmag = grid['nx'] * grid['ny'], len(grid['mags'])
        syn = []
        for _ in range(rng.randint(3, 4)):
            if rng.random() < 0.3:
                syn.append([])
            else:
                cells = rng.sample(range(ncell), rng.randint(1, ncell))
                syn.append([[rng.choice(cells), rng.randrange(nmag)] for _ in range(rng.choice((1, 2, 3, 8, 20)))])
        obs = [[rng.randrange(ncell), rng.randrange(nmag)] for _ in range(rng.choice((0, 1, 2, 5, 12)))]
        k += 1
        yield ('random', r), grid, syn, obs, k


def run(tier, seed):
    T = Tally()
    n_cases = 0
    for tests in (FIRST, LAST):
        rng = random.Random(seed)
        for key, grid, syn, obs, k in cases(tier, rng):
            n_cases += 1
            total = sum(len(c) for c in syn)
            for t, test in enumerate(tests):
                if total == 0 and test in ('magnitude_test', 'resampled_magnitude_test', 'MLL_magnitude_test'):
                    continue    # N_U = 0: the documented statistic divides by the size of the union catalog
                args = {'test': test, 'grid': grid, 'synthetic': syn, 'observed': obs, 'source': SOURCES[(k + t) % 3]}
                if args['source'] != 'list':
                    args['placeholder'] = [bool((k + i) % 2) for i in range(len(syn))]
                if test in ('resampled_magnitude_test', 'MLL_magnitude_test'):
                    args['seed'] = SEEDS[k % len(SEEDS)]
                if test == 'MLL_magnitude_test':
                    args['full_calculation'] = bool(k % 2)
                T.run('catfc_test', args, key=(test,) + key)
    return T.result(bound='6 catalog-based tests x every forecast of J <= %d catalogs from pools of 5-6 small catalogs on 3 regions '
                          '(1 cell/2 bins, 1x2/2 bins, 2x2/3 bins) x every observed catalog of a pool of 5-7 (empty, never-sampled cells, '
                          'many per cell, ties), memory/file sources rotating; random forecasts of 3-4 catalogs (%d forecast/observation '
                          'pairs in all)' % (2 if tier == 'quick' else 3, n_cases // 2), exhaustive_part=True)
