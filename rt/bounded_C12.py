"""Bounded stand-in for C12 (labelled bounded): the property's own enumeration - every forecast file of
n <= 4 (quick) / 5 (thorough) catalogs of 0..2 events, every choice of placeholder row vs omission for each
empty catalog (the final id always present), with and without header - decoded by
CSEPCatalog.load_ascii_catalogs, csep.load_stochastic_event_sets and csep.load_catalog_forecast (store on/off);
files whose catalog ids decrease (must be rejected); random forecasts with hundreds of catalogs, long gaps,
times with and without fractional seconds."""
import itertools
import random

from .tally import Tally
from . import oracles_catfc as oc  # registers the oracles

# per catalog: number of events, or 'P' (empty, placeholder row) / 'O' (empty, omitted)
NONLAST = (1, 2, 'P', 'O')
LAST = (1, 2, 'P')

IDS = ['ev%d', '%d', '', 'us7000%d']
FRACS = [0, 0, 250, 500, 1, 999, 120]


def make_row(k, rng=None):
    """event number k of a file: all fields distinct and exactly representable in the file"""
    if rng is None:
        lon, lat, mag, depth = -120.0 + 0.125 * k, 30.0 + 0.25 * k, 4.0 + 0.05 * (k % 40), 1.5 * (k % 7)
        ms = 694224000000 + 86400000 * (k // 5) + 1000 * (7 * k % 3600) + FRACS[k % len(FRACS)]
        style = ('auto', 'ms', 'us')[k % 3]
        eid = IDS[k % len(IDS)]
    else:
        lon, lat = round(rng.uniform(-180, 180), 4), round(rng.uniform(-90, 90), 4)
        mag, depth = round(rng.uniform(2.5, 9.0), 2), round(rng.uniform(0, 700), 1)
        ms = rng.randint(0, 2000000000) * 1000 + (rng.choice(FRACS) if rng.random() < 0.5 else 0)
        style = rng.choice(('auto', 'ms', 'us'))
        eid = rng.choice(IDS)
    eid = (eid % k) if '%d' in eid else eid
    return [lon, lat, mag, oc.ms_to_string(ms, style), depth, eid]


def blocks_from_shape(shape, counter=None, rng=None):
    k = counter if counter is not None else [0]
    blocks = []
    for cid, s in enumerate(shape):
        if s == 'O':
            continue
        rows = []
        if s != 'P':
            for _ in range(int(s)):
                rows.append(make_row(k[0], rng))
                k[0] += 1
        blocks.append([cid, rows])
    return blocks


def run(tier, seed):
    rng = random.Random(seed)
    T = Tally()
    N = 4 if tier == 'quick' else 5
    n_shapes = 0
    for n in range(1, N + 1):
        for shape in itertools.product(*([NONLAST] * (n - 1) + [LAST])):
            n_shapes += 1
            for header in (False, True):
                T.run('catfc_file_decode', {'blocks': blocks_from_shape(shape), 'header': header},
                      key=('shape', shape, header))
    # a file without a final newline, and with one (the fixtures of the repository have both)
    for shape in ((1, 'P'), ('O', 2), ('P',), (2, 'O', 'O', 1), ('O', 'O', 'P')):
        T.run('catfc_file_decode', {'blocks': blocks_from_shape(shape), 'header': False, 'trailing_newline': False},
              key=('nonl', shape))
    # decreasing ids must be rejected: every id sequence of length 2..3 over 0..3 with a descent, rows or placeholders
    n_dec = 0
    for ln in (2, 3):
        for ids in itertools.product(range(4), repeat=ln):
            if not any(b < a for a, b in zip(ids, ids[1:])):
                continue
            for kinds in itertools.product((0, 1), repeat=ln):
                k = [0]
                blocks = []
                for cid, kind in zip(ids, kinds):
                    rows = []
                    for _ in range(kind):
                        rows.append(make_row(k[0]))
                        k[0] += 1
                    blocks.append([cid, rows])
                n_dec += 1
                T.run('catfc_file_decode', {'blocks': blocks, 'header': bool(n_dec % 2)}, key=('dec', ids, kinds))
    # random forecasts: hundreds of catalogs, long gaps
    reps = 12 if tier == 'quick' else 150
    for r in range(reps):
        n = rng.randint(100, 400 if tier == 'quick' else 900)
        p_empty = rng.choice((0.2, 0.6, 0.9, 0.98))
        p_place = rng.choice((0.0, 0.1, 0.5, 1.0))
        shape = []
        for cid in range(n):
            if rng.random() < p_empty:
                shape.append('P' if (cid == n - 1 or rng.random() < p_place) else 'O')
            else:
                shape.append(rng.choice((1, 1, 2, 3, 5)))
        if r % 4 == 0:   # a long leading and a long trailing gap
            g = rng.randint(20, 80)
            shape[:g] = ['O'] * g
            shape[-g:] = ['O'] * (g - 1) + ['P']
        T.run('catfc_file_decode', {'blocks': blocks_from_shape(shape, rng=rng), 'header': bool(r % 2),
                                    'trailing_newline': bool(r % 3)}, key=('random', r))
    return T.result(bound='all %d encodings of n <= %d catalogs of 0..2 events (placeholder/omitted per empty catalog, final id '
                          'present) x header on/off x 4 loaders; %d decreasing-id files; %d random forecasts of 100..%d catalogs'
                          % (n_shapes, N, n_dec, reps, 400 if tier == 'quick' else 900), exhaustive_part=True)
