"""Bounded stand-in for C05 (labelled bounded): the Poisson L / CL / S / M statistics are the sum of
log Poisson pmf over the stated bins - (a) on plain arrays (every rate/count array over a small
alphabet, 1-D and 2-D, plus directed cases: rates 1e-12..1e3, zero-rate bins leading / interior /
trailing, hundreds of events, N_obs far from N_forecast) and (b) through the public tests on small
GriddedForecast + CSEPCatalog pairs, with injected random numbers (so that each simulated catalog
is known) and with seeds (each simulated statistic must belong to an admissible catalog)."""
import itertools
import random

from .tally import Tally
from . import oracles_eval as oe

POOL = [1e-12, 1e-9, 1e-6, 1e-3, 0.01, 0.1, 0.5, 1.0, 2.5, 10.0, 1e3]


def _counts_for(rng, n_bins, n_events, hot=None):
    c = [0] * n_bins
    for _ in range(n_events):
        c[hot if hot is not None and rng.random() < 0.5 else rng.randrange(n_bins)] += 1
    return c


def _rows(rng, rates, n_events, n_rows):
    """random numbers well inside the cumulative intervals (placement is then unambiguous)"""
    inner = oe.interior_numbers(rates, per_bin=3)
    return [[rng.choice(inner) for _ in range(n_events)] for _ in range(n_rows)]


def run(tier, seed):
    rng = random.Random(seed)
    T = Tally()
    quick = tier == 'quick'

    # ---- (a1) the joint log-likelihood primitive: every array over a small alphabet
    ralpha = [0.0, 1e-3, 0.5, 7.0] if quick else [0.0, 1e-12, 1e-3, 0.5, 7.0, 1e3]
    calpha = [0, 1, 3] if quick else [0, 1, 2, 40]
    maxlen = 3 if quick else 4
    for n in range(1, maxlen + 1):
        for rr in itertools.product(ralpha, repeat=n):
            if not any(rr):
                continue
            for cc in itertools.product(calpha, repeat=n):
                T.run('poisson_jll_ndarray', {'rates': list(rr), 'counts': list(cc)}, key=('jll', rr, cc))
    for rr in itertools.product(ralpha[:3] if quick else ralpha[:4], repeat=4):
        if not any(rr):
            continue
        for cc in itertools.product([0, 2], repeat=4):
            T.run('poisson_jll_ndarray', {'rates': [list(rr[:2]), list(rr[2:])], 'counts': [list(cc[:2]), list(cc[2:])]},
                  key=('jll2d', rr, cc))

    # ---- (a2) _poisson_likelihood_test in its three forms, simulated catalogs known by injection
    directed = [
        ([0.0, 0.5, 1.5, 2.0], [0, 1, 0, 2]),            # leading zero-rate bin
        ([0.5, 0.0, 1.5, 2.0], [1, 0, 0, 2]),            # interior
        ([0.5, 1.5, 2.0, 0.0], [1, 0, 2, 0]),            # trailing
        ([0.0, 0.0, 3.0, 0.0, 0.0], [0, 0, 4, 0, 0]),    # a single positive bin
        ([0.5, 0.0, 1.5, 2.0], [1, 1, 0, 2]),            # event in a zero-rate bin: -inf
        ([0.5, 1.5, 2.0, 0.0], [0, 0, 0, 1]),            # the only event in a zero-rate bin
        ([1e3, 2e3, 5e2], [0, 0, 0]),                     # no events, N_forecast = 3500
        ([1e3, 2e3, 5e2], [1, 0, 0]),                     # N_obs << N_forecast
        ([1e-6, 2e-6, 1e-12], [20, 25, 5]),               # N_obs >> N_forecast
        ([1e-12, 1e3, 1e-6, 0.1], [1, 2, 1, 1]),          # twelve orders of magnitude
        ([[0.1, 0.2, 0.0], [0.3, 0.0, 0.05]], [[1, 0, 0], [3, 0, 1]]),
        ([[2.0, 1.0], [0.5, 0.25], [0.0, 0.0]], [[0, 2], [1, 0], [0, 0]]),
        ([0.7, 0.2, 0.1, 1.3], [120, 30, 60, 90]),        # hundreds of events
    ]
    n_rand = 40 if quick else 3000
    for _ in range(n_rand):
        n = rng.randint(1, 6)
        rr = [rng.choice(POOL + [0.0, 0.0]) for _ in range(n)]
        if not any(rr):
            rr[rng.randrange(n)] = rng.choice(POOL)
        pos = [k for k, v in enumerate(rr) if v > 0]
        cc = _counts_for(rng, n, rng.choice([0, 1, 2, 5, 17]), hot=rng.choice(pos))
        if rng.random() < 0.7:   # keep most catalogs away from zero-rate bins
            cc = [c if rr[k] > 0 else 0 for k, c in enumerate(cc)]
        directed.append((rr, cc))
    for rr, cc in directed:
        flat_c = [v for row in cc for v in row] if isinstance(cc[0], list) else cc
        flat_r = [v for row in rr for v in row] if isinstance(rr[0], list) else rr
        n_obs = sum(flat_c)
        for mode in ('CL', 'N'):
            rows = _rows(rng, flat_r, n_obs, 2)
            T.run('sim_test_ndarray', {'kind': 'poisson', 'mode': mode, 'rates': rr, 'counts': cc,
                                       'num_simulations': 2, 'random_numbers': rows},
                  key=('a2', mode, repr(rr), repr(cc)))
        for draw in (0, 1, max(1, n_obs)):
            rows = _rows(rng, flat_r, draw, 2)
            T.run('sim_test_ndarray', {'kind': 'poisson', 'mode': 'L', 'rates': rr, 'counts': cc, 'num_simulations': 2,
                                       'random_numbers': rows, 'poisson_draws': [draw, draw]},
                  key=('a2L', draw, repr(rr), repr(cc)))
        if n_obs <= 6 and len(flat_r) <= 6:
            for mode in ('CL', 'N'):
                T.run('sim_test_ndarray', {'kind': 'poisson', 'mode': mode, 'rates': rr, 'counts': cc,
                                           'num_simulations': 5, 'seed': rng.choice([0, 1, 2 ** 32 - 1])},
                      key=('a2seed', mode, repr(rr), repr(cc)))

    # ---- (b) the public tests
    n_fore = 6 if quick else 150
    for gname, grid in oe.GRIDS.items():
        nc, nm = oe.grid_shape(grid)
        forecasts = [[[0.1 * (i + 1) * (k + 1) for k in range(nm)] for i in range(nc)],
                     [[1.0] * nm for _ in range(nc)]]
        z = [[0.2 + 0.1 * i + 0.3 * k for k in range(nm)] for i in range(nc)]
        z[0] = [0.0] * nm                      # a whole spatial cell at zero rate (leading)
        forecasts.append(z)
        z = [[0.2 + 0.1 * i + 0.3 * k for k in range(nm)] for i in range(nc)]
        for row in z:
            row[nm - 1] = 0.0                  # a whole magnitude column at zero rate (trailing)
        z[nc - 1][0] = 0.0                     # and one interior zero bin
        forecasts.append(z)
        for _ in range(n_fore):
            forecasts.append([[rng.choice(POOL + [0.0]) for _ in range(nm)] for _ in range(nc)])
        for fi, rates in enumerate(forecasts):
            if not any(v for row in rates for v in row):
                continue
            cats = [[], [[0, 0]], [[nc - 1, nm - 1]] * 3, [[0, 0], [nc - 1, nm - 1], [nc - 1, nm - 1], [1, 0]],
                    [[rng.randrange(nc), rng.randrange(nm)] for _ in range(rng.choice([2, 7, 40 if quick else 300]))]]
            for ci, events in enumerate(cats):
                full = oe.event_counts(grid, events)
                for test in ('L', 'CL', 'S', 'M'):
                    marg = oe.GRIDDED[test][4]
                    fr = oe.marginal(rates, marg)
                    if not any(fr):
                        continue
                    if test == 'L':
                        draw = rng.choice([0, 1, 3])
                        args = {'test': test, 'grid': grid, 'rates': rates, 'events': events, 'num_simulations': 2,
                                'random_numbers': _rows(rng, fr, draw, 2), 'poisson_draws': [draw, draw]}
                    else:
                        args = {'test': test, 'grid': grid, 'rates': rates, 'events': events, 'num_simulations': 2,
                                'random_numbers': _rows(rng, fr, len(events), 2)}
                    T.run('gridded_test', args, key=('b', gname, fi, ci, test))
                    if len(events) <= 4 and fi < 4:
                        T.run('gridded_test', {'test': test, 'grid': grid, 'rates': rates, 'events': events,
                                               'num_simulations': 4, 'seed': rng.choice([0, 1, 2 ** 32 - 1])},
                              key=('bseed', gname, fi, ci, test))
    return T.result(bound='poisson_joint_log_likelihood on every array over %d rates x %d counts up to length %d (and 2x2); '
                          '_poisson_likelihood_test (L, CL, normalised) on %d directed/random arrays with injected numbers, '
                          'prescribed Poisson draws and seeds; likelihood/conditional/spatial/magnitude_test on %d grids x '
                          '%d forecasts x 5 catalogs (0..%d events, zero-rate cells and magnitude columns)'
                          % (len(ralpha), len(calpha), maxlen, len(directed), len(oe.GRIDS), 4 + n_fore, 40 if quick else 300),
                    exhaustive_part=True)
