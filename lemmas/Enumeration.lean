/- Enumeration and row-layout lemmas used by the forecast-file contract (contracts/fcfile.py). -/
import Mathlib

namespace PyvcLemmas

/-- two strictly increasing enumerations of the same finite set of naturals coincide -/
theorem L9_enum_unique (f g : ℕ → ℕ) (U C : ℕ)
    (hf : ∀ i j, i < j → j < U → f i < f j) (hg : ∀ i j, i < j → j < C → g i < g j)
    (hfg : ∀ j < U, ∃ c < C, g c = f j) (hgf : ∀ c < C, ∃ j < U, f j = g c) :
    U = C ∧ ∀ j < U, f j = g j := by
  have hfinj : ∀ i < U, ∀ j < U, f i = f j → i = j := by
    intro i hi j hj h
    rcases lt_trichotomy i j with hlt | heq | hgt
    · exact absurd h (ne_of_lt (hf i j hlt hj))
    · exact heq
    · exact absurd h.symm (ne_of_lt (hf j i hgt hi))
  have hginj : ∀ i < C, ∀ j < C, g i = g j → i = j := by
    intro i hi j hj h
    rcases lt_trichotomy i j with hlt | heq | hgt
    · exact absurd h (ne_of_lt (hg i j hlt hj))
    · exact heq
    · exact absurd h.symm (ne_of_lt (hg j i hgt hi))
  -- images as finsets
  have himg : (Finset.range U).image f = (Finset.range C).image g := by
    ext x
    simp only [Finset.mem_image, Finset.mem_range]
    constructor
    · rintro ⟨j, hj, rfl⟩
      obtain ⟨c, hc, h⟩ := hfg j hj
      exact ⟨c, hc, h⟩
    · rintro ⟨c, hc, rfl⟩
      obtain ⟨j, hj, h⟩ := hgf c hc
      exact ⟨j, hj, h⟩
  have hcard : U = C := by
    have h1 : ((Finset.range U).image f).card = U := by
      rw [Finset.card_image_of_injOn]
      · simp
      · intro a ha b hb h
        exact hfinj a (by simpa using ha) b (by simpa using hb) h
    have h2 : ((Finset.range C).image g).card = C := by
      rw [Finset.card_image_of_injOn]
      · simp
      · intro a ha b hb h
        exact hginj a (by simpa using ha) b (by simpa using hb) h
    rw [himg] at h1
    omega
  refine ⟨hcard, ?_⟩
  subst hcard
  -- strong induction: f j = g j
  intro j
  induction j using Nat.strong_induction_on with
  | _ j ih =>
    intro hj
    -- f j is some g c, g j is some f i
    obtain ⟨c, hc, hgc⟩ := hfg j hj
    obtain ⟨i, hi, hfi⟩ := hgf j hj
    -- show c = j
    rcases lt_trichotomy c j with hlt | heq | hgt
    · -- c < j: g c = f c by ih, so f c = f j contradiction
      have := ih c hlt hc
      have hfc : f c = f j := by rw [this, hgc]
      exact absurd (hfinj c hc j hj hfc) (ne_of_lt hlt)
    · rw [← hgc, heq]
    · -- c > j: then g j < g c = f j, and g j = f i with i: f i < f j so i < j, so f i = g i by ih, g i = g j → i = j contradiction
      have h1 : g j < g c := hg j c hgt hc
      have h2 : f i < f j := by rw [hfi, ← hgc]; exact h1
      have hij : i < j := by
        by_contra hcon
        push Not at hcon
        rcases Nat.lt_or_eq_of_le hcon with h | h
        · exact absurd (hf j i h hi) (not_lt.mpr (le_of_lt h2))
        · rw [h] at h2; exact lt_irrefl _ h2
      have h3 := ih i hij hi
      have h4 : g i = g j := by rw [← h3, hfi]
      exact absurd (hginj i hi j hj h4) (ne_of_lt hij)

/-! Row layout of a table of C cells x M bins, bin fastest: row r <-> (r / M, r % M), first row of cell c is c * M.
These are the facts `Layout.division_facts` assumes about BASE(c) = c*M, ROW(c, m) = c*M + m, CELL(r) = r / M, MAGI(r) = r % M. -/

theorem L10_base_step (M a b : ℕ) (h : a < b) : a * M + M ≤ b * M := by
  have : (a + 1) * M ≤ b * M := Nat.mul_le_mul_right M h
  linarith [Nat.succ_mul a M]

theorem L10_row_decompose (C M r : ℕ) (hM : 1 ≤ M) (hr : r < C * M) :
    r / M < C ∧ r % M < M ∧ r = (r / M) * M + r % M := by
  refine ⟨?_, Nat.mod_lt _ hM, ?_⟩
  · exact (Nat.div_lt_iff_lt_mul hM).mpr hr
  · have := Nat.div_add_mod r M
    rw [Nat.mul_comm] at this
    exact this.symm

theorem L10_row_compose (C M a m : ℕ) (ha : a < C) (hm : m < M) :
    a * M + m < C * M ∧ (a * M + m) / M = a ∧ (a * M + m) % M = m := by
  have hM : 0 < M := Nat.lt_of_le_of_lt (Nat.zero_le m) hm
  refine ⟨?_, ?_, ?_⟩
  · have h1 : a * M + M ≤ C * M := L10_base_step M a C ha
    omega
  · rw [Nat.mul_comm a M, Nat.mul_add_div hM, Nat.div_eq_of_lt hm]; simp
  · rw [Nat.mul_comm a M, Nat.mul_add_mod, Nat.mod_eq_of_lt hm]

end PyvcLemmas
