/-
  PyvcLemmas / Counting.lean
  Counting / summation facts (L0–L5) that the pyvc verification framework hands to the
  SMT solver as axioms, stated over explicit definitions and proved from Mathlib.

  Conventions / deviations from the informal statements:
  * "arrays" are total functions `A : ℕ → ℝ` restricted to the prefix `Finset.range n`
    (indices `0 … n-1`); predicates are `B : ℕ → Prop` with `[DecidablePred B]`.
  * `SUM`, `CGE`, `CLE`, `CEQ` are `noncomputable` because order/equality on `ℝ` is only
    classically decidable (instances `Real.decidableLE`, `Real.decidableEq`).
  * sums are written with Mathlib's `∑ i ∈ s, f i` (`Finset.sum`).
  * `n - k` in `L3_partition_left` is truncated subtraction on `ℕ`; the hypothesis `k ≤ n`
    makes it the ordinary difference.
  * in the selection lemmas strict monotonicity of `sel` is the explicit
    `∀ a b, a < b → b < m → sel a < sel b`; `StrictMonoOn sel (Set.Iio m)` variants are
    given as `…_strictMonoOn` corollaries.
-/
import Mathlib

open Finset

namespace PyvcLemmas

/-! ## Definitions -/

/-- `#{i < n : B i}` -/
def CNT (B : ℕ → Prop) [DecidablePred B] (n : ℕ) : ℕ := ((Finset.range n).filter B).card

/-- `∑_{i<n} A i` -/
noncomputable def SUM (A : ℕ → ℝ) (n : ℕ) : ℝ := ∑ i ∈ Finset.range n, A i

/-- `#{i < n : A i ≥ v}` -/
noncomputable def CGE (A : ℕ → ℝ) (n : ℕ) (v : ℝ) : ℕ := CNT (fun i => A i ≥ v) n

/-- `#{i < n : A i ≤ v}` -/
noncomputable def CLE (A : ℕ → ℝ) (n : ℕ) (v : ℝ) : ℕ := CNT (fun i => A i ≤ v) n

/-- `#{i < n : A i = v}` -/
noncomputable def CEQ (A : ℕ → ℝ) (n : ℕ) (v : ℝ) : ℕ := CNT (fun i => A i = v) n

/-! ## L0: unfolding -/

theorem L0_count_unfold (B : ℕ → Prop) [DecidablePred B] (n : ℕ) :
    CNT B (n + 1) = CNT B n + (if B n then 1 else 0) := by
  unfold CNT
  rw [Finset.range_add_one, Finset.filter_insert]
  split_ifs with h
  · rw [Finset.card_insert_of_notMem (by simp)]
  · simp

theorem L0_count_zero (B : ℕ → Prop) [DecidablePred B] : CNT B 0 = 0 := by
  simp [CNT]

theorem L0_sum_unfold (A : ℕ → ℝ) (n : ℕ) : SUM A (n + 1) = SUM A n + A n :=
  Finset.sum_range_succ A n

theorem L0_sum_zero (A : ℕ → ℝ) : SUM A 0 = 0 := by
  simp [SUM]

/-! ## L3: bounds, extremes, partition, monotonicity -/

theorem L3a_count_bounds (B : ℕ → Prop) [DecidablePred B] (n : ℕ) : CNT B n ≤ n := by
  simpa [CNT] using Finset.card_filter_le (Finset.range n) B

theorem L3b_count_none (B : ℕ → Prop) [DecidablePred B] (n : ℕ)
    (h : ∀ i < n, ¬ B i) : CNT B n = 0 := by
  unfold CNT
  rw [Finset.card_eq_zero, Finset.filter_eq_empty_iff]
  intro i hi
  exact h i (Finset.mem_range.mp hi)

theorem L3b_count_all (B : ℕ → Prop) [DecidablePred B] (n : ℕ)
    (h : ∀ i < n, B i) : CNT B n = n := by
  unfold CNT
  rw [Finset.filter_true_of_mem (fun i hi => h i (Finset.mem_range.mp hi)), Finset.card_range]

theorem L3c_ge_le_eq (A : ℕ → ℝ) (n : ℕ) (v : ℝ) :
    CGE A n v + CLE A n v = n + CEQ A n v := by
  induction n with
  | zero => simp [CGE, CLE, CEQ, CNT]
  | succ n ih =>
    simp only [CGE, CLE, CEQ] at ih ⊢
    rw [L0_count_unfold, L0_count_unfold, L0_count_unfold]
    rcases lt_trichotomy (A n) v with h | h | h
    · have h1 : ¬ A n ≥ v := not_le.mpr h
      rw [if_neg h1, if_pos h.le, if_neg h.ne]; omega
    · rw [if_pos h.ge, if_pos h.le, if_pos h]; omega
    · have h1 : ¬ A n ≤ v := not_le.mpr h
      rw [if_pos h.le, if_neg h1, if_neg h.ne']; omega

theorem L3_partition_left (A : ℕ → ℝ) (n k : ℕ) (v : ℝ) (_hk : k ≤ n)
    (hlo : ∀ t < k, A t < v) (hhi : ∀ t, k ≤ t → t < n → A t ≥ v) :
    CGE A n v = n - k := by
  unfold CGE CNT
  have : (Finset.range n).filter (fun i => A i ≥ v) = Finset.Ico k n := by
    ext t
    simp only [Finset.mem_filter, Finset.mem_range, Finset.mem_Ico]
    constructor
    · rintro ⟨htn, hge⟩
      refine ⟨?_, htn⟩
      by_contra hlt
      exact absurd (hlo t (not_le.mp hlt)) (not_lt.mpr hge)
    · rintro ⟨hkt, htn⟩
      exact ⟨htn, hhi t hkt htn⟩
  rw [this, Nat.card_Ico]

theorem L3_partition_right (A : ℕ → ℝ) (n k : ℕ) (v : ℝ) (hk : k ≤ n)
    (hlo : ∀ t < k, A t ≤ v) (hhi : ∀ t, k ≤ t → t < n → A t > v) :
    CLE A n v = k := by
  unfold CLE CNT
  have : (Finset.range n).filter (fun i => A i ≤ v) = Finset.range k := by
    ext t
    simp only [Finset.mem_filter, Finset.mem_range]
    constructor
    · rintro ⟨htn, hle⟩
      by_contra hlt
      exact absurd (hhi t (not_lt.mp hlt) htn) (not_lt.mpr hle)
    · intro htk
      exact ⟨lt_of_lt_of_le htk hk, hlo t htk⟩
  rw [this, Finset.card_range]

theorem L3_monotone_ge (A : ℕ → ℝ) (n : ℕ) (v w : ℝ) (h : v ≤ w) :
    CGE A n w ≤ CGE A n v := by
  unfold CGE CNT
  apply Finset.card_le_card
  intro i hi
  simp only [Finset.mem_filter] at hi ⊢
  exact ⟨hi.1, le_trans h hi.2⟩

theorem L3_monotone_le (A : ℕ → ℝ) (n : ℕ) (v w : ℝ) (h : v ≤ w) :
    CLE A n v ≤ CLE A n w := by
  unfold CLE CNT
  apply Finset.card_le_card
  intro i hi
  simp only [Finset.mem_filter] at hi ⊢
  exact ⟨hi.1, le_trans hi.2 h⟩

theorem L3_monotone (A : ℕ → ℝ) (n : ℕ) (v w : ℝ) (h : v ≤ w) :
    CGE A n w ≤ CGE A n v ∧ CLE A n v ≤ CLE A n w :=
  ⟨L3_monotone_ge A n v w h, L3_monotone_le A n v w h⟩

/-! ## L4: congruence, constants -/

theorem L4_sum_congr (A A' : ℕ → ℝ) (n : ℕ) (h : ∀ i < n, A i = A' i) :
    SUM A n = SUM A' n :=
  Finset.sum_congr rfl (fun i hi => h i (Finset.mem_range.mp hi))

theorem L4_count_congr (B B' : ℕ → Prop) [DecidablePred B] [DecidablePred B'] (n : ℕ)
    (h : ∀ i < n, (B i ↔ B' i)) : CNT B n = CNT B' n := by
  unfold CNT
  rw [Finset.filter_congr (fun i hi => h i (Finset.mem_range.mp hi))]

theorem L4_sum_const (c : ℝ) (n : ℕ) : SUM (fun _ => c) n = n * c := by
  simp [SUM]

/-! ## L5: permutation invariance -/

theorem L5_perm_count (B : ℕ → Prop) [DecidablePred B] (n : ℕ) (σ : Equiv.Perm ℕ)
    (hσ : ∀ i, i < n ↔ σ i < n) : CNT (fun i => B (σ i)) n = CNT B n := by
  unfold CNT
  apply Finset.card_equiv σ
  intro i
  simp only [Finset.mem_filter, Finset.mem_range, hσ i]

theorem L5_perm_cge (A : ℕ → ℝ) (n : ℕ) (v : ℝ) (σ : Equiv.Perm ℕ)
    (hσ : ∀ i, i < n ↔ σ i < n) : CGE (fun i => A (σ i)) n v = CGE A n v :=
  L5_perm_count (fun i => A i ≥ v) n σ hσ

theorem L5_perm_cle (A : ℕ → ℝ) (n : ℕ) (v : ℝ) (σ : Equiv.Perm ℕ)
    (hσ : ∀ i, i < n ↔ σ i < n) : CLE (fun i => A (σ i)) n v = CLE A n v :=
  L5_perm_count (fun i => A i ≤ v) n σ hσ

theorem L5_perm_ceq (A : ℕ → ℝ) (n : ℕ) (v : ℝ) (σ : Equiv.Perm ℕ)
    (hσ : ∀ i, i < n ↔ σ i < n) : CEQ (fun i => A (σ i)) n v = CEQ A n v :=
  L5_perm_count (fun i => A i = v) n σ hσ

theorem L5_perm_sum (A : ℕ → ℝ) (n : ℕ) (σ : Equiv.Perm ℕ)
    (hσ : ∀ i, i < n ↔ σ i < n) : SUM (fun i => A (σ i)) n = SUM A n := by
  unfold SUM
  apply Finset.sum_equiv σ
  · intro i
    simp only [Finset.mem_range, hσ i]
  · intro i _
    rfl

/-! ## L1: fibre sums (histogram / `np.add.at`) -/

theorem L1_fibre_sum (idx : ℕ → ℕ) (n K : ℕ) :
    ∑ k ∈ Finset.range K, CNT (fun t => idx t = k) n = CNT (fun t => idx t < K) n := by
  induction n with
  | zero => simp [CNT]
  | succ n ih =>
    simp only [L0_count_unfold, Finset.sum_add_distrib, ih, Finset.sum_ite_eq,
      Finset.mem_range]

theorem L1_add_at_sum (old : ℕ → ℝ) (idx : ℕ → ℕ) (v : ℝ) (n K : ℕ)
    (h : ∀ t < n, idx t < K) :
    SUM (fun k => old k + v * (CNT (fun t => idx t = k) n : ℝ)) K = SUM old K + v * n := by
  unfold SUM
  rw [Finset.sum_add_distrib, ← Finset.mul_sum, ← Nat.cast_sum, L1_fibre_sum,
    L3b_count_all _ n h]

/-! ## L4: re-indexing over a mask selection (`A[mask]`, `np.where(mask)[0]`) -/

/-- strict monotonicity on `[0, m)` gives injectivity on `[0, m)` -/
private theorem sel_inj {sel : ℕ → ℕ} {m : ℕ}
    (hmono : ∀ a b, a < b → b < m → sel a < sel b)
    {a b : ℕ} (ha : a < m) (hb : b < m) (hab : sel a = sel b) : a = b := by
  rcases lt_trichotomy a b with h | h | h
  · exact absurd hab (ne_of_lt (hmono a b h hb))
  · exact h
  · exact absurd hab.symm (ne_of_lt (hmono b a h ha))

theorem L4_count_over_selection (sel : ℕ → ℕ) (mask g : ℕ → Prop)
    [DecidablePred mask] [DecidablePred g] (m n : ℕ)
    (hmono : ∀ a b, a < b → b < m → sel a < sel b)
    (hsel : ∀ j < m, sel j < n ∧ mask (sel j))
    (hsurj : ∀ i < n, mask i → ∃ j < m, sel j = i) :
    CNT (fun j => g (sel j)) m = CNT (fun i => mask i ∧ g i) n := by
  unfold CNT
  apply Finset.card_bij (fun j _ => sel j)
  · intro j hj
    simp only [Finset.mem_filter, Finset.mem_range] at hj ⊢
    exact ⟨(hsel j hj.1).1, (hsel j hj.1).2, hj.2⟩
  · intro a ha b hb hab
    simp only [Finset.mem_filter, Finset.mem_range] at ha hb
    exact sel_inj hmono ha.1 hb.1 hab
  · intro i hi
    simp only [Finset.mem_filter, Finset.mem_range] at hi
    obtain ⟨j, hjm, hji⟩ := hsurj i hi.1 hi.2.1
    refine ⟨j, ?_, hji⟩
    simp only [Finset.mem_filter, Finset.mem_range]
    exact ⟨hjm, hji ▸ hi.2.2⟩

theorem L4_sum_over_selection (sel : ℕ → ℕ) (mask : ℕ → Prop) (f : ℕ → ℝ)
    [DecidablePred mask] (m n : ℕ)
    (hmono : ∀ a b, a < b → b < m → sel a < sel b)
    (hsel : ∀ j < m, sel j < n ∧ mask (sel j))
    (hsurj : ∀ i < n, mask i → ∃ j < m, sel j = i) :
    SUM (fun j => f (sel j)) m = SUM (fun i => if mask i then f i else 0) n := by
  unfold SUM
  rw [← Finset.sum_filter]
  apply Finset.sum_bij (fun j _ => sel j)
  · intro j hj
    simp only [Finset.mem_filter, Finset.mem_range] at hj ⊢
    exact hsel j hj
  · intro a ha b hb hab
    simp only [Finset.mem_range] at ha hb
    exact sel_inj hmono ha hb hab
  · intro i hi
    simp only [Finset.mem_filter, Finset.mem_range] at hi
    obtain ⟨j, hjm, hji⟩ := hsurj i hi.1 hi.2
    exact ⟨j, Finset.mem_range.mpr hjm, hji⟩
  · intro j _
    rfl

theorem L4_count_over_selection_strictMonoOn (sel : ℕ → ℕ) (mask g : ℕ → Prop)
    [DecidablePred mask] [DecidablePred g] (m n : ℕ)
    (hmono : StrictMonoOn sel (Set.Iio m))
    (hsel : ∀ j < m, sel j < n ∧ mask (sel j))
    (hsurj : ∀ i < n, mask i → ∃ j < m, sel j = i) :
    CNT (fun j => g (sel j)) m = CNT (fun i => mask i ∧ g i) n :=
  L4_count_over_selection sel mask g m n
    (fun _ _ hab hb => hmono (Set.mem_Iio.mpr (hab.trans hb)) (Set.mem_Iio.mpr hb) hab)
    hsel hsurj

theorem L4_sum_over_selection_strictMonoOn (sel : ℕ → ℕ) (mask : ℕ → Prop) (f : ℕ → ℝ)
    [DecidablePred mask] (m n : ℕ)
    (hmono : StrictMonoOn sel (Set.Iio m))
    (hsel : ∀ j < m, sel j < n ∧ mask (sel j))
    (hsurj : ∀ i < n, mask i → ∃ j < m, sel j = i) :
    SUM (fun j => f (sel j)) m = SUM (fun i => if mask i then f i else 0) n :=
  L4_sum_over_selection sel mask f m n
    (fun _ _ hab hb => hmono (Set.mem_Iio.mpr (hab.trans hb)) (Set.mem_Iio.mpr hb) hab)
    hsel hsurj

/-! ## L2: marginals of a 2-d array -/

theorem L2_marginals (a : ℕ → ℕ → ℝ) (n0 n1 : ℕ) :
    ∑ i ∈ Finset.range n0, ∑ k ∈ Finset.range n1, a i k
      = ∑ k ∈ Finset.range n1, ∑ i ∈ Finset.range n0, a i k :=
  Finset.sum_comm

theorem L2_marginals_product (a : ℕ → ℕ → ℝ) (n0 n1 : ℕ) :
    ∑ p ∈ Finset.range n0 ×ˢ Finset.range n1, a p.1 p.2
        = ∑ i ∈ Finset.range n0, ∑ k ∈ Finset.range n1, a i k
    ∧ ∑ p ∈ Finset.range n0 ×ˢ Finset.range n1, a p.1 p.2
        = ∑ k ∈ Finset.range n1, ∑ i ∈ Finset.range n0, a i k :=
  ⟨Finset.sum_product' _ _ _, Finset.sum_product_right' _ _ _⟩

end PyvcLemmas

namespace PyvcLemmas

/-- L4_sum_prefix_mono: prefix sums of an array that is non-negative on `[0, j)` are non-decreasing. -/
theorem L4_sum_prefix_mono (A : ℕ → ℝ) (n j : ℕ) (hnj : n ≤ j) (hpos : ∀ i < j, 0 ≤ A i) :
    SUM A n ≤ SUM A j := by
  unfold SUM
  apply Finset.sum_le_sum_of_subset_of_nonneg
  · intro x hx
    simp only [Finset.mem_range] at hx ⊢
    omega
  · intro i hi _
    simp only [Finset.mem_range] at hi
    exact hpos i hi

end PyvcLemmas

namespace PyvcLemmas

/-! ## L4: point update of a summed array -/

/-- Writing `v` at position `k < n` changes the sum by `v - A k` (used for the rejection samplers of the binary / Brier
tests: `sim[loc] = 1` on a 0/1 array). -/
theorem L4_sum_point_update (A : ℕ → ℝ) (n k : ℕ) (v : ℝ) (hk : k < n) :
    SUM (fun i => if i = k then v else A i) n = SUM A n - A k + v := by
  unfold SUM
  have hmem : k ∈ Finset.range n := Finset.mem_range.mpr hk
  rw [← Finset.add_sum_erase _ _ hmem, ← Finset.add_sum_erase (Finset.range n) A hmem]
  have : ∑ x ∈ (Finset.range n).erase k, (if x = k then v else A x) = ∑ x ∈ (Finset.range n).erase k, A x := by
    apply Finset.sum_congr rfl
    intro x hx
    have : x ≠ k := (Finset.mem_erase.mp hx).1
    simp [this]
  rw [this]
  simp
  ring

end PyvcLemmas

namespace PyvcLemmas

/-! ## L1w: weighted fibre sum (group sums of `numpy.unique(.., return_counts=True)`) -/

/-- Summing `count of group k` times `F k` over the groups is summing `F (group of i)` over the elements
(tie correction of the W-test: `sum_g c_g (c_g^2 - 1) = sum_i (c_{g(i)}^2 - 1)`). -/
theorem L1_fibre_weighted (g : ℕ → ℕ) (F : ℕ → ℝ) (n K : ℕ) (h : ∀ i < n, g i < K) :
    SUM (fun k => (CNT (fun i => g i = k) n : ℝ) * F k) K = SUM (fun i => F (g i)) n := by
  induction n with
  | zero => simp [SUM, CNT]
  | succ n ih =>
    have hn : ∀ i < n, g i < K := fun i hi => h i (Nat.lt_succ_of_lt hi)
    have hg : g n < K := h n (Nat.lt_succ_self n)
    rw [L0_sum_unfold (fun i => F (g i)) n, ← ih hn]
    unfold SUM
    simp only [L0_count_unfold]
    push_cast
    simp only [add_mul, Finset.sum_add_distrib]
    congr 1
    rw [Finset.sum_eq_single (g n)]
    · simp
    · intro b _ hb
      have : ¬ (g n = b) := fun e => hb e.symm
      simp [this]
    · intro hnot
      exact absurd (Finset.mem_range.mpr hg) hnot

/-- Midranks: with `lt i = #{j : a j < a i}` and `eq i = #{j : a j = a i}` the rank `lt i + (eq i + 1)/2` is strictly
monotone in the value, hence two elements have equal ranks exactly when they have equal values. -/
theorem L7_midrank_strict (a : ℕ → ℝ) (n i j : ℕ) (_hi : i < n) (hj : j < n) (hlt : a i < a j) :
    ((CNT (fun t => a t < a i) n : ℝ) + ((CNT (fun t => a t = a i) n : ℝ) + 1) / 2)
      < (CNT (fun t => a t < a j) n : ℝ) + ((CNT (fun t => a t = a j) n : ℝ) + 1) / 2 := by
  have hsub : CNT (fun t => a t < a i) n + CNT (fun t => a t = a i) n ≤ CNT (fun t => a t < a j) n := by
    unfold CNT
    rw [← Finset.card_union_of_disjoint]
    · apply Finset.card_le_card
      intro t ht
      simp only [Finset.mem_union, Finset.mem_filter] at ht ⊢
      rcases ht with ⟨hr, h1⟩ | ⟨hr, h1⟩
      · exact ⟨hr, lt_trans h1 hlt⟩
      · exact ⟨hr, by rw [h1]; exact hlt⟩
    · rw [Finset.disjoint_filter]
      intro t _ h1 h2
      exact absurd h2 (ne_of_lt h1)
  have hpos : 1 ≤ CNT (fun t => a t = a j) n := by
    unfold CNT
    apply Finset.card_pos.mpr
    exact ⟨j, by simp [Finset.mem_filter, hj]⟩
  have h1 : ((CNT (fun t => a t < a i) n : ℝ) + (CNT (fun t => a t = a i) n : ℝ)) ≤ (CNT (fun t => a t < a j) n : ℝ) := by
    exact_mod_cast hsub
  have h2 : (1 : ℝ) ≤ (CNT (fun t => a t = a j) n : ℝ) := by exact_mod_cast hpos
  have h3 : (0 : ℝ) ≤ (CNT (fun t => a t = a i) n : ℝ) := by positivity
  linarith

end PyvcLemmas

namespace PyvcLemmas

/-- converse of `L3b_count_none`: a zero count means no index satisfies the predicate -/
theorem L3b_count_zero_imp (B : ℕ → Prop) [DecidablePred B] (n : ℕ) (h : CNT B n = 0) :
    ∀ i < n, ¬ B i := by
  unfold CNT at h
  rw [Finset.card_eq_zero, Finset.filter_eq_empty_iff] at h
  intro i hi
  exact h (Finset.mem_range.mpr hi)

end PyvcLemmas

namespace PyvcLemmas

/-- integer sums: `ISUM A n = sum_{i<n} A i` over the integers; its cast to the reals is the real sum of the casts -/
def ISUM (A : ℕ → ℤ) (n : ℕ) : ℤ := ∑ i ∈ Finset.range n, A i

theorem L0_isum_cast (A : ℕ → ℤ) (n : ℕ) : ((ISUM A n : ℤ) : ℝ) = SUM (fun i => (A i : ℝ)) n := by
  unfold ISUM SUM
  push_cast
  rfl

end PyvcLemmas

namespace PyvcLemmas

/-- a non-zero sum has a non-zero summand (used: a catalog forecast with a non-zero expected count has a non-empty catalog) -/
theorem L4_sum_ne_zero_exists (A : ℕ → ℝ) (n : ℕ) (h : SUM A n ≠ 0) : ∃ i < n, A i ≠ 0 := by
  by_contra hne
  push Not at hne
  apply h
  unfold SUM
  apply Finset.sum_eq_zero
  intro i hi
  exact hne i (Finset.mem_range.mp hi)

/-- a predicate that holds somewhere below n is counted at least once -/
theorem L3b_count_pos (B : ℕ → Prop) [DecidablePred B] (n i : ℕ) (hi : i < n) (hb : B i) : 1 ≤ CNT B n := by
  unfold CNT
  apply Finset.card_pos.mpr
  exact ⟨i, by simp [Finset.mem_filter, hi, hb]⟩

end PyvcLemmas

namespace PyvcLemmas

/-- prefix counts are monotone ... -/
theorem L3_count_prefix_mono (B : ℕ → Prop) [DecidablePred B] (s i : ℕ) (h : s ≤ i) : CNT B s ≤ CNT B i := by
  unfold CNT
  apply Finset.card_le_card
  apply Finset.filter_subset_filter
  exact Finset.range_mono h

/-- ... and strictly so across an index that is counted (position of the entries of a list built by conditional appends:
the entry of the s-th element, if it was appended, sits at index `CNT B s`, below the current length `CNT B i`) -/
theorem L3_count_prefix_lt (B : ℕ → Prop) [DecidablePred B] (s i : ℕ) (h : s < i) (hb : B s) : CNT B s < CNT B i := by
  have h1 := L3_count_prefix_mono B (s + 1) i (Nat.succ_le_of_lt h)
  rw [L0_count_unfold] at h1
  simp [hb] at h1
  omega

end PyvcLemmas

namespace PyvcLemmas

/-- the sum of the negated terms is the negated sum (antisymmetry of the paired T-test) -/
theorem L4_sum_neg (A : ℕ → ℝ) (n : ℕ) : SUM (fun i => -A i) n = -SUM A n := by
  unfold SUM
  simp [Finset.sum_neg_distrib]

end PyvcLemmas
