/-
  PyvcLemmas / Filter.lean
  List-filter facts (L6) handed to the SMT solver as axioms by the pyvc framework.
  Predicates are Boolean-valued (`α → Bool`), as `List.filter` requires; this is the
  faithful model of a Python boolean mask / predicate.  Only Lean core is needed.
-/

namespace PyvcLemmas

variable {α : Type _}

/-- Filtering twice is filtering by the conjunction. -/
theorem L6_filter_filter (p q : α → Bool) (l : List α) :
    (l.filter p).filter q = l.filter (fun x => p x && q x) := by
  induction l with
  | nil => rfl
  | cons a t ih =>
    cases hp : p a <;> cases hq : q a <;> simp [hp, hq, ih]

/-- Filters commute. -/
theorem L6_filter_comm (p q : α → Bool) (l : List α) :
    (l.filter p).filter q = (l.filter q).filter p := by
  rw [L6_filter_filter, L6_filter_filter]
  congr 1
  funext x
  exact Bool.and_comm _ _

/-- Filtering is idempotent. -/
theorem L6_filter_idem (p : α → Bool) (l : List α) :
    (l.filter p).filter p = l.filter p := by
  rw [L6_filter_filter]
  congr 1
  funext x
  exact Bool.and_self _

/-- A filtered list is a sublist (order-preserving subsequence) of the original. -/
theorem L6_filter_sublist (p : α → Bool) (l : List α) :
    (l.filter p).Sublist l :=
  List.filter_sublist

end PyvcLemmas
