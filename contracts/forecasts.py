"""Contracts for csep/core/forecasts.py: scaling as an object invariant, marginals (property C11)."""
import z3

from pyvc.contracts import contract
from pyvc.core import Arr, Obj, Opaque, to_real, to_z3
from pyvc.lib import SUM
from pyvc.models_time import mk_dt
from contracts.evals import rsum, _flat, _size

GDS = 'csep.core.forecasts.GriddedDataSet'
MGDS = 'csep.core.forecasts.MarkedGriddedDataSet'
GF = 'csep.core.forecasts.GriddedForecast'
DY = z3.Function('decimal_year_of_us', z3.IntSort(), z3.RealSort())     # abstract decimal_year (its own contract: C15, bounded)


def mk_dataset(c, cls=GDS, **extra):
    """a data set built by the REAL constructor(s) on symbolic stored rates D0, then given an arbitrary current factor"""
    n0, n1 = c.int('n0'), c.int('n1')
    c.ctx.assume(z3.And(n0 >= 0, n1 >= 1))
    D0 = c.arr2('D0', 'float64', (n0, n1))
    s = c.real('s0')
    klass = c.I.repo.locate_class(cls, c.I)
    if cls == GDS:
        o = c.I.instantiate(klass, [], dict(data=D0, region=None, name='fc'))
    else:
        region = c.obj('csep.core.regions.CartesianGrid2D', name='region')
        region.abstract = False        # create_space_magnitude_region binds magnitudes to it
        mags = c.arr('magnitudes', 'float64', n=n1)
        kw = dict(magnitudes=mags, data=D0, region=region, name='fc')
        kw.update(extra)
        o = c.I.instantiate(klass, [], kw)
    o.fields['_scale'] = s             # any earlier scaling: the factor is arbitrary
    o.written = set()
    return o, D0, s


@contract
class Scale:
    qualname = GDS + '.scale'
    case = 'scalar factor'
    properties = ('C11',)

    def params(c):
        o, D0, s = mk_dataset(c)
        return dict(self=o, val=c.real('val'), _D0=D0, _f0=D0.f)

    def ensures(c, r, self, val, _D0, _f0):
        yield 'returns self', z3.BoolVal(r is self)
        yield 'factor is replaced, not accumulated', to_real(self.fields['_scale']) == val
        yield 'stored rates untouched (frame)', z3.BoolVal(self.fields['_data'] is _D0 and _D0.f is _f0)
        yield 'nothing else written', z3.BoolVal(self.written <= {'_scale'})


@contract
class Data:
    qualname = GDS + '.data'
    case = 'scalar factor'
    properties = ('C11',)

    def params(c):
        o, D0, s = mk_dataset(c)
        return dict(self=o, _D0=D0, _s=s)

    def ensures(c, r, self, _D0, _s):
        i, k = c.ctx.fresh_int('i!sk'), c.ctx.fresh_int('k!sk')
        yield 'same shape', z3.BoolVal(isinstance(r, Arr) and r.ndim == 2)
        yield 'data == stored rates x current factor', z3.Implies(
            z3.And(0 <= i, i < to_z3(_D0.shape[0]), 0 <= k, k < to_z3(_D0.shape[1])),
            to_real(r.f((i, k))) == to_real(_D0.f((i, k))) * _s)
        yield 'reading does not write', z3.BoolVal(not self.written)


@contract
class ScaleTwice:
    """object invariant as a lemma over the real bodies: after any two scale calls data = D0 * last factor"""
    qualname = 'lemma:' + GDS + '.scale;scale;data'
    case = 'two consecutive scale calls'
    properties = ('C11',)

    def lemma(c):
        o, D0, s = mk_dataset(c)
        a, b = c.real('a'), c.real('b')
        c.inline(GDS + '.sum', o)                     # the total is read before any scaling, too
        c.inline(GDS + '.scale', o, a)
        c.inline(GDS + '.scale', o, b)
        d = c.I.getattr(o, 'data')
        i, k = c.ctx.fresh_int('i!sk'), c.ctx.fresh_int('k!sk')
        yield 'data == original x LAST factor (absolute, never cumulative)', z3.Implies(
            z3.And(0 <= i, i < to_z3(D0.shape[0]), 0 <= k, k < to_z3(D0.shape[1])),
            to_real(d.f((i, k))) == to_real(D0.f((i, k))) * b)
        tot = c.inline(GDS + '.sum', o)
        yield 'total == sum of original x last factor', to_real(tot) == rsum(lambda t: to_real(_flat(D0, t)) * b, _size(D0))


@contract
class Marginals:
    qualname = 'lemma:' + MGDS + '.marginals'
    case = 'spatial and magnitude marginals'
    properties = ('C11', 'C05')

    def lemma(c):
        o, D0, s = mk_dataset(c, MGDS)
        sc = c.inline(MGDS + '.spatial_counts', o)
        mc = c.inline(MGDS + '.magnitude_counts', o)
        i, k = c.ctx.fresh_int('i!sk'), c.ctx.fresh_int('k!sk')
        n0, n1 = D0.shape
        yield 'spatial_counts()[i] == sum_k data[i,k]', z3.Implies(
            z3.And(0 <= i, i < to_z3(n0)), to_real(sc.f((i,))) == rsum(lambda t: to_real(D0.f((i, t))) * s, n1))
        yield 'magnitude_counts()[k] == sum_i data[i,k]', z3.Implies(
            z3.And(0 <= k, k < to_z3(n1)), to_real(mc.f((k,))) == rsum(lambda t: to_real(D0.f((t, k))) * s, n0))


class _ScaleToTestDate:
    qualname = GF + '.scale_to_test_date'
    properties = ('C11',)
    where = 'inside'

    @classmethod
    def params(cls, c):
        st, en, t = c.int('start_us'), c.int('end_us'), c.int('test_us')
        o, D0, s = mk_dataset(c, GF, start_time=mk_dt(st, None), end_time=mk_dt(en, None))
        return dict(self=o, test_datetime=mk_dt(t, None), _D0=D0, _f0=D0.f, _s=s, _t=(st, en, t))

    @classmethod
    def requires(cls, c, self, test_datetime, _D0, _f0, _s, _t):
        st, en, t = _t
        if cls.where == 'inside':
            return [st < t, t < en]
        return [z3.Or(t >= en, t <= st)]

    @classmethod
    def ensures(cls, c, r, self, test_datetime, _D0, _f0, _s, _t):
        st, en, t = _t
        yield 'returns self', z3.BoolVal(r is self)
        yield 'stored rates untouched (frame)', z3.BoolVal(self.fields['_data'] is _D0 and _D0.f is _f0)
        if cls.where == 'inside':
            day = 86400 * 1000000
            yield 'factor == documented fraction of the forecast duration (end of test day)', \
                to_real(self.fields['_scale']) == (DY(t + day) - DY(st)) / (DY(en) - DY(st))
        else:
            # documented: "if datetime is before the start_date or after the end_date, we will scale the forecast by unity"
            yield 'outside (start, end): scaled by unity (absolute, an earlier factor does not survive)', \
                to_real(self.fields['_scale']) == 1


@contract
class ScaleToTestDateInside(_ScaleToTestDate):
    case = 'start < test date < end'
    where = 'inside'


@contract
class ScaleToTestDateOutside(_ScaleToTestDate):
    case = 'test date outside (start, end)'
    where = 'outside'


@contract
class DecimalYear:
    """abstract contract used modularly (decimal_year itself: calendar decomposition, bounded only)"""
    qualname = 'csep.utils.time_utils.decimal_year'
    case = 'datetime'
    modular_only = True

    def params(c):
        return dict(test_date=mk_dt(c.int('us'), None))

    def accepts(c, test_date):
        return isinstance(test_date, Opaque) and test_date.name == 'datetime'

    def ensures(c, r, test_date):
        return []

    def result(c, test_date):
        return DY(to_z3(test_date.us))
