"""Contracts for csep/core/forecasts.py: scaling as an object invariant, marginals (property C11)."""
import z3

from pyvc.contracts import contract
from pyvc.core import Arr, Obj, Opaque, rv, to_real, to_z3
from pyvc.lib import SUM
from pyvc.models_time import mk_dt
from contracts.evals import rsum, _flat, _size

GDS = 'csep.core.forecasts.GriddedDataSet'
MGDS = 'csep.core.forecasts.MarkedGriddedDataSet'
GF = 'csep.core.forecasts.GriddedForecast'
DY = z3.Function('decimal_year_of_us', z3.IntSort(), z3.RealSort())     # abstract decimal_year (its own contract: C15, bounded)


def mk_dataset(c, cls=GDS, **extra):
    """a data set built by the REAL constructor(s) on symbolic stored rates D0, then given an arbitrary current factor"""
    n0, n1 = c.int('n0'), c.int('n1')
    c.ctx.assume(z3.And(n0 >= 0, n1 >= 1))
    D0 = c.arr2('D0', 'float64', (n0, n1))
    s = c.real('s0')
    klass = c.I.repo.locate_class(cls, c.I)
    if cls == GDS:
        o = c.I.instantiate(klass, [], dict(data=D0, region=None, name='fc'))
    else:
        region = c.obj('csep.core.regions.CartesianGrid2D', name='region')
        region.abstract = False        # create_space_magnitude_region binds magnitudes to it
        mags = c.arr('magnitudes', 'float64', n=n1)
        kw = dict(magnitudes=mags, data=D0, region=region, name='fc')
        kw.update(extra)
        o = c.I.instantiate(klass, [], kw)
    o.fields['_scale'] = s             # any earlier scaling: the factor is arbitrary
    o.written = set()
    return o, D0, s


def _directed_scaling():
    """concrete forecast files with sequences of scale / scale_to_test_date calls (conventions of rt/oracles_io.forecast_ascii)"""
    two = [[0, 0], [1, 0], [0, 1]]
    base = {'lon0': '10', 'lat0': '40', 'dh': '0.5', 'cells': two, 'mags': ['4.95', '5.05'], 'dmag': '0.1',
            'start': '2020-01-01 00:00:00', 'end': '2021-01-01 00:00:00'}
    fam = []
    for ops in ([['scale', 2.0], ['scale', 3.0]], [['scale', 0.5], ['date', '2020-07-01 00:00:00'], ['scale', 4.0]],
                [['scale', 3.0], ['date', '2022-01-01 00:00:00']], [['date', '2020-03-01 00:00:00'], ['date', '2020-09-01 00:00:00']]):
        fam.append(('forecast_ascii', dict(base, ops=ops)))
    return fam


@contract
class Scale:
    directed = staticmethod(_directed_scaling)
    qualname = GDS + '.scale'
    case = 'scalar factor'
    properties = ('C11',)

    def params(c):
        o, D0, s = mk_dataset(c)
        return dict(self=o, val=c.real('val'), _D0=D0, _f0=D0.f)

    def ensures(c, r, self, val, _D0, _f0):
        yield 'returns self', z3.BoolVal(r is self)
        yield 'factor is replaced, not accumulated', to_real(self.fields['_scale']) == val
        yield 'stored rates untouched (frame)', z3.BoolVal(self.fields['_data'] is _D0 and _D0.f is _f0)
        yield 'nothing else written', z3.BoolVal(self.written <= {'_scale'})


@contract
class Data:
    qualname = GDS + '.data'
    case = 'scalar factor'
    properties = ('C11',)

    def params(c):
        o, D0, s = mk_dataset(c)
        return dict(self=o, _D0=D0, _s=s)

    def ensures(c, r, self, _D0, _s):
        i, k = c.ctx.fresh_int('i!sk'), c.ctx.fresh_int('k!sk')
        yield 'same shape', z3.BoolVal(isinstance(r, Arr) and r.ndim == 2)
        yield 'data == stored rates x current factor', z3.Implies(
            z3.And(0 <= i, i < to_z3(_D0.shape[0]), 0 <= k, k < to_z3(_D0.shape[1])),
            to_real(r.f((i, k))) == to_real(_D0.f((i, k))) * _s)
        yield 'reading does not write', z3.BoolVal(not self.written)


@contract
class ScaleTwice:
    """object invariant as a lemma over the real bodies: after any two scale calls data = D0 * last factor"""
    directed = staticmethod(_directed_scaling)
    qualname = 'lemma:' + GDS + '.scale;scale;data'
    case = 'two consecutive scale calls'
    properties = ('C11',)

    def lemma(c):
        o, D0, s = mk_dataset(c)
        a, b = c.real('a'), c.real('b')
        c.inline(GDS + '.sum', o)                     # the total is read before any scaling, too
        c.inline(GDS + '.scale', o, a)
        c.inline(GDS + '.scale', o, b)
        d = c.I.getattr(o, 'data')
        i, k = c.ctx.fresh_int('i!sk'), c.ctx.fresh_int('k!sk')
        yield 'data == original x LAST factor (absolute, never cumulative)', z3.Implies(
            z3.And(0 <= i, i < to_z3(D0.shape[0]), 0 <= k, k < to_z3(D0.shape[1])),
            to_real(d.f((i, k))) == to_real(D0.f((i, k))) * b)
        tot = c.inline(GDS + '.sum', o)
        yield 'total == sum of original x last factor', to_real(tot) == rsum(lambda t: to_real(_flat(D0, t)) * b, _size(D0))


@contract
class Marginals:
    qualname = 'lemma:' + MGDS + '.marginals'
    case = 'spatial and magnitude marginals'
    properties = ('C11', 'C05')

    def lemma(c):
        o, D0, s = mk_dataset(c, MGDS)
        sc = c.inline(MGDS + '.spatial_counts', o)
        mc = c.inline(MGDS + '.magnitude_counts', o)
        i, k = c.ctx.fresh_int('i!sk'), c.ctx.fresh_int('k!sk')
        n0, n1 = D0.shape
        yield 'spatial_counts()[i] == sum_k data[i,k]', z3.Implies(
            z3.And(0 <= i, i < to_z3(n0)), to_real(sc.f((i,))) == rsum(lambda t: to_real(D0.f((i, t))) * s, n1))
        yield 'magnitude_counts()[k] == sum_i data[i,k]', z3.Implies(
            z3.And(0 <= k, k < to_z3(n1)), to_real(mc.f((k,))) == rsum(lambda t: to_real(D0.f((t, k))) * s, n0))


@contract
class EventCount:
    qualname = 'lemma:' + MGDS + '.event_count'
    case = 'total expected count'
    properties = ('C11',)

    def lemma(c):
        o, D0, s = mk_dataset(c, MGDS)
        ec = c.I.getattr(o, 'event_count')
        n0, n1 = D0.shape
        flat = lambda t: to_real(_flat(D0, t)) * s
        yield 'event_count == sum over all cells and magnitude bins of stored rate x current factor', \
            to_real(ec) == rsum(flat, _size(D0))


class _ScaleToTestDate:
    qualname = GF + '.scale_to_test_date'
    properties = ('C11',)
    where = 'inside'

    @classmethod
    def params(cls, c):
        st, en, t = c.int('start_us'), c.int('end_us'), c.int('test_us')
        o, D0, s = mk_dataset(c, GF, start_time=mk_dt(st, None), end_time=mk_dt(en, None))
        return dict(self=o, test_datetime=mk_dt(t, None), _D0=D0, _f0=D0.f, _s=s, _t=(st, en, t))

    @classmethod
    def requires(cls, c, self, test_datetime, _D0, _f0, _s, _t):
        st, en, t = _t
        if cls.where == 'inside':
            return [st < t, t < en]
        return [z3.Or(t >= en, t <= st)]

    @classmethod
    def ensures(cls, c, r, self, test_datetime, _D0, _f0, _s, _t):
        st, en, t = _t
        yield 'returns self', z3.BoolVal(r is self)
        yield 'stored rates untouched (frame)', z3.BoolVal(self.fields['_data'] is _D0 and _D0.f is _f0)
        if cls.where == 'inside':
            day = 86400 * 1000000
            yield 'factor == documented fraction of the forecast duration (end of test day)', \
                to_real(self.fields['_scale']) == (DY(t + day) - DY(st)) / (DY(en) - DY(st))
        else:
            # documented: "if datetime is before the start_date or after the end_date, we will scale the forecast by unity"
            yield 'outside (start, end): scaled by unity (absolute, an earlier factor does not survive)', \
                to_real(self.fields['_scale']) == 1


@contract
class ScaleToTestDateInside(_ScaleToTestDate):
    case = 'start < test date < end'
    where = 'inside'


@contract
class ScaleToTestDateOutside(_ScaleToTestDate):
    case = 'test date outside (start, end)'
    where = 'outside'


@contract
class DecimalYear:
    """abstract contract used modularly (decimal_year itself: calendar decomposition, bounded only)"""
    qualname = 'csep.utils.time_utils.decimal_year'
    case = 'datetime'
    modular_only = True

    def params(c):
        return dict(test_date=mk_dt(c.int('us'), None))

    def accepts(c, test_date):
        return isinstance(test_date, Opaque) and test_date.name == 'datetime'

    def ensures(c, r, test_date):
        return []

    def result(c, test_date):
        return DY(to_z3(test_date.us))


# ---------------------------------------------------------------------------------------------------
# target-event rates (property C08: what the paired T- and W-tests read off the forecasts)
# ---------------------------------------------------------------------------------------------------
from contracts.regions import Lattice
from contracts.calc import grid, Bin1d_f64
from contracts.catalogs import mk_catalog, last_call, GET_INDEX_OF, BIN1D


def _forecast_on_lattice(c, **extra):
    """a GriddedForecast built by the real constructors on a lattice region (RI) with equally spaced magnitude edges"""
    L = Lattice(c)
    mags = grid(c, 'magnitudes', 'float64')
    region = L.obj(c, magnitudes=mags)
    region.abstract = False
    n1 = to_z3(mags.shape[0])
    D0 = c.arr2('D0', 'float64', (L.N, n1))
    klass = c.I.repo.locate_class(GF, c.I)
    o = c.I.instantiate(klass, [], dict(data=D0, region=region, magnitudes=mags, name='fc', **extra))
    s = c.real('s0')
    o.fields['_scale'] = s
    o.written = set()
    return o, L, mags, D0, s


def _directed_pairs_ter(scale):
    from contracts.evals import _directed_pairs
    return _directed_pairs('paired_t_test_public', scale, alpha=0.05)


def target_rates_case(scale):
    class TER:
        directed = staticmethod(lambda: _directed_pairs_ter(scale))
        qualname = GF + '.target_event_rates'
        case = 'lattice region (RI), equally spaced magnitude edges, scale=%s' % scale
        properties = ('C08',)

        def params(c):
            st, en = c.int('start_us'), c.int('end_us')
            o, L, mags, D0, s = _forecast_on_lattice(c, start_time=mk_dt(st, None), end_time=mk_dt(en, None))
            cat, data = mk_catalog(c, region=None)
            return dict(self=o, target_catalog=cat, scale=scale, _v=dict(L=L, mags=mags, D0=D0, s=s, data=data, st=st, en=en))

        def requires(c, self, target_catalog, scale, _v):
            L, mags, data = _v['L'], _v['mags'], _v['data']
            days = (_v['en'] - _v['st']) / (86400 * 1000000)
            return (L.RI() + L.grid_requires(c, data.fields['longitude'])
                    + Bin1d_f64.requires(c, data.fields['magnitude'], mags, None, True) + [to_real(mags.grid[1]) >= 0]
                    + ([_v['en'] - _v['st'] >= 86400 * 1000000] if scale else []))

        def raises(c, exc, self, target_catalog, scale, _v):
            # the lookups may reject events outside the region / below the first magnitude edge: their contracts say when
            if exc.name == 'ValueError':
                return []
            return None

        def ensures(c, r, self, target_catalog, scale, _v):
            L, mags, D0, s, data = _v['L'], _v['mags'], _v['D0'], _v['s'], _v['data']
            n = data.n
            yield 'returns (rates, total)', z3.BoolVal(isinstance(r, tuple) and len(r) == 2 and isinstance(r[0], Arr))
            rates, tot = r
            gio = last_call(c, GET_INDEX_OF)
            bins = [x for x in c.calls(BIN1D)]
            yield 'cell index from the region lookup, magnitude index from the magnitude edges', z3.BoolVal(gio is not None and len(bins) >= 1)
            if gio is None or not bins:
                return
            idx, idm = gio[2], bins[-1][2]
            e = c.ctx.fresh_int('e!sk')
            if scale:
                days = c.ctx.fresh_int('days')
                us = _v['en'] - _v['st']
                c.ctx.assume(z3.And(days * 86400 * 1000000 <= us, us < (days + 1) * 86400 * 1000000))
                f = s / z3.ToReal(days)
            else:
                f = s
            yield 'one rate per target event', to_z3(rates.shape[0]) == n
            yield 'rate of event e == (scaled) forecast rate of its space-magnitude bin', z3.Implies(
                z3.And(0 <= e, e < n),
                to_real(rates.f((e,))) == to_real(D0.f((to_z3(idx.f((e,))), to_z3(idm.f((e,)))))) * f)
            lo, la, mg = gio[1]['lons'], gio[1]['lats'], bins[-1][1]['p']
            yield 'the region lookup is asked for the event epicentres, the magnitude lookup for the event magnitudes', z3.Implies(
                z3.And(0 <= e, e < n), z3.And(to_real(lo.f((e,))) == to_real(data.fields['longitude'].f((e,))),
                                              to_real(la.f((e,))) == to_real(data.fields['latitude'].f((e,))),
                                              to_real(mg.f((e,))) == to_real(data.fields['magnitude'].f((e,)))))
            yield 'total == sum of all (scaled) rates', to_real(tot) == rsum(lambda t: to_real(_flat(D0, t)) * f, _size(D0))
            yield 'the forecast itself is not modified', z3.BoolVal(not self.written)
    TER.__name__ = 'TargetEventRates_%s' % scale
    return TER


from pyvc.contracts import REG as _REG2
for _sc in (False, True):
    _REG2.add(target_rates_case(_sc))


# ---------------------------------------------------------------------------------------------------
# C11: rate lookup.  For a point inside the half-open cell of an active cell i and a magnitude inside bin k, get_rates returns
# the (scaled) rate stored for (i, k) - lower corner included, upper edges excluded (up to the documented tolerance zone)
# ---------------------------------------------------------------------------------------------------
@contract
class GetRates:
    directed = staticmethod(_directed_scaling)     # forecast files looked up after sequences of scale / scale_to_test_date calls
    qualname = GF + '.get_rates'
    case = 'forecast on a lattice region (RI) with equally spaced magnitude edges; arrays of points'
    properties = ('C11',)

    def params(c):
        o, L, mags, D0, s = _forecast_on_lattice(c)
        n = c.int('n_points')
        c.ctx.assume(n >= 0)
        return dict(self=o, lons=c.arr('lons', 'float64', n=n), lats=c.arr('lats', 'float64', n=n), mags=c.arr('mags', 'float64', n=n),
                    data=None, ret_inds=False, _v=dict(L=L, grid=mags, D0=D0, s=s))

    def requires(c, self, lons, lats, mags, data, ret_inds, _v):
        L, g = _v['L'], _v['grid']
        return (L.RI() + L.grid_requires(c, lons) + Bin1d_f64.requires(c, mags, g, None, True) + [to_real(g.grid[1]) > 0])

    def raises(c, exc, self, lons, lats, mags, data, ret_inds, _v):
        if exc.name == 'ValueError':
            return []          # a point outside the region / a magnitude below the first edge: the lookups' own contracts say when
        return None

    def ensures(c, r, self, lons, lats, mags, data, ret_inds, _v):
        L, g, D0, s = _v['L'], _v['grid'], _v['D0'], _v['s']
        m0, dm, nm = g.grid
        yield 'one rate per point', z3.And(z3.BoolVal(isinstance(r, Arr) and r.ndim == 1), to_z3(r.shape[0]) == to_z3(lons.shape[0]))
        e, i, k = c.ctx.fresh_int('e!sk'), c.ctx.fresh_int('i!sk'), c.ctx.fresh_int('k!sk')
        lon, lat, mag = to_real(lons.f((e,))), to_real(lats.f((e,))), to_real(mags.f((e,)))
        # the magnitude lookup's contract at point e and edge k
        bins = [x for x in c.calls(BIN1D)]
        if bins:
            for f in bins[-1][2].ghost['bin1d'](e, k):
                c.ctx.assume(f)
        from contracts.calc import TOL, zabs
        tau = rv(TOL['float64']) * (zabs(mag) + (z3.ToReal(k) + 2) * zabs(to_real(m0)))
        in_bin = z3.And(0 <= k, k < nm, mag >= to_real(m0) + z3.ToReal(k) * to_real(dm),
                        z3.Or(k == nm - 1, mag < to_real(m0) + (z3.ToReal(k) + 1) * to_real(dm) - tau))
        yield 'a point inside cell i with a magnitude inside bin k (last bin open at the top) gets the stored rate of (i, k) x the current factor', \
            z3.Implies(z3.And(0 <= e, e < to_z3(lons.shape[0]), 0 <= i, i < L.N, L.active(i), L.inside(i, lon, lat), in_bin),
                       to_real(r.f((e,))) == to_real(D0.f((i, k))) * s)
