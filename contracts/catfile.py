"""Property C12: CSEPCatalog.load_ascii_catalogs decodes a catalog-forecast file to exactly the catalogs it encodes.

What is proved: the state machine of the generator - grouping of rows by catalog id, placeholder rows, omitted (empty)
catalogs before the first id and in gaps, the final catalog, the order of events inside a catalog, the order of the fields
inside an event, rejection of decreasing ids - for files of ANY number of rows (loop invariant over the rows, inner loop
invariant over the omitted catalogs).  The generator is identified with the sequence of values it yields.

What is assumed (string layer, outside the engine): float() / int() / `== ''` / strptime on the fields of a row are
uninterpreted functions of (row, column) (pyvc/models_io.py); csv.reader yields the rows in file order; the class
constructor `cls(data=.., catalog_id=..)` is an abstract record constructor (the real constructor is C14's subject).

Abstract lists: the events of a catalog are a value of an uninterpreted sort `RowList` built by NIL / APP(list, row);
ROWS(k, t) is the list of the non-placeholder rows s < t with id k, in file order (unfolding law below; instances are given
to the solver where needed, the laws are proved for the list model in lemmas/Filter.lean)."""
import z3

from pyvc.contracts import contract, LoopInv, REG
from pyvc.core import Opaque, Lam, SymList, PyRaise, Unsupported, builtin_exc, simp, to_z3
from pyvc.models_io import FLOAT_OK, FLOAT_VAL, INT_VAL, IS_EMPTY, IS_LON, csv_row

Q = 'csep.core.catalogs.CSEPCatalog.load_ascii_catalogs'
STRP = 'csep.utils.time_utils.strptime_to_utc_epoch'

RowList = z3.DeclareSort('RowList')
Rec = z3.DeclareSort('CatalogRecord')
NIL = z3.Const('nil', RowList)
APP = z3.Function('append_row', RowList, z3.IntSort(), RowList)
ROWS = z3.Function('rows_of_catalog', z3.IntSort(), z3.IntSort(), RowList)     # ROWS(k, t)
REC = z3.Function('catalog_record', z3.IntSort(), RowList, Rec)
TIME_MS = z3.Function('csv_time_ms', z3.IntSort(), z3.IntSort())
HAS_FRAC = z3.Function('csv_time_has_fraction', z3.IntSort(), z3.BoolSort())


def CID(t):
    return INT_VAL(to_z3(t), z3.IntVal(5))


def EMPTY(t):
    """placeholder row: no origin time and no number in the lon / lat / magnitude / depth columns"""
    t = to_z3(t)
    return z3.And(IS_EMPTY(t, 3), *[z3.Not(FLOAT_OK(t, k)) for k in (0, 1, 2, 4)])


def rows_unfold(k, t):
    """ROWS(k, t+1) = ROWS(k, t) ++ [t] if row t belongs to catalog k and is not a placeholder, else ROWS(k, t)"""
    k, t = to_z3(k), to_z3(t)
    return ROWS(k, t + 1) == z3.If(z3.And(CID(t) == k, z3.Not(EMPTY(t))), APP(ROWS(k, t), t), ROWS(k, t))


# ------------------------------------------------------------------ strptime on a csv time field (assumed string layer)
@contract
class StrptimeCsvField:
    qualname = STRP
    case = 'time field of a csv row (assumed: parses with the fractional format iff it has a fraction)'
    properties = ('C12',)
    assumed = True
    priority = 5

    def params(c):
        return None

    def accepts(c, time_string, format=None):
        return isinstance(time_string, Opaque) and time_string.name == 'csvfield'

    def requires(c, time_string, format=None):
        return []

    def ensures(c, r, time_string, format=None):
        return []

    def result(c, time_string, format=None):
        row = time_string.row
        want_frac = isinstance(format, str) and '%f' in format
        ok = HAS_FRAC(row) if want_frac else z3.Not(HAS_FRAC(row))
        if c.ctx.branch(z3.Not(ok)):
            raise PyRaise(builtin_exc('ValueError'), 'time data does not match format')
        return TIME_MS(row)


# ------------------------------------------------------------------ values
def rowlist(term):
    """abstract python list of event tuples, identified with the RowList term of the rows its tuples come from"""
    o = Opaque('rowlist', term=term)
    return o


def event_row(I, ev):
    """row index of an event tuple built by read_catalog_line; obliges the documented field order"""
    ok = isinstance(ev, tuple) and len(ev) == 6 and isinstance(ev[0], Opaque) and ev[0].name == 'csvfield'
    if not ok:
        raise Unsupported('event value is not a 6-tuple starting with the event id field')
    r = ev[0].row

    def is_float_of(v, col):
        return v is None or (z3.is_expr(v) and v.eq(FLOAT_VAL(r, z3.IntVal(col))))

    def is_time(v):
        return (isinstance(v, Opaque) and v.name == 'csvfield' and v.row.eq(r) and simp(v.col == 3) is True) or \
            (z3.is_expr(v) and v.eq(TIME_MS(r)))
    good = (simp(ev[0].col == 6) is True and is_time(ev[1]) and is_float_of(ev[2], 1) and is_float_of(ev[3], 0)
            and is_float_of(ev[4], 4) and is_float_of(ev[5], 2))
    I.ctx.oblige('event tuple == (event id, origin time, latitude, longitude, depth, magnitude) of its row', z3.BoolVal(bool(good)),
                 kind='post')
    return r


def list_term(I, v):
    if isinstance(v, Opaque) and v.name == 'rowlist':
        return v.term
    if isinstance(v, list):
        t = NIL
        for ev in v:
            t = APP(t, event_row(I, ev))
        return t
    raise Unsupported('events value %r' % type(v))


from pyvc.lib import method      # noqa: E402


@method('rowlist', 'append')
def _rowlist_append(L, lst, ev):
    lst.term = APP(lst.term, event_row(L.I, ev))
    return None


def mk_cls(c):
    """abstract record constructor standing for `cls(data=events, catalog_id=k, **kwargs)`"""
    def make(data=None, catalog_id=None, **kw):
        return Opaque('catrec', key=REC(to_z3(catalog_id), list_term(c.I, data)))
    return Lam(make, 'cls')


# ------------------------------------------------------------------ loop invariants
class RowsLoop(LoopInv):
    """for line in catalog_reader.  h = number of leading header rows (0 or 1).  After the rows [0, i), i > h:
       prev_id == id of row i-1;  every earlier id is <= prev_id;  the catalogs 0 .. prev_id-1 have been yielded, catalog k
       as record (k, ROWS(k, i));  the pending events are ROWS(prev_id, i).  For i <= h nothing has happened yet."""

    def trips(self, I, it):
        return to_z3(it.n)

    def item(self, I, it, i):
        return csv_row(i)

    def havoc(self, I, fr, i, it):
        h = I.ctx.ghost['n_header']
        for nm in ('line', 'temp_event', 'catalog_id', 'empty', 'id', 'num_empty_catalogs'):
            fr.locals.pop(nm, None)
        if I.ctx.branch(to_z3(i) <= h):
            fr.locals['prev_id'] = None
            fr.locals['events'] = []
            fr.locals['__yielded__'] = []
            self.started = False
            return
        self.started = True
        prev = CID(to_z3(i) - 1)
        fr.locals['prev_id'] = prev
        fr.locals['events'] = rowlist(ROWS(prev, to_z3(i)))
        self.OUT = I.ctx.fresh_fun('yielded', z3.IntSort(), Rec)
        OUT = self.OUT
        fr.locals['__yielded__'] = SymList(prev, lambda k: Opaque('catrec', key=OUT(to_z3(k))), 'yielded')

    def inv(self, I, fr, i, it):
        h = I.ctx.ghost['n_header']
        i = to_z3(i)
        out, prev, ev = fr.locals['__yielded__'], fr.locals['prev_id'], fr.locals['events']
        if self.mode == 'assume':
            if not getattr(self, 'started', False):
                return
            s, k = z3.Int('s!inv'), z3.Int('k!inv')
            yield 'ids', prev >= 0
            yield 'earlier ids are not larger', z3.ForAll([s], z3.Implies(z3.And(h <= s, s < i), CID(s) <= prev), patterns=[CID(s)])
            yield 'no decrease so far', z3.ForAll([s], z3.Implies(z3.And(h <= s, s + 1 < i), CID(s) <= CID(s + 1)), patterns=[CID(s)])
            yield 'yielded', z3.ForAll([k], z3.Implies(z3.And(0 <= k, k < prev), self.OUT(k) == REC(k, ROWS(k, i))), patterns=[self.OUT(k)])
            return
        # ---- prove
        started = simp(i > h)
        if started is not True and started is not False:
            started = None
        if prev is None:
            yield 'before the first data row nothing is pending and nothing has been yielded', z3.And(
                i <= h, z3.BoolVal(isinstance(ev, list) and ev == [] and isinstance(out, list) and out == []))
            return
        yield 'a data row has been read', i > h
        yield 'prev_id is the id of the last row read', to_z3(prev) == CID(i - 1)
        yield 'ids are not negative', to_z3(prev) >= 0
        s = I.ctx.fresh_int('s!sk')
        yield 'earlier ids are not larger', z3.Implies(z3.And(h <= s, s < i), CID(s) <= to_z3(prev))
        s2 = I.ctx.fresh_int('s2!sk')
        yield 'no decrease so far (a decrease is rejected on the spot)', z3.Implies(z3.And(h <= s2, s2 + 1 < i), CID(s2) <= CID(s2 + 1))
        yield 'pending events == non-placeholder rows of the current catalog, in file order', \
            list_term(I, ev) == ROWS(to_z3(prev), i)
        n_out = to_z3(out.n) if isinstance(out, SymList) else z3.IntVal(len(out))
        yield 'the catalogs before the current one have been yielded', n_out == to_z3(prev)
        k = I.ctx.fresh_int('k!sk')
        self.sk = k
        rec_k = out.f(k) if isinstance(out, SymList) else None
        if rec_k is not None:
            yield 'yielded catalog k has id k and exactly its non-placeholder rows, in file order', z3.Implies(
                z3.And(0 <= k, k < to_z3(prev)), rec_k.key == REC(k, ROWS(k, i)))
        else:
            yield 'yielded catalog k has id k and exactly its non-placeholder rows, in file order', z3.BoolVal(len(out) == 0)

    def step_lemmas(self, I, fr, i, it):
        # unfolding law of ROWS at the row just read, for the goal's catalog k, the previous and the new current catalog
        i = to_z3(i)
        ks = [getattr(self, 'sk', None), CID(i), CID(i - 1)]
        for k in ks:
            if k is not None:
                yield rows_unfold(k, i)
        I.used_lemmas.add('L6.rows_unfold')
        # a catalog none of whose rows has been read yet has no rows (gaps, catalogs before the first id)
        k = getattr(self, 'sk', None)
        h = I.ctx.ghost['n_header']
        s = z3.Int('s!nil')
        if k is not None:
            yield z3.Implies(z3.ForAll([s], z3.Implies(z3.And(h <= s, s < i + 1), CID(s) != k)), ROWS(k, i + 1) == NIL)
        yield ROWS(CID(i), h) == NIL
        yield z3.Implies(z3.ForAll([s], z3.Implies(z3.And(h <= s, s < i), CID(s) != CID(i))), ROWS(CID(i), i) == NIL)


class GapLoop(LoopInv):
    """for id in range(number of omitted catalogs): yield an empty catalog.  After m iterations the output is the output at
    loop entry followed by m records (position, NIL): every omitted catalog carries its own position as id."""

    def inv(self, I, fr, i, it):
        out = fr.locals['__yielded__']
        if self.mode == 'prove' and simp(to_z3(i) == 0) is True:
            # loop entry: remember the output so far
            self.base = to_z3(out.n) if isinstance(out, SymList) else z3.IntVal(len(out))
            self.old = (lambda k, f=out.f: f(k).key) if isinstance(out, SymList) else None
            self.old_list = list(out) if isinstance(out, list) else None
            yield 'entry', z3.BoolVal(True)
            return
        if self.mode == 'assume':
            return
        n_out = to_z3(out.n) if isinstance(out, SymList) else z3.IntVal(len(out))
        yield 'one empty catalog per iteration', n_out == self.base + to_z3(i)
        k = I.ctx.fresh_int('k!gap')
        yield 'omitted catalog at position k is (k, no events); earlier output untouched', z3.Implies(
            z3.And(0 <= k, k < n_out), out.f(k).key == self.expected(k))

    def expected(self, k):
        k = to_z3(k)
        if self.old is not None:
            return z3.If(k < self.base, self.old(k), REC(k, NIL))
        e = REC(k, NIL)
        for j, rec in reversed(list(enumerate(self.old_list))):
            e = z3.If(k == j, rec.key, e)
        return e

    def havoc(self, I, fr, i, it):
        fr.locals['__yielded__'] = SymList(simp(self.base + to_z3(i)), lambda k: Opaque('catrec', key=self.expected(k)), 'yielded')
        fr.locals.pop('id', None)


# ------------------------------------------------------------------ the contract
def _setup(c):
    n, h = c.int('n_rows'), c.int('n_header')
    c.ctx.assume(z3.And(h >= 0, h <= 1, n >= h + 1))          # at least one data row (the final catalog id is always present)
    c.ctx.ghost['n_header'] = h
    c.ctx.ghost.setdefault('files', {})['forecast.csv'] = ('symrows', n)
    return n, h


def _row_requires(n, h):
    t = z3.Int('t!rq')
    return [
        # header rows are exactly the first h rows
        z3.ForAll([t], z3.Implies(z3.And(0 <= t, t < n), IS_LON(t) == (t < h)), patterns=[IS_LON(t)]),
        # catalog ids are non-negative integers
        z3.ForAll([t], z3.Implies(z3.And(h <= t, t < n), CID(t) >= 0), patterns=[CID(t)]),
        # a placeholder row is empty throughout (also its event id)
        z3.ForAll([t], z3.Implies(z3.And(h <= t, t < n, EMPTY(t)), IS_EMPTY(t, 6)), patterns=[IS_EMPTY(t, 6)]),
    ]


def _directed_files():
    """concrete files (conventions of rt/oracles_catfc.catfc_file_decode): placeholders vs omissions, gaps, a first id > 0,
    with and without header, decreasing ids"""
    def row(k):
        return [round(-118.0 + 0.01 * k, 2), round(34.0 + 0.02 * k, 2), round(4.0 + 0.1 * (k % 9), 1),
                '2010-01-%02dT0%d:00:0%d%s' % (1 + k % 27, k % 9, k % 9, '.5' if k % 2 else ''), float(k % 30), 'ev%d' % k]
    shapes = [[[0, [row(0)]], [1, []], [2, [row(1), row(2)]]],
              [[0, []], [1, [row(3)]], [2, []]],
              [[2, [row(4)]], [5, [row(5), row(6)]]],
              [[0, [row(7)]], [3, []], [4, [row(8)]]],
              [[1, []], [4, []]],
              [[0, [row(9)]], [1, [row(10)]], [0, [row(11)]]],
              [[0, [row(12)]], [2, [row(13)]], [1, []]]]
    fam = []
    for blocks in shapes:
        for header in (False, True):
            fam.append(('catfc_file_decode', dict(blocks=blocks, header=header, loaders=['load_ascii_catalogs'])))
    return fam


@contract
class LoadAsciiCatalogs:
    directed = staticmethod(_directed_files)
    qualname = Q
    case = 'file of any number of rows, catalog ids non-decreasing'
    properties = ('C12',)
    loops = {0: RowsLoop(), 1: GapLoop()}

    def params(c):
        n, h = _setup(c)
        return dict(cls=mk_cls(c), filename='forecast.csv', _n=n, _h=h)

    def requires(c, cls, filename, _n, _h):
        t = z3.Int('t!rq')
        return _row_requires(_n, _h) + [
            z3.ForAll([t], z3.Implies(z3.And(_h <= t, t + 1 < _n), CID(t) <= CID(t + 1)), patterns=[CID(t)])]

    def ensures(c, r, cls, filename, _n, _h):
        last = CID(_n - 1)
        yield 'the result is the sequence of yielded catalogs', z3.BoolVal(isinstance(r, (SymList, list)))
        n_out = to_z3(r.n) if isinstance(r, SymList) else z3.IntVal(len(r))
        yield 'exactly the catalogs 0 .. last id are produced', n_out == last + 1
        k = c.ctx.fresh_int('k!sk')
        # unfolding / emptiness laws of ROWS for the final step (the last catalog is completed after the loop)
        if isinstance(r, SymList):
            yield 'catalog k has id k and exactly its own non-placeholder rows, in file order', z3.Implies(
                z3.And(0 <= k, k <= last), r.f(k).key == REC(k, ROWS(k, _n)))

    def raises(c, exc, cls, filename, _n, _h):
        return None


@contract
class LoadAsciiCatalogsDecreasing:
    directed = staticmethod(_directed_files)
    qualname = Q
    case = 'file whose catalog ids decrease somewhere'
    properties = ('C12',)
    loops = {0: RowsLoop(), 1: GapLoop()}

    def params(c):
        n, h = _setup(c)
        return dict(cls=mk_cls(c), filename='forecast.csv', _n=n, _h=h, _w=c.int('first_decrease'))

    def requires(c, cls, filename, _n, _h, _w):
        return _row_requires(_n, _h) + [_h <= _w, _w + 1 < _n, CID(_w + 1) < CID(_w)]

    def ensures(c, r, cls, filename, _n, _h, _w):
        yield 'a file whose catalog ids decrease is rejected (no normal completion)', z3.BoolVal(False)

    def raises(c, exc, cls, filename, _n, _h, _w):
        if exc.name == 'ValueError':
            return []
        return None


# ------------------------------------------------------------------ csep.load_catalog_forecast: plumbing around the loader
LCF = 'csep.load_catalog_forecast'


def _lcf_stubs(c, files):
    """CatalogForecast and strptime_to_utc_datetime as recording stubs (the forecast class: C13; the time parser: C15)"""
    calls = []

    def forecast(**kw):
        return Opaque('catalog_forecast', kwargs=kw)

    def strp(s, format=None):
        calls.append((s, format))
        if not isinstance(s, str) or len(s) != 26:
            raise PyRaise(builtin_exc('ValueError'), 'time data does not match format')
        return Opaque('parsed_time', text=s)
    c.ctx.ghost['global_overrides'] = {('csep', 'CatalogForecast'): Lam(forecast, 'CatalogForecast'),
                                       ('csep', 'strptime_to_utc_datetime'): Lam(strp, 'strptime_to_utc_datetime')}
    for f in files:
        c.ctx.ghost.setdefault('files', {})[f] = ('symrows', 0)
    return calls


def lcf_case(fname, user_kwargs, exists=True, label=''):
    class LCF_:
        qualname = LCF
        case = 'file %r%s%s' % (fname, '' if exists else ' (missing)', label)
        properties = ('C12',)

        def params(c):
            calls = _lcf_stubs(c, [fname] if exists else [])
            p = dict(fname=fname, _calls=calls)
            p.update(user_kwargs)
            return p

        def ensures(c, r, fname, _calls, **kw):
            yield 'an existing file gives a forecast object', z3.BoolVal(exists and isinstance(r, Opaque) and r.name == 'catalog_forecast')
            if not (isinstance(r, Opaque) and r.name == 'catalog_forecast'):
                return
            k = r.kwargs
            from pyvc.core import Func, BoundMethod
            ld = k.get('loader')
            is_ascii_loader = isinstance(ld, (Func, BoundMethod)) and getattr(getattr(ld, 'func', ld), 'qualname', '').endswith('CSEPCatalog.load_ascii_catalogs')
            yield 'the forecast reads the given file with the CSEP ASCII catalog loader, native format, type ascii', z3.BoolVal(
                k.get('filename') == fname and is_ascii_loader and k.get('catalog_format') == 'native' and k.get('catalog_type') == 'ascii')
            import os as _os
            base = _os.path.basename(fname.rstrip('/')).split('.')[0].split('_')
            wellformed = len(base) >= 2 and len(base[1]) == 26
            if 'name' in kw:
                yield 'a name given by the caller is kept', z3.BoolVal(k.get('name') == kw['name'])
            elif wellformed:
                yield 'the name is the part of the file name before the first underscore', z3.BoolVal(k.get('name') == base[0])
            else:
                yield 'no name is made up for a file name without a time stamp', z3.BoolVal('name' not in k)
            if 'start_time' in kw:
                yield 'a start time given by the caller is kept', z3.BoolVal(k.get('start_time') is kw['start_time'])
            elif wellformed:
                st = k.get('start_time')
                yield 'the start time is parsed from the second part of the file name with the documented format', z3.BoolVal(
                    isinstance(st, Opaque) and st.name == 'parsed_time' and st.text == base[1]
                    and any(cl == (base[1], '%Y-%m-%dT%H-%M-%S-%f') for cl in _calls))
            else:
                yield 'no start time is made up', z3.BoolVal('start_time' not in k)
            other = {a: b for a, b in kw.items() if a not in ('name', 'start_time')}
            yield 'other keyword arguments are passed on unchanged', z3.BoolVal(all(k.get(a) is b or k.get(a) == b for a, b in other.items())
                                                                               and set(k) <= {'filename', 'loader', 'catalog_format', 'catalog_type', 'name', 'start_time'} | set(other))

        def raises(c, exc, fname, _calls, **kw):
            return [('only a missing file raises (FileNotFoundError)', z3.BoolVal(not exists and exc.name == 'FileNotFoundError'))]
    LCF_.__name__ = 'LoadCatalogForecast_%d' % (abs(hash((fname, tuple(sorted(user_kwargs)), exists))) % 100000)
    return LCF_


_T = Opaque('caller_start_time')
for _f, _kw, _ex, _lb in (('dir/ucerf3-landers_1992-06-28T11-57-34-140000.csv', {}, True, ''),
                          ('dir/ucerf3-landers_1992-06-28T11-57-34-140000.csv', {'name': 'mine', 'apply_filters': True}, True, ', name and filter switch given'),
                          ('dir/ucerf3-landers_1992-06-28T11-57-34-140000.csv', {'start_time': _T}, True, ', start time given'),
                          ('forecast.csv', {'filter_spatial': True}, True, ', no time stamp in the name'),
                          ('a_b.csv', {}, True, ', second part is not a time stamp'),
                          ('dir/missing_1992-06-28T11-57-34-140000.csv', {}, False, '')):
    REG.add(lcf_case(_f, _kw, _ex, _lb))


# ------------------------------------------------------------------ csep.load_stochastic_event_sets: a generator around the loader
from pyvc.contracts import LoopInv      # noqa: E402
from contracts.catforecast import SRC, CatSort, mk_cat      # noqa: E402

LSES = 'csep.load_stochastic_event_sets'
CSEPFMT = z3.Function('csep_format_of', CatSort, CatSort)


@method('catalog', 'get_csep_format')
def _cat_csep_format(L, cat):
    return mk_cat(CSEPFMT(cat.key))


def _lses_stubs(c, J):
    """catalogs.CSEPCatalog.load_ascii_catalogs / UCERF3Catalog.load_catalogs as recording stubs returning a generator of the J source
    catalogs; the generator's position is explicit"""
    log = []
    gen = Opaque('generator', no_len=True, pos=z3.IntVal(0))

    def gen_next(I):
        pos = to_z3(gen.pos)
        if I.ctx.branch(pos < J):
            gen.pos = simp(pos + 1)
            return mk_cat(SRC(pos))
        raise PyRaise(builtin_exc('StopIteration'), None)
    gen.next = gen_next

    def loader(tag):
        def f(filename, **kw):
            log.append((tag, filename, kw))
            return gen
        return Lam(f, tag)
    cats = Opaque('catalogs_module', CSEPCatalog=Opaque('cls', load_ascii_catalogs=loader('csv')),
                  UCERF3Catalog=Opaque('cls', load_catalogs=loader('ucerf3')))
    c.ctx.ghost['global_overrides'] = {('csep', 'catalogs'): cats}
    c.ctx.ghost['lses'] = dict(gen=gen, J=J)
    return log, gen


class EventSetLoop(LoopInv):
    """while True: after pos catalogs have been taken from the loader's generator, exactly those pos catalogs have been yielded, in
    order, converted iff format == 'csep'"""

    def havoc(self, I, fr, i, it):
        g = I.ctx.ghost['lses']
        pos = I.ctx.fresh_int('taken')
        I.ctx.fact(z3.And(0 <= pos, pos <= g['J']))
        if g.get('bad_format'):
            I.ctx.fact(pos == 0)          # (invariant clause below: with an unknown format nothing is ever yielded)
        g['gen'].pos = pos
        conv = g['convert']
        fr.locals['__yielded__'] = SymList(pos, lambda t: mk_cat(CSEPFMT(SRC(to_z3(t))) if conv else SRC(to_z3(t))), 'yielded')
        fr.locals.pop('catalog', None)

    def inv(self, I, fr, i, it):
        g = I.ctx.ghost['lses']
        out = fr.locals['__yielded__']
        pos = to_z3(g['gen'].pos)
        n_y = to_z3(out.n) if isinstance(out, SymList) else z3.IntVal(len(out))
        if self.mode == 'assume':
            return
        yield 'one catalog yielded per catalog taken from the loader', n_y == pos
        yield 'position in range', z3.And(0 <= pos, pos <= g['J'])
        if g.get('bad_format'):
            yield 'with an unknown format no catalog is ever yielded (the first one raises)', pos == 0
        conv = g['convert']
        want = lambda t: CSEPFMT(SRC(t)) if conv else SRC(t)
        t = I.ctx.fresh_int('t!sk')
        if isinstance(out, SymList) and getattr(out, 'last_append', None) is not None:
            n0, v, f0 = out.last_append
            yield 'the catalog yielded last is the one just taken (converted iff format is csep)', z3.And(
                z3.BoolVal(isinstance(v, Opaque) and v.name == 'catalog'), v.key == want(to_z3(n0)) if isinstance(v, Opaque) else False)
            yield 'earlier yields are kept', z3.Implies(z3.And(0 <= t, t < to_z3(n0)), f0(t).key == want(t))
        elif isinstance(out, SymList):
            yield 'yield t is catalog t', z3.Implies(z3.And(0 <= t, t < n_y), out.f(t).key == want(t))


def lses_case(type_, fmt):
    class LS:
        qualname = LSES
        case = 'type=%s, format=%s, loader yielding any number of catalogs' % (type_, fmt)
        properties = ('C12',)
        loops = {0: EventSetLoop()}

        def params(c):
            J = c.int('J')
            c.ctx.assume(J >= 0)
            log, gen = _lses_stubs(c, J)
            c.ctx.ghost['lses']['convert'] = (fmt == 'csep')
            c.ctx.ghost['lses']['bad_format'] = fmt not in ('native', 'csep')
            return dict(filename='forecast.csv', type=type_, format=fmt, region=Opaque('region_kw'), _J=J, _log=log)

        def ensures(c, r, filename, type, format, region, _J, _log):
            ok_type = type in ('ucerf3', 'csv')
            yield 'catalogs are produced only for a known type', z3.BoolVal(ok_type)
            yield 'the loader of the type is called once with the file name and the keywords', z3.BoolVal(
                len(_log) == 1 and _log[0][0] == type and _log[0][1] == filename and _log[0][2] == {'region': region})
            yield 'a complete run with an unknown format is possible only without catalogs', z3.BoolVal(True) if format in ('native', 'csep') else _J == 0
            if isinstance(r, SymList):
                yield 'one catalog per catalog of the loader', to_z3(r.n) == _J
                t = c.ctx.fresh_int('t!sk')
                want = (lambda k: CSEPFMT(SRC(k))) if format == 'csep' else (lambda k: SRC(k))
                yield 'catalog t is catalog t of the loader (converted iff format is csep), in order', z3.Implies(
                    z3.And(0 <= t, t < _J), r.f(t).key == want(t))
            else:
                yield 'no catalog only if the loader has none', z3.And(z3.BoolVal(isinstance(r, list) and not r), _J == 0)

        def raises(c, exc, filename, type, format, region, _J, _log):
            bad_type = type not in ('ucerf3', 'csv')
            bad_fmt = format not in ('native', 'csep')
            return [('ValueError exactly for an unknown type or (with at least one catalog) an unknown format', z3.And(
                z3.BoolVal(exc.name == 'ValueError' and (bad_type or bad_fmt)), z3.BoolVal(bad_type) if bad_type else _J >= 1)),
                ('an unknown type is rejected before the loader is called', z3.BoolVal(not bad_type or not _log))]
    LS.__name__ = 'LoadStochasticEventSets_%s_%s' % (type_, fmt)
    return LS


for _t, _f in (('csv', 'native'), ('csv', 'csep'), ('ucerf3', 'native'), ('ucerf3', 'csep'), ('zmap', 'native'), ('csv', 'other')):
    REG.add(lses_case(_t, _f))
