"""Contracts for csep/utils/stats.py (property C09)."""
import z3

from pyvc.contracts import contract
from pyvc import spec
from pyvc.core import to_real, to_z3


def _ecdf_params(c, dtype):
    x = c.arr('x', dtype)
    return dict(x=x, val=c.real('val'), cdf=())


def _as_array(c, v):
    """a python list handed to these functions is converted by numpy (numpy.sort / numpy.asarray are the first thing they do):
    the contract is stated on the converted array"""
    from pyvc.core import Arr, SymList, is_sym, sort_kind
    if isinstance(v, SymList):
        k = c.ctx.fresh_int('k!probe')
        e = v.f(k)
        dt = 'float64' if (isinstance(e, float) or (is_sym(e) and sort_kind(e) == 'float')) else 'int64'
        return Arr((v.n,), lambda ix, v=v: v.f(ix[0]), dt, label=getattr(v, 'label', 'list'))
    return v


def _norm_first(name):
    def normalize(c, **loc):
        loc = dict(loc)
        loc[name] = _as_array(c, loc[name])
        return loc
    return normalize


class _GE:
    qualname = 'csep.utils.stats.greater_equal_ecdf'
    oracle = 'greater_equal_ecdf'

    def requires(c, x, val, cdf):
        return [x.n >= 1]

    def ensures(c, r, x, val, cdf):
        n = x.n
        yield 'is-float', z3.BoolVal(z3.is_expr(to_z3(r)) and to_z3(r).sort() == z3.RealSort())
        yield 'value==CGE/n', to_real(r) * z3.ToReal(n) == z3.ToReal(spec.cge(x, n, val))

    def result(c, x, val, cdf):
        return c.ctx.fresh_real('ge_ecdf')


@contract
class GE_float(_GE):
    case = 'float-sample,cdf=()'

    def params(c):
        return _ecdf_params(c, 'float64')


@contract
class GE_int(_GE):
    case = 'int-sample,cdf=()'

    def params(c):
        return _ecdf_params(c, 'int64')


class _LE:
    qualname = 'csep.utils.stats.less_equal_ecdf'
    oracle = 'less_equal_ecdf'

    def requires(c, x, val, cdf):
        return [x.n >= 1]

    def ensures(c, r, x, val, cdf):
        n = x.n
        yield 'is-float', z3.BoolVal(z3.is_expr(to_z3(r)) and to_z3(r).sort() == z3.RealSort())
        yield 'value==CLE/n', to_real(r) * z3.ToReal(n) == z3.ToReal(spec.cle(x, n, val))

    def result(c, x, val, cdf):
        return c.ctx.fresh_real('le_ecdf')


@contract
class LE_float(_LE):
    case = 'float-sample,cdf=()'

    def params(c):
        return _ecdf_params(c, 'float64')


@contract
class LE_int(_LE):
    case = 'int-sample,cdf=()'

    def params(c):
        return _ecdf_params(c, 'int64')


# --------------------------------------------------------------------------
# ecdf
# --------------------------------------------------------------------------
class _ECDF:
    qualname = 'csep.utils.stats.ecdf'

    def requires(c, x):
        return [x.n >= 1]

    def ensures(c, r, x):
        xs, ys = r
        n = x.n
        yield 'len-xs', to_z3(xs.shape[0]) == n
        yield 'len-ys', to_z3(ys.shape[0]) == n
        yield 'xs-sorted', c.forall(0, n - 1, lambda i: to_z3(xs.f((i,))) <= to_z3(xs.f((i + 1,))))
        yield 'xs-same-multiset(>=)', c.forall_real(lambda v: spec.cge(xs, n, v) == spec.cge(x, n, v))
        yield 'xs-same-multiset(<=)', c.forall_real(lambda v: spec.cle(xs, n, v) == spec.cle(x, n, v))
        yield 'ys[k]==(k+1)/n', c.forall(0, n, lambda k: to_real(ys.f((k,))) * z3.ToReal(n) == z3.ToReal(k + 1))


@contract
class ECDF_float(_ECDF):
    case = 'float-sample'

    def params(c):
        return dict(x=c.arr('x', 'float64'))


@contract
class ECDF_int(_ECDF):
    case = 'int-sample'

    def params(c):
        return dict(x=c.arr('x', 'int64'))


# --------------------------------------------------------------------------
# call shape with a pre-computed cdf = ecdf(x)
# --------------------------------------------------------------------------
def _given_cdf(c, dtype):
    """x and a pair (ex, ey) satisfying ecdf's postcondition"""
    x = c.arr('x', dtype)
    n = x.n
    ex = c.arr('ex', dtype, n=n)
    ey = c.arr('ey', 'float64', n=n)
    return dict(x=x, val=c.real('val'), cdf=(ex, ey))


def _cdf_requires(c, x, val, cdf):
    ex, ey = cdf
    n = x.n
    i, j = z3.Ints('i!rq j!rq')
    v = z3.Real('v!rq')
    E = spec.rterm(ex)
    return [n >= 1,
            z3.ForAll([i, j], z3.Implies(z3.And(0 <= i, i <= j, j < n), to_z3(ex.f((i,))) <= to_z3(ex.f((j,))))),
            z3.ForAll([v], z3.And(spec.cge(ex, n, v) == spec.cge(x, n, v), spec.cle(ex, n, v) == spec.cle(x, n, v)),
                      patterns=[spec.cge(ex, n, v), spec.cle(ex, n, v), spec.cge(x, n, v), spec.cle(x, n, v)]),
            z3.ForAll([i], z3.Implies(z3.And(0 <= i, i < n), to_real(ey.f((i,))) * z3.ToReal(n) == z3.ToReal(i + 1)))]


@contract
class GE_cdf(_GE):
    case = 'float-sample,cdf=ecdf(x)'

    def params(c):
        return _given_cdf(c, 'float64')

    def accepts(c, x, val, cdf):
        return bool(cdf)
    requires = _cdf_requires

    def witness(m, p):
        from pyvc.driver import model_value
        return {'x': model_value(m, p['x']), 'val': model_value(m, p['val']), 'cdf': True}


@contract
class LE_cdf(_LE):
    case = 'float-sample,cdf=ecdf(x)'

    def params(c):
        return _given_cdf(c, 'float64')

    def accepts(c, x, val, cdf):
        return bool(cdf)
    requires = _cdf_requires

    def witness(m, p):
        from pyvc.driver import model_value
        return {'x': model_value(m, p['x']), 'val': model_value(m, p['val']), 'cdf': True}


for _k in (GE_float, GE_int, LE_float, LE_int):
    _k.accepts = lambda c, x, val, cdf: not cdf


# --------------------------------------------------------------------------
# get_quantiles, binned_ecdf (proved against the contracts above)
# --------------------------------------------------------------------------
class _GQ:
    qualname = 'csep.utils.stats.get_quantiles'
    oracle = 'get_quantiles'
    normalize_args = staticmethod(_norm_first('sim_counts'))

    def accepts(c, sim_counts, obs_count):
        from pyvc.core import Arr
        return isinstance(sim_counts, Arr) and sim_counts.ndim == 1

    def requires(c, sim_counts, obs_count):
        return [sim_counts.n >= 1]

    def ensures(c, r, sim_counts, obs_count):
        n = sim_counts.n
        d1, d2 = r
        yield 'delta1==CGE/n', to_real(d1) * z3.ToReal(n) == z3.ToReal(spec.cge(sim_counts, n, obs_count))
        yield 'delta2==CLE/n', to_real(d2) * z3.ToReal(n) == z3.ToReal(spec.cle(sim_counts, n, obs_count))
        yield 'delta1+delta2==1+CEQ/n', (to_real(d1) + to_real(d2)) * z3.ToReal(n) == \
            z3.ToReal(n + spec.ceq(sim_counts, n, obs_count))
        yield 'in[0,1]', z3.And(to_real(d1) >= 0, to_real(d1) <= 1, to_real(d2) >= 0, to_real(d2) <= 1)

    def result(c, sim_counts, obs_count):
        return (c.ctx.fresh_real('delta1'), c.ctx.fresh_real('delta2'))


@contract
class GQ_int(_GQ):
    case = 'int-sample'

    def params(c):
        return dict(sim_counts=c.arr('sim_counts', 'int64'), obs_count=c.real('obs_count'))


@contract
class GQ_float(_GQ):
    case = 'float-sample'

    def params(c):
        return dict(sim_counts=c.arr('sim_counts', 'float64'), obs_count=c.real('obs_count'))


@contract
class BinnedEcdf:
    qualname = 'csep.utils.stats.binned_ecdf'
    oracle = 'binned_ecdf'
    case = 'float-sample'

    def params(c):
        return dict(x=c.arr('x', 'float64'), vals=c.arr('vals', 'float64'))

    def requires(c, x, vals):
        return [x.n >= 1]

    def ensures(c, r, x, vals):
        v, cdf = r
        n = x.n
        yield 'vals-returned', z3.BoolVal(v is vals)
        yield 'len', to_z3(cdf.shape[0]) == to_z3(vals.n)
        yield 'cdf[k]==CLE(x,vals[k])/n', c.forall(0, vals.n, lambda k: to_real(cdf.f((k,))) * z3.ToReal(n) ==
                                                  z3.ToReal(spec.cle(x, n, vals.f((k,)))))
