"""Property C20 (storage order): relational lemmas by SELF-COMPOSITION of the real bodies.

The same real function is executed twice, on a catalog A and on the catalog B holding the same events in another order
(B[t] = A[sigma(t)], sigma a bijection of 0..n-1), with every repository callee inlined (no contract of a callee is assumed:
the two runs then produce syntactically parallel terms).  The goal is that both runs end the same way and, if they return,
return equal arrays.  The only outside fact used is the Lean-checked permutation lemma L5_perm_count (counts of a predicate
are invariant under a bijection of the index range)."""
import z3

from pyvc.contracts import contract
from pyvc.core import Arr, PyRaise, Unsupported, to_real, to_z3
from pyvc.lib import CNT, SUM
from contracts.regions import Lattice
from contracts.catalogs import mk_catalog, CATCLS
from contracts.calc import grid

INLINE = ('csep.core.regions.CartesianGrid2D.get_index_of', 'csep.core.regions.CartesianGrid2D._bin_axis',
          'csep.core.forecasts.MarkedGriddedDataSet.get_magnitude_index', 'csep.core.catalogs.AbstractBaseCatalog.spatial_counts',
          'csep.core.catalogs.AbstractBaseCatalog.magnitude_counts', 'csep.core.catalogs.AbstractBaseCatalog.spatial_magnitude_counts',
          'csep.core.catalogs.AbstractBaseCatalog.spatial_event_probability')


BIN1D = 'csep.utils.calc.bin1d_vec'
ELEMENTWISE = 'lemma:C20:bin1d_vec is an elementwise function of the points'


@contract
class Bin1dElementwiseView:
    """bin1d_vec(p, bins, tol, right_continuous)[q] = phi(p[q]) for a function phi that depends on (bins, tol, right_continuous)
    only, and whether it raises depends on the bins only.  This is exactly what the self-composition lemma below proves on the
    real body; the relational lemmas of C20 use this VIEW of bin1d_vec (an uninterpreted phi per call configuration) instead
    of its body, which keeps their terms small.  Only active when a lemma switches opts['pointwise_view'] on."""
    qualname = BIN1D
    case = 'elementwise view (justified by the self-composition lemma)'
    properties = ('C20',)
    priority = 10
    justified_by = ELEMENTWISE

    def accepts(c, p, bins, tol=None, right_continuous=False):
        return bool(c.I.opts.get('pointwise_view')) and isinstance(p, Arr) and p.ndim == 1 and isinstance(bins, Arr) and bins.ndim == 1

    def requires(c, p, bins, tol=None, right_continuous=False):
        return []

    def ensures(c, r, p, bins, tol=None, right_continuous=False):
        return []

    def result(c, p, bins, tol=None, right_continuous=False):
        from pyvc.core import builtin_exc
        if not (tol is None or isinstance(tol, (int, float))) or not isinstance(right_continuous, bool):
            raise Unsupported('elementwise view: symbolic tol / right_continuous')
        nb = to_z3(bins.shape[0])
        # the only exception of bin1d_vec: negative spacing (a property of the bins)
        if c.ctx.branch(z3.And(nb != 1, to_real(bins.f((1,))) - to_real(bins.f((0,))) < 0)):
            raise PyRaise(builtin_exc('ValueError'), 'grid spacing must be positive and monotonically increasing.')
        key = (id(bins), tol, right_continuous)
        tab = c.ctx.ghost.setdefault('bin1d_view', {})
        if key not in tab:
            tab[key] = (c.ctx.fresh_fun('binof', z3.RealSort(), z3.IntSort()), bins)      # keep `bins` alive: id() is the key
        phi = tab[key][0]
        x = z3.Real('x!view')
        hi = nb - 1 if right_continuous else nb
        c.ctx.fact(z3.ForAll([x], z3.And(phi(x) >= -1, (phi(x) <= hi) if right_continuous else (phi(x) < hi)), patterns=[phi(x)]))
        return Arr(p.shape, lambda ix: phi(to_real(p.f(ix))), 'int64', label='bin1d')


def elementwise_case(rc, tol):
    class E:
        qualname = ELEMENTWISE
        case = 'real body executed on two point arrays related by an arbitrary index map; right_continuous=%s, tol=%s' % (rc, tol)
        properties = ('C20',)

        def lemma(c):
            c.I.opts['force_inline'] = (BIN1D, 'csep.utils.calc._get_tolerance')
            n, m = c.int('n'), c.int('m')
            c.ctx.assume(z3.And(n >= 0, m >= 0))
            pA = c.arr('p', 'float64', n=n)
            mp = c.ctx.fresh_fun('index_map', z3.IntSort(), z3.IntSort())
            t = z3.Int('t!mp')
            c.ctx.assume(z3.ForAll([t], z3.Implies(z3.And(0 <= t, t < m), z3.And(0 <= mp(t), mp(t) < n)), patterns=[mp(t)]))
            pB = Arr((m,), lambda ix: pA.f((mp(to_z3(ix[0])),)), 'float64', label='p_b')
            bins = c.arr('bins', 'float64')
            c.ctx.assume(bins.n >= 1)
            ra = outcome(c, BIN1D, pA, bins, tol=tol, right_continuous=rc)
            rb = outcome(c, BIN1D, pB, bins, tol=tol, right_continuous=rc)
            yield 'raising depends on the bins only', z3.BoolVal(ra[0] == rb[0] and (ra[0] == 'return' or ra[1] == rb[1]))
            if ra[0] == 'return' and rb[0] == 'return':
                a, b = ra[1], rb[1]
                yield 'one index per point', z3.And(to_z3(a.shape[0]) == n, to_z3(b.shape[0]) == m)
                q = c.ctx.fresh_int('q!sk')
                nb = to_z3(bins.shape[0])
                yield 'every index is -1 or a bin number', z3.Implies(
                    z3.And(0 <= q, q < n), z3.And(to_z3(a.f((q,))) >= -1,
                                                  (to_z3(a.f((q,))) <= nb - 1) if rc else (to_z3(a.f((q,))) < nb)))
                yield 'index of a point does not depend on its position or on the other points', z3.Implies(
                    z3.And(0 <= q, q < m), to_z3(b.f((q,))) == to_z3(a.f((mp(q),))))
    E.__name__ = 'Bin1dElementwise_%s_%s' % (rc, tol)
    return E


from pyvc.contracts import REG
for _rc in (False, True):
    for _tol in (None, 1e-5):
        REG.add(elementwise_case(_rc, _tol))


def permuted_pair(c, region, **extra):
    """catalog A with arbitrary events and catalog B with the same events in the order sigma"""
    catA, dataA = mk_catalog(c, region=region, **extra)
    n = dataA.n
    sg = c.ctx.fresh_fun('sigma', z3.IntSort(), z3.IntSort())
    tau = c.ctx.fresh_fun('sigma_inv', z3.IntSort(), z3.IntSort())
    t = z3.Int('t!pm')
    c.ctx.assume(z3.ForAll([t], z3.Implies(z3.And(0 <= t, t < n), z3.And(0 <= sg(t), sg(t) < n, tau(sg(t)) == t)), patterns=[sg(t)]))
    c.ctx.assume(z3.ForAll([t], z3.Implies(z3.And(0 <= t, t < n), z3.And(0 <= tau(t), tau(t) < n, sg(tau(t)) == t)), patterns=[tau(t)]))
    dataB = Arr((n,), lambda ix: None, dict(dataA.dtype), label='events_b')
    dataB.fields = {k: Arr((n,), (lambda ix, col=col: col.f((sg(to_z3(ix[0])),))), col.dtype, label='events_b.' + k)
                    for k, col in dataA.fields.items()}
    catB = c.obj(CATCLS, _catalog=dataB, region=region, compute_stats=False, filters=[], name='cat', catalog_id=None, format=None, **extra)
    return (catA, dataA), (catB, dataB), sg, tau, n


def outcome(c, qualname, *args, **kw):
    try:
        return ('return', c.inline(qualname, *args, **kw))
    except PyRaise as e:
        return ('raise', e.cls.name)


def perm_count_instances(c, terms, sg, n):
    """L5_perm_count: for every counting term CNT(lambda t. P(t), n) of run A assume CNT(lambda t. P(sigma t), n) == it"""
    # counting terms over the events (range n) in the goal and in the facts recorded so far (e.g. the right-hand sides of the
    # count-over-selection rewrites)
    terms = list(terms)
    for f in list(getattr(c.ctx, 'facts', [])):
        find_apps(f, 'CNT', terms)
    seen = set()
    for cn in terms:
        lam, m = cn.arg(0), cn.arg(1)
        if cn.get_id() in seen or not z3.simplify(m == to_z3(n)).eq(z3.BoolVal(True)) and not m.eq(to_z3(n)):
            continue
        seen.add(cn.get_id())
        t = z3.Int('i!lam')
        body_at_sigma = z3.simplify(z3.Select(lam, sg(t)))
        c.ctx.fact(CNT(z3.Lambda([t], body_at_sigma), m) == cn, lemma=True)
    c.I.used_lemmas.add('L5.permutation_preserves_counts')


def find_apps(term, name, out=None, seen=None):
    out = [] if out is None else out
    seen = set() if seen is None else seen
    if term.get_id() in seen:
        return out
    seen.add(term.get_id())
    if z3.is_app(term):
        if term.decl().name() == name:
            out.append(term)
        for ch in term.children():
            find_apps(ch, name, out, seen)
    elif z3.is_quantifier(term):
        find_apps(term.body(), name, out, seen)
    return out


def _directed(tests):
    """concrete inputs (conventions of rt/oracles_catfc.perm_invariance): a gridded test that consumes the counts, on a
    catalog with repeated cells and on re-ordered copies of it"""
    grid = {'nx': 2, 'ny': 2, 'dh': 1.0, 'x0': 0.0, 'y0': 0.0, 'mags': [4.0, 5.0, 6.0]}
    rates = [[0.5, 0.25, 0.125], [1.5, 0.75, 0.0625], [0.375, 2.0, 0.5], [0.25, 0.125, 1.0]]
    rates_b = [[1.0, 0.5, 0.25], [0.25, 0.25, 0.5], [0.5, 1.5, 0.125], [2.0, 0.0625, 0.75]]
    observed = [[0, 0], [3, 2], [1, 1], [0, 0], [2, 1], [3, 0], [1, 2]]
    out = []
    for test in tests:
        for perm in ([6, 5, 4, 3, 2, 1, 0], [1, 2, 3, 4, 5, 6, 0], [3, 0, 6, 2, 5, 1, 4]):
            out.append(('perm_invariance', dict(test=test, grid=grid, observed=observed, rates=rates, rates_b=rates_b, seed=7,
                                                num_simulations=5, variance=20.0, perm_events=perm)))
    return out


def counts_lemma(method, what, build, tests=()):
    class L:
        directed = staticmethod(lambda: _directed(tests))
        qualname = 'lemma:C20:%s under a permutation of the events' % method
        case = what
        properties = ('C20',)

        def lemma(c):
            c.I.opts['force_inline'] = INLINE
            c.I.opts['pointwise_view'] = True
            region, kw, reqs = build(c)
            extra_kw = {}
            if not callable(kw):
                kw = (lambda kw=kw: dict(kw))
            (catA, dataA), (catB, dataB), sg, tau, n = permuted_pair(c, region)
            for g in reqs(dataA):
                c.ctx.assume(g)
            q = CATCLS + '.' + method
            ra = outcome(c, q, catA, **kw(), **extra_kw)
            rb = outcome(c, q, catB, **kw(), **extra_kw)
            # instances of the bijection axioms at the witnesses of the existential branch conditions (numpy.any(..) taken)
            for w in c.ctx.ghost.get('witnesses') or []:
                for e in (w[0] if isinstance(w[0], (list, tuple)) else [w[0]]):
                    if z3.is_expr(e) and e.sort() == z3.IntSort():
                        c.ctx.fact(z3.Implies(z3.And(0 <= e, e < n), z3.And(0 <= tau(e), tau(e) < n, sg(tau(e)) == e,
                                                                           0 <= sg(e), sg(e) < n, tau(sg(e)) == e)), lemma=True)
            yield 'both orders end the same way (both return, or both raise the same exception)', z3.BoolVal(
                ra[0] == rb[0] and (ra[0] == 'return' or ra[1] == rb[1]))
            if ra[0] == 'return' and rb[0] == 'return':
                a, b = ra[1], rb[1]
                yield 'same shape', z3.BoolVal(isinstance(a, Arr) and isinstance(b, Arr) and a.ndim == b.ndim)
                ix = tuple(c.ctx.fresh_int('i%d!sk' % k) for k in range(a.ndim))
                inr = z3.And(*[z3.And(0 <= i, i < to_z3(d)) for i, d in zip(ix, a.shape)])
                for da, db in zip(a.shape, b.shape):
                    yield 'same extent', to_z3(da) == to_z3(db)
                va, vb = to_real(a.f(ix)), to_real(b.f(ix))
                # loop invariants at exit are quantified over the cell: instantiate them at the goal's cell
                for f in list(c.ctx.pc):
                    if z3.is_quantifier(f) and f.is_forall() and f.num_vars() == len(ix) and find_apps(f.body(), 'CNT'):
                        c.ctx.fact(z3.substitute_vars(f.body(), *reversed(ix)), lemma=True)
                perm_count_instances(c, find_apps(va, 'CNT'), sg, n)
                yield 'every entry is the same for both orders', z3.Implies(inr, va == vb)
    L.__name__ = 'C20_' + method
    return L


def _spatial(c):
    L = Lattice(c)
    return L.obj(c), {}, lambda data: L.RI()


def _magnitude(c):
    mags = grid(c, 'magnitudes', 'float64')
    region = c.obj('csep.core.regions.CartesianGrid2D', magnitudes=mags, name='region')
    return region, {}, lambda data: [to_real(mags.grid[1]) > 0, to_z3(mags.grid[2]) >= 2]


def _space_magnitude(c):
    L = Lattice(c)
    mags = grid(c, 'magnitudes', 'float64')
    from contracts.catalogs import SMCLoop
    return (L.obj(c, magnitudes=mags), (lambda: {'_loops': {0: SMCLoop()}}),
            lambda data: L.RI() + [to_real(mags.grid[1]) > 0, to_z3(mags.grid[2]) >= 2])


from pyvc.contracts import REG
REG.add(counts_lemma('spatial_counts', 'Cartesian region (RI), any permutation', _spatial,
                      ('poisson.spatial_test', 'binomial.binary_spatial_test')))
REG.add(counts_lemma('spatial_event_probability', 'Cartesian region (RI), any permutation', _spatial, ('poisson.spatial_test',)))
REG.add(counts_lemma('magnitude_counts', 'equally spaced magnitude edges of the region, any permutation', _magnitude,
                      ('poisson.magnitude_test',)))
REG.add(counts_lemma('spatial_magnitude_counts', 'Cartesian region (RI) with magnitude edges, any permutation', _space_magnitude,
                      ('poisson.conditional_likelihood_test', 'poisson.likelihood_test', 'brier.brier_score_test')))


# ---------------------------------------------------------------------------------------------------
# re-ordering the SYNTHETIC CATALOGS of a catalog forecast: the catalog number test (self-composition of the real function)
# ---------------------------------------------------------------------------------------------------
@contract
class CatalogOrderNumberTest:
    qualname = 'lemma:C20:catalog number_test under a permutation of the synthetic catalogs'
    case = 'list-backed forecasts holding the same catalogs in two orders'
    properties = ('C20',)

    def lemma(c):
        import contracts.cateval as ce
        from contracts.catforecast import _list_forecast, SRC, EC
        from pyvc import spec
        NT = 'csep.core.catalog_evaluations.number_test'
        fo1, J, nE = _list_forecast(c, False, min_magnitude=c.real('min_mw'))
        sg = c.ctx.fresh_fun('sigma', z3.IntSort(), z3.IntSort())
        tau = c.ctx.fresh_fun('sigma_inv', z3.IntSort(), z3.IntSort())
        t = z3.Int('t!pm')
        c.ctx.assume(z3.ForAll([t], z3.Implies(z3.And(0 <= t, t < J), z3.And(0 <= sg(t), sg(t) < J, tau(sg(t)) == t)), patterns=[sg(t)]))
        c.ctx.assume(z3.ForAll([t], z3.Implies(z3.And(0 <= t, t < J), z3.And(0 <= tau(t), tau(t) < J, sg(tau(t)) == t)), patterns=[tau(t)]))
        from contracts.catforecast import mk_cat, CF
        from pyvc.core import SymList
        f2 = dict(fo1.fields)
        f2['catalogs'] = SymList(J, lambda k: mk_cat(SRC(sg(to_z3(k)))), 'catalogs (re-ordered)')
        f2['_event_counts'] = SymList(nE, fo1.fields['_event_counts'].f, '_event_counts')
        fo2 = c.obj(CF, **f2)
        fo2.source_order = lambda k: SRC(sg(k))
        n_obs = c.int('n_obs')
        c.ctx.assume(n_obs >= 0)
        obs = c.obj(None, event_count=n_obs, name='obs')
        r1 = c.inline(NT, fo1, obs, False, _loops={0: ce.NumberLoop()})
        r2 = c.inline(NT, fo2, obs, False, _loops={0: ce.NumberLoop()})
        q1, q2 = r1.fields['quantile'], r2.fields['quantile']
        yield 'observed statistic unchanged', to_z3(r1.fields['observed_statistic']) == to_z3(r2.fields['observed_statistic'])
        # L5_perm_cge / L5_perm_cle (Lean): threshold counts of a sample are invariant under a bijection of the index range
        a1 = Arr((J,), lambda ix: EC(SRC(to_z3(ix[0]))), 'int64')
        a2 = Arr((J,), lambda ix: EC(SRC(sg(to_z3(ix[0])))), 'int64')
        v = z3.ToReal(n_obs)
        c.ctx.fact(z3.And(spec.cge(a2, J, v) == spec.cge(a1, J, v), spec.cle(a2, J, v) == spec.cle(a1, J, v)), lemma=True)
        c.I.used_lemmas.add('L5.permutation_preserves_counts')
        yield 'delta_1 unchanged', to_real(q1[0]) == to_real(q2[0])
        yield 'delta_2 unchanged', to_real(q1[1]) == to_real(q2[1])
