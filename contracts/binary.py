"""Contracts for the simulators and kernels of the binary (Bernoulli) and Brier consistency tests
(csep/core/binomial_evaluations.py, csep/core/brier_evaluations.py) - properties C06 and C16, model R."""
import z3

from pyvc.contracts import contract, LoopInv, REG, pointwise_count_hint
from pyvc.core import Arr, SymList, Obj, simp, to_real, to_z3
from pyvc.lib import CNT, SUM, ok_patterns, sum_term
from pyvc.models_sci import RNG0, SEEDED, RAND, RNG, RNG_NEXT, rng_state, rng_advance
from contracts.evals import in_bin, find_app, rsum, _flat, _size

BSIM = 'csep.core.binomial_evaluations._simulate_catalog'
RSIM = 'csep.core.brier_evaluations._simulate_catalog'


def _weights_requires(W):
    K = to_z3(W.shape[0])
    i, j = z3.Ints('i!rq j!rq')
    return [z3.ForAll([i, j], z3.Implies(z3.And(0 <= i, i <= j, j < K), W.f((i,)) <= W.f((j,))),
                      patterns=ok_patterns([[W.f((i,)), W.f((j,))]])),
            # every number in [0,1) must be placeable: the weights are non-negative and the last one reaches 1
            W.f((0,)) >= 0, W.f((simp(K - 1),)) >= 1]


def positive_width(W, k):
    """bin k has a non-empty cumulative-rate interval [F(k-1), F(k)) - i.e. a positive rate"""
    return z3.If(k == 0, W.f((0,)) > 0, W.f((k - 1,)) < W.f((k,)))


# ------------------------------------------------------------------ injected random numbers (both modules)
def sim_injected(qualname, has_buffer):
    class S:
        case = 'injected random numbers'
        properties = ('C06',)
        oracle = 'binary_simulate_catalog'

        def witness(m, p):
            from pyvc.driver import model_value
            return dict(module=qualname.split('.')[-2], sim_cells=model_value(m, p['sim_cells']),
                        sampling_weights=model_value(m, p['sampling_weights']), random_numbers=model_value(m, p['random_numbers']))

        def params(c):
            K, n = c.int('K'), c.int('sim_cells')
            c.ctx.assume(z3.And(K >= 1, n >= 0))
            d = dict(sim_cells=n, sampling_weights=c.arr('W', 'float64', n=K))
            if has_buffer:
                d['sim_fore'] = c.arr('sim', 'float64', n=K)
            d['random_numbers'] = c.arr('u', 'float64', n=n)
            return d

        def accepts(c, sim_cells, sampling_weights, sim_fore=None, random_numbers=None):
            return random_numbers is not None

        def requires(c, sim_cells, sampling_weights, sim_fore=None, random_numbers=None):
            u = random_numbers
            i = z3.Int('i!rq')
            return _weights_requires(sampling_weights) + [
                to_z3(u.shape[0]) == to_z3(sim_cells),
                z3.ForAll([i], z3.Implies(z3.And(0 <= i, i < to_z3(u.shape[0])), z3.And(u.f((i,)) >= 0, u.f((i,)) < 1)),
                          patterns=ok_patterns([u.f((i,))]))]

        def result(c, sim_cells, sampling_weights, sim_fore=None, random_numbers=None):
            K = sampling_weights.shape[0]
            fresh = c.L.fresh_arr('simcat', (K,), 'float64')
            if has_buffer:
                sim_fore.f = fresh.f
                sim_fore.term, sim_fore.term_f = fresh.term, sim_fore.f
                return sim_fore
            return fresh

        def ensures(c, r, sim_cells, sampling_weights, sim_fore=None, random_numbers=None):
            W, u = sampling_weights, random_numbers
            K, n = to_z3(W.shape[0]), to_z3(sim_cells)
            t = z3.Int('i!cnt')
            if c.mode == 'assume':
                k = c.ctx.fresh_int('k!q')
                cnt = CNT(z3.Lambda([t], in_bin(W, k, u.f((t,)))), n)
                yield 'sim', z3.ForAll([k], z3.Implies(z3.And(0 <= k, k < K), to_real(r.f((k,))) == z3.ToReal(cnt)),
                                       patterns=ok_patterns([r.f((k,))]))
                return
            if has_buffer:
                yield 'returns the array passed in (reset, not reallocated)', z3.BoolVal(r is sim_fore)
            yield 'one entry per bin', to_z3(r.shape[0]) == K
            k = c.ctx.fresh_int('k!sk')
            ink = z3.And(0 <= k, k < K)
            val = to_real(r.f((k,)))
            pred = lambda tt: in_bin(W, k, u.f((tt,)))
            cn = find_app(val, 'CNT')
            if cn is not None:
                h = pointwise_count_hint(c, 'number t lands in bin k iff F(k-1) <= u_t < F(k)', cn, pred, n)
                if h:
                    yield h[0], z3.Implies(ink, h[1]), h[2]
            yield 'sim[k] == #{t : F(k-1) <= u_t < F(k)}', z3.Implies(ink, val == z3.ToReal(CNT(z3.Lambda([t], pred(t)), n)))
            yield 'zero-width (zero-rate) bins receive nothing', z3.Implies(z3.And(ink, z3.Not(positive_width(W, k))), val == 0)
            yield 'total == prescribed number', to_real(sum_term(c.L, r)) == z3.ToReal(n)
    S.qualname = qualname
    S.__name__ = 'SimInjected_' + qualname.split('.')[-2]
    return S


# ------------------------------------------------------------------ rejection sampling from numpy.random
class RejectionLoop(LoopInv):
    """while num_active_cells < sim_cells: draw u, loc = searchsorted(W, u, 'right'); if sim[loc] == 0: sim[loc] = 1; n += 1
    invariant: sim is a 0/1 array with exactly num_active_cells ones, all in bins of positive width; num_active_cells <= sim_cells"""

    def havoc(self, I, fr, i, it):
        sim = fr.locals['sim_fore']
        fresh = I.lib.fresh_arr('sim_loop', sim.shape, 'float64')
        sim.f = fresh.f
        sim.term, sim.term_f = fresh.term, sim.f
        self.pre_f = fresh.f
        self.pre_term = fresh.term
        fr.locals['num_active_cells'] = I.ctx.fresh_int('num_active')
        for nm in ('random_num', 'loc'):
            fr.locals.pop(nm, None)
        I.ctx.ghost['rng'] = I.ctx.fresh('rng_in_loop', RNG)

    def inv(self, I, fr, i, it):
        sim, W = fr.locals['sim_fore'], fr.locals['sampling_weights']
        K = to_z3(sim.shape[0])
        na = to_z3(fr.locals['num_active_cells'])
        want = to_z3(fr.locals['sim_cells'])
        if self.mode == 'prove':
            k = I.ctx.fresh_int('k!sk')
            q = lambda body: z3.Implies(z3.And(0 <= k, k < K), body)
        else:
            k = z3.Int('k!inv')
            q = lambda body: z3.ForAll([k], z3.Implies(z3.And(0 <= k, k < K), body), patterns=ok_patterns([sim.f((k,))]))
        v = to_real(sim.f((k,)))
        yield 'entries are 0 or 1', q(z3.Or(v == 0, v == 1))
        yield 'active cells only in bins of positive width (positive rate)', q(z3.Implies(v == 1, positive_width(W, k)))
        yield 'number of active cells', to_real(sum_term(I.lib, sim)) == z3.ToReal(na)
        yield 'never more than prescribed', z3.And(na >= 0, na <= want)

    def step_lemmas(self, I, fr, i, it):
        # L4_sum_point_update at loc: SUM(A[loc := 1], K) = SUM(A, K) - A[loc] + 1
        sim = fr.locals['sim_fore']
        loc = fr.locals.get('loc')
        if loc is None:
            return
        K = to_z3(sim.shape[0])
        t = z3.Int('i!lam')
        pre = self.pre_f
        A = z3.Lambda([t], to_real(pre((t,))))
        upd = z3.Lambda([t], z3.If(t == to_z3(loc), z3.RealVal(1), to_real(pre((t,)))))
        I.used_lemmas.add('L4.sum_point_update')
        yield z3.Implies(z3.And(0 <= to_z3(loc), to_z3(loc) < K),
                         SUM(upd, K) == SUM(A, K) - to_real(pre((to_z3(loc),))) + 1)


def _directed_rejection(module):
    """weights with leading / interior / trailing zero-rate bins; the first draws are the boundary values themselves"""
    fam = []
    for W in ([0.0, 0.25, 0.25, 0.75, 1.0, 1.0], [0.5, 0.5, 1.0], [0.125, 0.375, 0.375, 0.375, 1.0], [1.0], [0.0, 0.0, 1.0]):
        pos = sum(1 for a, b in zip([0.0] + W[:-1], W) if b > a)
        bnd = sorted(set([0.0] + [w for w in W if w < 1.0]))
        for n in sorted({0, 1, pos // 2, pos}):
            for draws in (bnd, bnd[::-1], [0.0, 0.0] + bnd, []):
                fam.append(('binary_simulate_catalog', dict(module=module, sim_cells=n, sampling_weights=W, draws=draws)))
    return fam


def sim_rejection(qualname, has_buffer):
    class S:
        directed = staticmethod(lambda: _directed_rejection(qualname.split('.')[-2]))
        case = 'random_numbers=None (rejection sampling from numpy.random)'
        properties = ('C06',)
        loops = {0: RejectionLoop()}

        def params(c):
            K, n = c.int('K'), c.int('sim_cells')
            c.ctx.assume(z3.And(K >= 1, n >= 0))
            d = dict(sim_cells=n, sampling_weights=c.arr('W', 'float64', n=K))
            if has_buffer:
                d['sim_fore'] = c.arr('sim', 'float64', n=K)
            d['random_numbers'] = None
            return d

        def accepts(c, sim_cells, sampling_weights, sim_fore=None, random_numbers=None):
            return random_numbers is None

        def requires(c, sim_cells, sampling_weights, sim_fore=None, random_numbers=None):
            return _weights_requires(sampling_weights) + [to_z3(sim_cells) >= 0]

        def result(c, sim_cells, sampling_weights, sim_fore=None, random_numbers=None):
            K = sampling_weights.shape[0]
            fresh = c.L.fresh_arr('simcat', (K,), 'float64')
            c.ctx.ghost['rng'] = c.ctx.fresh('rng_after_rejection_sampling', RNG)
            if has_buffer:
                sim_fore.f = fresh.f
                sim_fore.term, sim_fore.term_f = fresh.term, sim_fore.f
                return sim_fore
            return fresh

        def ensures(c, r, sim_cells, sampling_weights, sim_fore=None, random_numbers=None):
            W = sampling_weights
            K, n = to_z3(W.shape[0]), to_z3(sim_cells)
            if c.mode == 'assume':
                k = z3.Int('k!q')
                v = to_real(r.f((k,)))
                yield 'sim', z3.ForAll([k], z3.Implies(z3.And(0 <= k, k < K), z3.And(z3.Or(v == 0, v == 1),
                                                                                   z3.Implies(v == 1, positive_width(W, k)))),
                                       patterns=ok_patterns([r.f((k,))]))
                yield 'total', to_real(sum_term(c.L, r)) == z3.ToReal(n)
                return
            if has_buffer:
                yield 'returns the array passed in (reset, not reallocated)', z3.BoolVal(r is sim_fore)
            yield 'one entry per bin', to_z3(r.shape[0]) == K
            k = c.ctx.fresh_int('k!sk')
            ink = z3.And(0 <= k, k < K)
            v = to_real(r.f((k,)))
            yield 'every bin is active at most once (0/1)', z3.Implies(ink, z3.Or(v == 0, v == 1))
            yield 'never an active cell in a zero-width (zero-rate) bin', z3.Implies(z3.And(ink, v == 1), positive_width(W, k))
            yield 'exactly the prescribed number of active cells', to_real(sum_term(c.L, r)) == z3.ToReal(n)
    S.qualname = qualname
    S.__name__ = 'SimRejection_' + qualname.split('.')[-2]
    return S


for _q, _b in ((BSIM, True), (RSIM, False)):
    REG.add(sim_injected(_q, _b))
    REG.add(sim_rejection(_q, _b))


# ------------------------------------------------------------------ kernels: _brier_score_test, _binary_likelihood_test
from pyvc.lib import EXP, LOG
BRIER = 'csep.core.brier_evaluations._brier_score_ndarray'
BRIER_TEST = 'csep.core.brier_evaluations._brier_score_test'
BLL = 'csep.core.binomial_evaluations.binary_joint_log_likelihood_ndarray'
BLL_TEST = 'csep.core.binomial_evaluations._binary_likelihood_test'


def brier_spec(F, active, K):
    """N * brier == -2 * sum_k (1 - exp(-rate_k) - [bin k active])^2 ; returns the sum"""
    def term(k):
        d = 1 - EXP(-to_real(_flat(F, k))) - z3.If(active(k), z3.RealVal(1), z3.RealVal(0))
        return d * d
    return rsum(term, K)


def bll_sum(forecast, catalog):
    from contracts.evals import bll_sum as f
    return f(forecast, catalog)


def bll_spec(F, active, K):
    return rsum(lambda k: z3.If(active(k), LOG(1 - EXP(-to_real(_flat(F, k)))), -to_real(_flat(F, k))), K)


def n_active_of(O, K):
    t = z3.Int('i!lam')
    return CNT(z3.Lambda([t], to_real(_flat(O, t)) != 0), to_z3(K))


class KernelLoop(LoopInv):
    """for idx in range(num_simulations) of the binary / Brier kernels with injected random numbers: the list holds, for every
    simulation s done so far, the score of the catalog placed by exact inverse CDF from row s of the random numbers"""
    which = 'brier'
    listname = 'simulated_brier'

    def havoc(self, I, fr, i, it):
        self.LLF = I.ctx.fresh_fun('sim_score', z3.IntSort(), z3.RealSort())
        LLF = self.LLF
        fr.locals[self.listname] = SymList(to_z3(i), lambda s: LLF(to_z3(s)), self.listname)
        sim = fr.locals.get('sim_fore')
        if isinstance(sim, Arr):
            fresh = I.lib.fresh_arr('sim_havoc', sim.shape, 'float64')
            sim.f = fresh.f
            sim.term, sim.term_f = fresh.term, sim.f
        else:
            fr.locals.pop('sim_fore', None)
        fr.locals.pop('current_brier', None)
        fr.locals.pop('current_ll', None)

    def counts(self, I, fr, s):
        W, u = fr.locals['sampling_weights'], fr.locals['random_numbers']
        n = to_z3(fr.locals['n_active_cells'])
        t = z3.Int('i!cnt')
        return lambda k: CNT(z3.Lambda([t], in_bin(W, k, u.f((s, t)))), n)

    def spec(self, I, fr, s):
        F = self.rates(I, fr)
        K = to_z3(fr.locals['sampling_weights'].shape[0])
        cnt = self.counts(I, fr, s)
        if self.which == 'brier':
            return -2 * brier_spec(F, lambda k: cnt(k) > 0, K) / z3.ToReal(K)
        return bll_spec(F, lambda k: cnt(k) != 0, K)

    def rates(self, I, fr):
        return I.ctx.ghost['kernel_rates']

    def inv(self, I, fr, i, it):
        lst = fr.locals[self.listname]
        n_l = to_z3(lst.n) if isinstance(lst, SymList) else z3.IntVal(len(lst))
        yield 'one simulated score per simulation done', n_l == to_z3(i)
        if isinstance(lst, list):
            return
        if self.mode == 'prove':
            s = I.ctx.fresh_int('s!sk')
            cur = simp(to_z3(i) - 1)
            # proof step for the entry appended in this iteration: its summands agree bin by bin with the specification's
            calls = [x for x in I.ctx.ghost.get('calls', []) if x[0] in (BRIER, BLL)]
            if calls and simp(to_z3(i) == 0) is not True:
                from pyvc.contracts import pointwise_sum_hint
                from contracts.evals import brier_sum, Builder_like
                loc = calls[-1][2]
                F = self.rates(I, fr)
                K = to_z3(fr.locals['sampling_weights'].shape[0])
                cnt = self.counts(I, fr, cur)
                if self.which == 'brier':
                    full = brier_sum(loc['forecast'], loc['observations'])

                    def term(k):
                        d = 1 - EXP(-to_real(_flat(F, k))) - z3.If(cnt(k) > 0, z3.RealVal(1), z3.RealVal(0))
                        return d * d
                else:
                    full = bll_sum(loc['forecast'], loc['catalog'])
                    term = lambda k: z3.If(cnt(k) != 0, LOG(1 - EXP(-to_real(_flat(F, k)))), -to_real(_flat(F, k)))
                h = pointwise_sum_hint(Builder_like(I), 'summands of the new entry agree bin by bin', full, term, K)
                if h:
                    yield h
            yield 'earlier simulated scores are kept', z3.Implies(z3.And(0 <= s, s < cur), to_real(lst.f(s)) == self.spec(I, fr, s))
            yield 'the new simulated score is the score of its inverse-CDF catalog', z3.Implies(
                cur >= 0, to_real(lst.f(cur)) == self.spec(I, fr, cur))
        else:
            s = z3.Int('s!inv')
            yield 'spec', z3.ForAll([s], z3.Implies(z3.And(0 <= s, s < to_z3(i)), to_real(lst.f(s)) == self.spec(I, fr, s)),
                                    patterns=[lst.f(s)])


class SeededKernelLoop(LoopInv):
    """seeded run (random_numbers=None): the generator is seeded with `seed` before the first draw - for every seed, 0
    included -, every iteration simulates one catalog with the observed number of active cells and appends one score"""
    listname = 'simulated_brier'
    simq = RSIM

    def havoc(self, I, fr, i, it):
        LLF = I.ctx.fresh_fun('sim_score', z3.IntSort(), z3.RealSort())
        fr.locals[self.listname] = SymList(to_z3(i), lambda s: LLF(to_z3(s)), self.listname)
        sim = fr.locals.get('sim_fore')
        if isinstance(sim, Arr):
            fresh = I.lib.fresh_arr('sim_havoc', sim.shape, 'float64')
            sim.f = fresh.f
            sim.term, sim.term_f = fresh.term, sim.f
        else:
            fr.locals.pop('sim_fore', None)
        fr.locals.pop('current_brier', None)
        fr.locals.pop('current_ll', None)
        I.ctx.ghost['rng'] = I.ctx.fresh('rng_at_iteration', RNG)
        I.ctx.ghost['loop_calls_from'] = len(I.ctx.ghost.get('calls', []))

    def inv(self, I, fr, i, it):
        lst = fr.locals[self.listname]
        n_l = to_z3(lst.n) if isinstance(lst, SymList) else z3.IntVal(len(lst))
        seed = fr.locals.get('seed')
        if self.mode == 'prove' and simp(to_z3(i) == 0) is True and seed is not None:
            yield 'the generator is seeded with `seed` before the first draw (every seed, including 0)', \
                z3.BoolVal(rng_state(I.lib).eq(SEEDED(to_z3(seed))))
        yield 'one simulated score per simulation done', n_l == to_z3(i)
        if self.mode == 'prove' and simp(to_z3(i) == 0) is not True:
            calls = [x for x in I.ctx.ghost.get('calls', [])[I.ctx.ghost.get('loop_calls_from', 0):] if x[0] == self.simq]
            yield 'one catalog is simulated per iteration', z3.BoolVal(len(calls) == 1)
            if calls:
                yield 'the simulated catalog has the observed number of active cells', \
                    to_z3(calls[0][2]['sim_cells']) == I.ctx.ghost['n_active_spec']


def kernel_case(which, seeded, rank=2):
    brier = which == 'brier'
    if seeded:
        loop = SeededKernelLoop()
        loop.simq = RSIM if brier else BSIM
    else:
        loop = KernelLoop()
        loop.which = which
    loop.listname = 'simulated_brier' if brier else 'simulated_ll'

    class BK:
        qualname = BRIER_TEST if brier else BLL_TEST
        case = '%s, %s' % ('2-d rates (space x magnitude)' if rank == 2 else '1-d rates (spatial)',
                           'seeded (numpy.random)' if seeded else 'injected random numbers')
        properties = ('C06', 'C16')
        loops = {0: loop}
        oracle = 'kernel_test'

        def witness(m, p):
            from pyvc.driver import model_value
            out = dict(kind=which, rates=model_value(m, p['forecast_data']), counts=model_value(m, p['observed_data']),
                       num_simulations=model_value(m, p['num_simulations']))
            if p.get('random_numbers') is not None:
                out['random_numbers'] = model_value(m, p['random_numbers'])
            if p.get('seed') is not None:
                out['seed'] = model_value(m, p['seed'])
            return out

        def directed():
            """small concrete inputs: zero-rate bins (Brier), several events per bin, seed 0 and another seed, boundary numbers"""
            fam = []
            rates = [[0.5, 0.25], [1.5, 0.125], [2.0, 0.75]] if not brier else [[0.5, 0.0], [1.5, 0.125], [0.0, 0.75]]
            for counts in ([[1, 0], [0, 2], [0, 1]], [[0, 0], [3, 0], [0, 0]], [[0, 0], [0, 0], [0, 0]]):
                na = sum(1 for r in counts for v in r if v)
                if seeded:
                    for sd in (0, 7):
                        fam.append(('kernel_test', dict(kind=which, rates=rates, counts=counts, num_simulations=3, seed=sd)))
                else:
                    tot = sum(v for r in rates for v in r)
                    cum, acc = [], 0.0
                    for r in rates:
                        for v in r:
                            acc += v
                            cum.append(acc / tot)
                    picks = [0.0] + [x for x in cum if x < 1.0] + [0.999999]
                    rows = [[picks[(i + j) % len(picks)] for j in range(na)] for i in range(3)]
                    fam.append(('kernel_test', dict(kind=which, rates=rates, counts=counts, num_simulations=3, random_numbers=rows)))
                    # all numbers of a row in one bin (several simulated events in the same cell)
                    rows = [[picks[i % len(picks)]] * na for i in range(3)]
                    fam.append(('kernel_test', dict(kind=which, rates=rates, counts=counts, num_simulations=3, random_numbers=rows)))
            return fam
        directed = staticmethod(directed)

        def params(c):
            n0, n1, S, n = c.int('n_cells'), c.int('n_mags'), c.int('num_simulations'), c.int('n_active')
            c.ctx.assume(z3.And(n0 >= 1, n1 >= 1, S >= 1, n >= 0))
            if rank == 2:
                F = c.arr2_flat('forecast', 'float64', (n0, n1))
                O = c.arr2_flat('observed', 'float64', (n0, n1))
            else:
                F = c.arr('forecast', 'float64', n=n0)
                O = c.arr('observed', 'float64', n=n0)
            U = None if seeded else c.arr2('random_numbers', 'float64', (S, n))
            c.ctx.ghost['kernel_rates'] = F
            c.ctx.ghost['n_active_spec'] = n
            d = dict(forecast_data=F, observed_data=O, num_simulations=S, random_numbers=U, seed=(c.int('seed') if seeded else None),
                     verbose=False, _n=n)
            if not brier:
                d.update(use_observed_counts=True, normalize_likelihood=False)
            return d

        def requires(c, forecast_data, observed_data, num_simulations, random_numbers, seed, verbose, _n, **kw):
            F, O, U = forecast_data, observed_data, random_numbers
            K = _size(F)
            Ff, Of = (F.flat_backing, O.flat_backing) if F.ndim == 2 else (F, O)
            i, j = z3.Ints('i!rq j!rq')
            # Brier: rates >= 0 with a positive total.  Binary log-likelihood: every rate positive (an event - observed or
            # simulated - in a zero-rate bin is the open finding D14: the masked bin is scored through its raw value)
            pos = (Ff.f((i,)) >= 0) if brier else (Ff.f((i,)) > 0)
            out = [z3.ForAll([i], z3.Implies(z3.And(0 <= i, i < K), z3.And(pos, Of.f((i,)) >= 0)), patterns=[Ff.f((i,))]),
                   rsum(lambda k: _flat(F, k), K) > 0,
                   n_active_of(O, K) == _n]
            if U is not None:
                # one random number per active cell of the observation
                out.append(z3.ForAll([i, j], z3.Implies(z3.And(0 <= i, i < num_simulations, 0 <= j, j < _n),
                                                        z3.And(U.f((i, j)) >= 0, U.f((i, j)) < 1)), patterns=[U.f((i, j))]))
            return out

        def ensures(c, r, forecast_data, observed_data, num_simulations, random_numbers, seed, verbose, _n, **kw):
            F, O = forecast_data, observed_data
            K = _size(F)
            yield 'returns (quantile, observed score, simulated scores)', z3.BoolVal(isinstance(r, tuple) and len(r) == 3)
            qs, obs, sims = r
            if brier:
                yield 'observed score == -2/N sum (1 - exp(-rate) - [bin has an event])^2', \
                    to_real(obs) * z3.ToReal(K) == -2 * brier_spec(F, lambda k: to_real(_flat(O, k)) > 0, K)
            else:
                yield 'observed score == sum_active ln(1 - exp(-rate)) + sum_inactive (-rate)', \
                    to_real(obs) == bll_spec(F, lambda k: to_real(_flat(O, k)) != 0, K)
            yield 'one simulated score per simulation', z3.BoolVal(isinstance(sims, SymList))
            if isinstance(sims, SymList):
                yield 'number of simulated scores', to_z3(sims.n) == num_simulations
                t = z3.Int('i!lam')
                le = CNT(z3.Lambda([t], to_real(sims.f(t)) <= to_real(obs)), num_simulations)
                yield 'hint:quantile * num_simulations == count', to_real(qs) * z3.ToReal(num_simulations) == z3.ToReal(le)
                yield 'hint:count within 0..num_simulations', z3.And(le >= 0, le <= num_simulations)
                yield 'quantile == fraction of simulated scores not exceeding the observed one', \
                    to_real(qs) * z3.ToReal(num_simulations) == z3.ToReal(le)
                yield 'quantile in [0,1]', z3.And(to_real(qs) >= 0, to_real(qs) <= 1)
    # ---- modular use by the public tests
    def accepts(c, forecast_data, observed_data, num_simulations=1000, random_numbers=None, seed=None, **kw):
        if not (isinstance(forecast_data, Arr) and isinstance(observed_data, Arr)) or hasattr(forecast_data, 'mask'):
            return False
        if forecast_data.ndim != rank or observed_data.ndim != rank:
            return False
        if rank == 2 and (getattr(forecast_data, 'flat_backing', None) is None or getattr(observed_data, 'flat_backing', None) is None):
            return False
        return (random_numbers is None) == seeded

    def result(c, forecast_data, observed_data, num_simulations=1000, random_numbers=None, seed=None, **kw):
        S = to_z3(num_simulations)
        LLF = c.ctx.fresh_fun('kernel_sims', z3.IntSort(), z3.RealSort())
        if seeded:
            c.ctx.ghost['rng'] = c.ctx.fresh('rng_after_kernel', RNG)
        return (c.ctx.fresh_real('kernel_quantile'), c.ctx.fresh_real('kernel_observed'), SymList(S, lambda s: LLF(to_z3(s)), 'kernel_sims'))

    def call_requires(c, forecast_data, observed_data, num_simulations=1000, random_numbers=None, seed=None, verbose=True, **kw):
        n = c.ctx.fresh_int('n_active_at_call')
        c.ctx.assume(n == n_active_of(observed_data, _size(forecast_data)))
        return BK._requires_impl(c, forecast_data, observed_data, to_z3(num_simulations), random_numbers, seed, verbose, n, **kw)

    def call_ensures(c, r, forecast_data, observed_data, num_simulations=1000, random_numbers=None, seed=None, verbose=True, **kw):
        n = c.ctx.fresh_int('n_active_at_call')
        c.ctx.assume(n == n_active_of(observed_data, _size(forecast_data)))
        return BK._ensures_impl(c, r, forecast_data, observed_data, to_z3(num_simulations), random_numbers, seed, verbose, n, **kw)

    BK._requires_impl, BK._ensures_impl = staticmethod(BK.requires), staticmethod(BK.ensures)

    def requires(c, forecast_data, observed_data, num_simulations=1000, random_numbers=None, seed=None, verbose=True, _n=None, **kw):
        if _n is None:
            return call_requires(c, forecast_data, observed_data, num_simulations, random_numbers, seed, verbose, **kw)
        return BK._requires_impl(c, forecast_data, observed_data, num_simulations, random_numbers, seed, verbose, _n, **kw)

    def ensures(c, r, forecast_data, observed_data, num_simulations=1000, random_numbers=None, seed=None, verbose=True, _n=None, **kw):
        if _n is None:
            return call_ensures(c, r, forecast_data, observed_data, num_simulations, random_numbers, seed, verbose, **kw)
        return BK._ensures_impl(c, r, forecast_data, observed_data, num_simulations, random_numbers, seed, verbose, _n, **kw)

    BK.accepts, BK.result = staticmethod(accepts), staticmethod(result)
    BK.requires, BK.ensures = staticmethod(requires), staticmethod(ensures)
    BK.__name__ = 'Kernel_%s_%s_%d' % (which, 'seeded' if seeded else 'injected', rank)
    return BK


for _w in ('brier', 'binary'):
    for _sd in (False, True):
        REG.add(kernel_case(_w, _sd, 2))
for _sd in (False, True):
    REG.add(kernel_case('binary', _sd, 1))


# ------------------------------------------------------------------ public tests (plumbing over the kernels)
from contracts.evals import _abstract_forecast


def _gridded_family(fname):
    from contracts.evals import directed_gridded, _GRIDDED_NAME
    return directed_gridded(_GRIDDED_NAME[fname])


def public_case(module, fname, resname, which, spatial, seeded):
    kernel = BRIER_TEST if which == 'brier' else BLL_TEST
    brier = which == 'brier'

    class Pub:
        directed = _gridded_family(fname)
        qualname = 'csep.core.%s.%s' % (module, fname)
        case = 'abstract forecast / catalog, %s' % ('seeded' if seeded else 'injected random numbers')
        properties = ('C16', 'C06')

        def params(c):
            from pyvc.core import Lam
            fc, data, sc, mc, mags, n0, n1 = _abstract_forecast(c, 2)
            S = c.int('num_simulations')
            c.ctx.assume(S >= 1)
            obs2 = c.arr2_flat('obs_counts', 'float64', (n0, n1))
            obs_s = c.arr('obs_spatial', 'float64', n=n0)
            cat = c.obj(None, spatial_counts=Lam(lambda *a, **k: obs_s), spatial_magnitude_counts=Lam(lambda *a, **k: obs2),
                        name='cat', region=c.obj(None, magnitudes=mags))
            F, O = (sc, obs_s) if spatial else (data, obs2)
            n = c.int('n_active')
            c.ctx.assume(n == n_active_of(O, _size(F)))
            U = None if seeded else c.arr2('random_numbers', 'float64', (S, n))
            return dict(gridded_forecast=fc, observed_catalog=cat, num_simulations=S, seed=(c.int('seed') if seeded else None),
                        random_numbers=U, verbose=False, _v=dict(F=F, O=O, n=n))

        def requires(c, gridded_forecast, observed_catalog, num_simulations, seed, random_numbers, verbose, _v):
            kc = [k for k in REG.cases(kernel) if k.accepts(c, _v['F'], _v['O'], num_simulations, random_numbers, seed)][0]
            return kc._requires_impl(c, _v['F'], _v['O'], num_simulations, random_numbers, seed, False, _v['n'])

        def ensures(c, r, gridded_forecast, observed_catalog, num_simulations, seed, random_numbers, verbose, _v):
            F, O = _v['F'], _v['O']
            K = _size(F)
            yield 'returns an evaluation result', z3.BoolVal(isinstance(r, Obj))
            calls = c.calls(kernel)
            yield 'the scores come from the test kernel (one call)', z3.BoolVal(len(calls) == 1)
            if brier:
                yield 'observed statistic == Brier score of the observed space-magnitude counts', \
                    to_real(r.fields.get('observed_statistic')) * z3.ToReal(K) == -2 * brier_spec(F, lambda k: to_real(_flat(O, k)) > 0, K)
            else:
                yield 'observed statistic == binary joint log-likelihood of the observed %s counts' % (
                    'spatial' if spatial else 'space-magnitude'), \
                    to_real(r.fields.get('observed_statistic')) == bll_spec(F, lambda k: to_real(_flat(O, k)) != 0, K)
            if calls:
                loc, (qs, obs, sims) = calls[0][1], calls[0][2]
                yield 'quantile and test distribution are those of the kernel', z3.BoolVal(
                    r.fields.get('quantile') is qs and r.fields.get('test_distribution') is sims)
                yield 'seed and random numbers are passed through', z3.BoolVal(
                    loc.get('seed') is seed and loc.get('random_numbers') is random_numbers)
                yield 'number of simulations passed through', to_z3(loc.get('num_simulations')) == num_simulations
                if not brier:
                    yield 'every simulation uses the observed number of active cells', z3.BoolVal(loc.get('use_observed_counts') is True)
            yield 'name / status / names', z3.BoolVal(r.fields.get('name') == resname and r.fields.get('status') == 'normal'
                                                      and r.fields.get('sim_name') == 'fc' and r.fields.get('obs_name') == 'cat')
    Pub.__name__ = 'Pub_%s_%s' % (fname, 'seeded' if seeded else 'injected')
    return Pub


for _sd in (False, True):
    REG.add(public_case('binomial_evaluations', 'binary_spatial_test', 'Binary S-Test', 'binary', True, _sd))
    REG.add(public_case('binomial_evaluations', 'binary_conditional_likelihood_test', 'Binary CL-Test', 'binary', False, _sd))
    REG.add(public_case('brier_evaluations', 'brier_score_test', 'Brier score-Test', 'brier', False, _sd))
