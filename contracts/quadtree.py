"""Contracts for the quadtree construction (property C17): structural induction over the recursive split,
with the assumed mercantile contract: the four children of a tile partition it (half-open rectangles,
shared edges are identical floats because division by 2^z is exact)."""
import ast

import z3

from pyvc.contracts import contract
from pyvc.core import Opaque, PyRaise, Unsupported, builtin_exc, to_z3, to_real, is_sym
from pyvc.lib import model, MODELS, CNT

Tile = z3.DeclareSort('Tile')
CHILD = z3.Function('child', Tile, z3.IntSort(), Tile)
DEPTH = z3.Function('depth', Tile, z3.IntSort())
W = z3.Function('west', Tile, z3.RealSort())
E = z3.Function('east', Tile, z3.RealSort())
S = z3.Function('south', Tile, z3.RealSort())
N = z3.Function('north', Tile, z3.RealSort())
TileSet = z3.SetSort(Tile)
FN = 'csep.core.regions._create_tile_fix_len'
FT = 'csep.core.regions._create_tile'


def in_tile(x, y, t):
    return z3.And(W(t) <= x, x < E(t), S(t) <= y, y < N(t))


MX = z3.Function('midx', Tile, z3.RealSort())
MY = z3.Function('midy', Tile, z3.RealSort())


def mercantile_axioms():
    """assumed mercantile contract, for every tile t and its four children (quadkey digit d: bit 0 = east half,
    bit 1 = south half): a non-empty tile has non-empty children that share its outer edges and one common
    mid-line each way"""
    t = z3.Const('t!mx', Tile)
    c = [CHILD(t, d) for d in range(4)]
    body = [z3.Implies(z3.And(W(t) < E(t), S(t) < N(t)), z3.And(W(t) < MX(t), MX(t) < E(t), S(t) < MY(t), MY(t) < N(t)))]
    for d in range(4):
        east, south = d & 1, (d >> 1) & 1
        body += [DEPTH(c[d]) == DEPTH(t) + 1,
                 W(c[d]) == (MX(t) if east else W(t)), E(c[d]) == (E(t) if east else MX(t)),
                 S(c[d]) == (S(t) if south else MY(t)), N(c[d]) == (MY(t) if south else N(t))]
    return [z3.ForAll([t], z3.And(*body), patterns=[CHILD(t, 0)]),
            z3.ForAll([t], z3.And(*body), patterns=[CHILD(t, 3)]),
            z3.ForAll([t], z3.And(*body), patterns=[MX(t)])]


def qkey(t):
    """a quadkey string, abstractly: the tile it names"""
    def binop(I, op, a, b):
        if isinstance(op, ast.Add) and a is k and isinstance(b, str) and b in '0123' and len(b) == 1:
            return qkey(CHILD(t, int(b)))
        raise Unsupported('quadkey arithmetic')
    k = Opaque('quadkey', tile=t, len=lambda I: DEPTH(t), binop=binop, is_str=True)
    return k


@model('mercantile.quadkey_to_tile')
def _q2t(L, q):
    if isinstance(q, Opaque) and q.name == 'quadkey':
        return Opaque('mtile', tile=q.tile)
    raise Unsupported('quadkey_to_tile of a concrete key')


@model('mercantile.bounds')
def _bounds(L, tl):
    t = tl.tile
    return Opaque('bounds', west=W(t), east=E(t), south=S(t), north=N(t))


class KeyList:
    """ghost view of the python list the recursion appends to: the set of keys appended so far"""

    def __init__(self, ctx, name='qk'):
        self.before = z3.Const(name + '.before', TileSet)
        self.added = z3.EmptySet(Tile)
        self.values = {}      # parallel list `num`: NUMOF function

    def opaque(self):
        kl = self

        def call_method(I, name, args):
            raise Unsupported(name)
        o = Opaque('keylist', kl=self)
        return o


from pyvc.lib import method


@method('keylist', 'append')
def _kl_append(L, o, key):
    if not (isinstance(key, Opaque) and key.name == 'quadkey'):
        raise Unsupported('append of a non-key')
    o.kl.added = z3.SetAdd(o.kl.added, key.tile)
    o.kl.last = key.tile
    return None


@method('numlist', 'append')
def _nl_append(L, o, v):
    # `num` is appended right after `qk`: value paired with the key appended last
    o.pairs.append((o.keys.kl.last, v))
    return None


class _FixLen:
    qualname = FN
    recursive = True
    properties = ('C17',)
    case = 'abstract tile tree'

    def params(c):
        t = z3.Const('t', Tile)
        kl = KeyList(c.ctx)
        return dict(quadk=qkey(t), zoom=c.int('zoom'), qk=kl.opaque(), _t=t, _kl=kl)

    def measure(c, quadk, zoom, qk):
        d = DEPTH(quadk.tile)
        return z3.If(zoom - d > 0, zoom - d, 0) + 0

    def requires(c, quadk, zoom, qk, _t=None, _kl=None):
        t = quadk.tile
        for ax in mercantile_axioms():
            c.ctx.fact(ax)
        return [DEPTH(t) >= 1, W(t) < E(t), S(t) < N(t)]

    def result(c, quadk, zoom, qk):
        """modular (recursive) use: the call appends a fresh set LV with a leaf function LF"""
        t = quadk.tile
        LV = c.ctx.fresh('LV', TileSet)
        LF = c.ctx.fresh_fun('LF', z3.RealSort(), z3.RealSort(), Tile)
        qk.kl.added = z3.SetUnion(qk.kl.added, LV)
        c.ctx.ghost.setdefault('rec_calls', []).append((t, LV, LF))
        x, y = z3.Reals('x!q y!q')
        a = z3.Const('a!q', Tile)
        d = z3.If(DEPTH(t) >= zoom, DEPTH(t), zoom)
        c.ctx.assume(z3.ForAll([x, y], z3.Implies(in_tile(x, y, t), z3.And(z3.IsMember(LF(x, y), LV), in_tile(x, y, LF(x, y)))),
                               patterns=[LF(x, y)]))
        c.ctx.assume(z3.ForAll([x, y, a], z3.Implies(z3.And(z3.IsMember(a, LV), in_tile(x, y, a)),
                                                     z3.And(in_tile(x, y, t), a == LF(x, y))),
                               patterns=[z3.MultiPattern(z3.IsMember(a, LV), LF(x, y))]))
        c.ctx.assume(z3.ForAll([a], z3.Implies(z3.IsMember(a, LV), DEPTH(a) == d), patterns=[z3.IsMember(a, LV)]))
        return None

    def ensures(c, r, quadk, zoom, qk, _t=None, _kl=None):
        if c.mode == 'assume':
            return
        t = quadk.tile
        kl = qk.kl
        LEAVES = kl.added
        calls = c.ctx.ghost.get('rec_calls', [])
        x, y = c.ctx.fresh_real('x!sk'), c.ctx.fresh_real('y!sk')
        a = c.ctx.fresh('a!sk', Tile)
        if calls:
            yield 'splits into the four children', z3.BoolVal(len(calls) == 4 and all(
                ct.eq(CHILD(t, d)) for d, (ct, _, _) in enumerate(calls)))
            lf = calls[-1][2](x, y)
            for ct, LV, LF in reversed(calls[:-1]):
                lf = z3.If(in_tile(x, y, ct), LF(x, y), lf)
        else:
            lf = t
        d = z3.If(DEPTH(t) >= zoom, DEPTH(t), zoom)
        yield 'coverage: a point of the tile lies in an appended leaf', z3.Implies(
            in_tile(x, y, t), z3.And(z3.IsMember(lf, LEAVES), in_tile(x, y, lf)))
        for d_, (ct, LV, LF) in enumerate(calls):
            yield 'hint:child %d: a leaf of the child holding the point is its leaf function value' % d_, z3.Implies(
                z3.And(z3.IsMember(a, LV), in_tile(x, y, a)), z3.And(in_tile(x, y, ct), a == LF(x, y)))
            yield 'hint:child %d lies inside the tile' % d_, z3.Implies(in_tile(x, y, ct), in_tile(x, y, t))
        if calls:
            yield 'hint:the children are pairwise disjoint', z3.And(*[
                z3.Not(z3.And(in_tile(x, y, calls[i][0]), in_tile(x, y, calls[j][0])))
                for i in range(len(calls)) for j in range(i + 1, len(calls))])
            yield 'hint:membership in the union', z3.Implies(z3.IsMember(a, LEAVES), z3.Or(*[z3.IsMember(a, LV) for _, LV, _ in calls]))
        yield 'disjointness: an appended leaf holding the point lies inside the tile', z3.Implies(
            z3.And(z3.IsMember(a, LEAVES), in_tile(x, y, a)), in_tile(x, y, t))
        yield 'disjointness: an appended leaf holding the point is the leaf of that point', z3.Implies(
            z3.And(z3.IsMember(a, LEAVES), in_tile(x, y, a)), a == lf)
        yield 'all appended leaves have length max(zoom, len(quadk))', z3.Implies(z3.IsMember(a, LEAVES), DEPTH(a) == d)
        yield 'at least one leaf is appended', z3.Not(LEAVES == z3.EmptySet(Tile)) if not calls else z3.BoolVal(True)


contract(_FixLen)


# ---------------------------------------------------------------------------------------------------
# _create_tile: catalog-driven refinement
# ---------------------------------------------------------------------------------------------------
RECORDED = z3.Function('recorded_count', Tile, z3.IntSort())     # the number appended to `num` together with key a


@method('numlist', 'append')
def _nl_append2(L, o, v):
    L.ctx.assume(RECORDED(o.keys.kl.last) == to_z3(v))
    return None


@model('numpy.size')
def _np_size(L, a, axis=None):
    from pyvc.core import Arr, simp
    a = L.as_arr(a)
    return simp(a.size())


def events_in(lon, lat, a, n):
    e = z3.Int('e!cnt')
    return CNT(z3.Lambda([e], in_tile(to_real(lon.f((e,))), to_real(lat.f((e,))), a)), to_z3(n))


def _directed_quadtree_catalogs():
    """concrete catalogs (conventions of rt/oracles_io.quadtree_grid): events exactly on tile edges and corners (a north / east
    edge belongs to the neighbour), tiles holding exactly `threshold` events (not refined) and one more (refined)"""
    edge_lat = 66.51326044311186        # common edge of zoom-2 tiles
    fam = []
    for thr, zoom in ((1, 2), (2, 3), (3, 3)):
        on_edges = [[10.0, 0.0], [20.0, 0.0], [-10.0, 0.0], [0.0, 10.0], [0.0, -10.0], [0.0, 0.0], [-90.0, edge_lat], [90.0, edge_lat]]
        fam.append(('quadtree_grid', dict(kind='catalog', zoom=zoom, threshold=thr, events=on_edges, n_probes=40, corner_cells=40)))
        fam.append(('quadtree_grid', dict(kind='catalog', zoom=zoom, threshold=thr, events=[[45.0, 30.0]] * thr + [[-45.0, -30.0]] * (thr + 1),
                                          n_probes=40, corner_cells=40)))
    return fam


def _directed_quadtree_grids():
    return [('quadtree_grid', dict(kind='single', zoom=z, probe_seed=z, n_probes=60, corner_cells=64)) for z in (1, 2, 3)] + \
        [('quadtree_grid', dict(kind='quadkeys', quadkeys=['0', '10', '11', '12', '13', '2', '3'], n_probes=60, corner_cells=40))]


class _CreateTile:
    directed = staticmethod(_directed_quadtree_catalogs)
    qualname = FT
    recursive = True
    properties = ('C17',)
    case = 'abstract tile tree, catalog of arbitrary length'

    def params(c):
        t = z3.Const('t', Tile)
        kl = KeyList(c.ctx)
        n = c.int('n')
        c.ctx.assume(n >= 0)
        qk = kl.opaque()
        num = Opaque('numlist', keys=qk)
        return dict(quadk=qkey(t), threshold=c.int('threshold'), zoom=c.int('zoom'), lon=c.arr('lon', 'float64', n=n),
                    lat=c.arr('lat', 'float64', n=n), qk=qk, num=num, _t=t, _kl=kl)

    def measure(c, quadk, threshold, zoom, lon, lat, qk, num):
        d = DEPTH(quadk.tile)
        return z3.If(zoom - d > 0, zoom - d, 0) + 0

    def requires(c, quadk, threshold, zoom, lon, lat, qk, num, _t=None, _kl=None):
        t = quadk.tile
        for ax in mercantile_axioms():
            c.ctx.fact(ax)
        return [DEPTH(t) >= 1, W(t) < E(t), S(t) < N(t)]

    def result(c, quadk, threshold, zoom, lon, lat, qk, num):
        t = quadk.tile
        LV = c.ctx.fresh('LV', TileSet)
        LF = c.ctx.fresh_fun('LF', z3.RealSort(), z3.RealSort(), Tile)
        qk.kl.added = z3.SetUnion(qk.kl.added, LV)
        c.ctx.ghost.setdefault('rec_calls', []).append((t, LV, LF))
        x, y = z3.Reals('x!q y!q')
        a = z3.Const('a!q', Tile)
        n = lon.shape[0]
        c.ctx.assume(z3.ForAll([x, y], z3.Implies(in_tile(x, y, t), z3.And(z3.IsMember(LF(x, y), LV), in_tile(x, y, LF(x, y)))),
                               patterns=[LF(x, y)]))
        c.ctx.assume(z3.ForAll([x, y, a], z3.Implies(z3.And(z3.IsMember(a, LV), in_tile(x, y, a)),
                                                     z3.And(in_tile(x, y, t), a == LF(x, y))),
                               patterns=[z3.MultiPattern(z3.IsMember(a, LV), LF(x, y))]))
        c.ctx.assume(z3.ForAll([a], z3.Implies(z3.IsMember(a, LV), z3.And(
            RECORDED(a) == events_in(lon, lat, a, n),
            z3.Or(events_in(lon, lat, a, n) <= threshold, DEPTH(a) >= zoom))), patterns=[z3.IsMember(a, LV)]))
        c.ctx.assume(z3.Implies(z3.Or(events_in(lon, lat, t, n) <= threshold, DEPTH(t) >= zoom),
                                LV == z3.SetAdd(z3.EmptySet(Tile), t)))
        return None

    def ensures(c, r, quadk, threshold, zoom, lon, lat, qk, num, _t=None, _kl=None):
        if c.mode == 'assume':
            return
        t = quadk.tile
        LEAVES = qk.kl.added
        n = lon.shape[0]
        calls = c.ctx.ghost.get('rec_calls', [])
        x, y = c.ctx.fresh_real('x!sk'), c.ctx.fresh_real('y!sk')
        a = c.ctx.fresh('a!sk', Tile)
        cnt_t = events_in(lon, lat, t, n)
        if calls:
            yield 'splits into the four children', z3.BoolVal(len(calls) == 4 and all(
                ct.eq(CHILD(t, d)) for d, (ct, _, _) in enumerate(calls)))
            yield 'a tile is split only if it holds more events than the threshold and is below the maximum zoom', \
                z3.And(cnt_t > threshold, DEPTH(t) < zoom)
            lf = calls[-1][2](x, y)
            for ct, LV, LF in reversed(calls[:-1]):
                lf = z3.If(in_tile(x, y, ct), LF(x, y), lf)
        else:
            lf = t
            yield 'a tile is kept whole only at or below the threshold or at the maximum zoom', \
                z3.Or(cnt_t <= threshold, DEPTH(t) >= zoom)
            yield 'the number recorded for the leaf is its event count', RECORDED(t) == cnt_t
        yield 'coverage: a point of the tile lies in an appended leaf', z3.Implies(
            in_tile(x, y, t), z3.And(z3.IsMember(lf, LEAVES), in_tile(x, y, lf)))
        for d_, (ct, LV, LF) in enumerate(calls):
            yield 'hint:child %d: a leaf of the child holding the point is its leaf function value' % d_, z3.Implies(
                z3.And(z3.IsMember(a, LV), in_tile(x, y, a)), z3.And(in_tile(x, y, ct), a == LF(x, y)))
            yield 'hint:child %d lies inside the tile' % d_, z3.Implies(in_tile(x, y, ct), in_tile(x, y, t))
            yield 'hint:child %d: recorded counts and refinement criterion' % d_, z3.Implies(z3.IsMember(a, LV), z3.And(
                RECORDED(a) == events_in(lon, lat, a, n), z3.Or(events_in(lon, lat, a, n) <= threshold, DEPTH(a) >= zoom)))
        if calls:
            yield 'hint:the children are pairwise disjoint', z3.And(*[
                z3.Not(z3.And(in_tile(x, y, calls[i][0]), in_tile(x, y, calls[j][0])))
                for i in range(len(calls)) for j in range(i + 1, len(calls))])
            yield 'hint:membership in the union', z3.Implies(z3.IsMember(a, LEAVES), z3.Or(*[z3.IsMember(a, LV) for _, LV, _ in calls]))
        yield 'disjointness: an appended leaf holding the point lies inside the tile', z3.Implies(
            z3.And(z3.IsMember(a, LEAVES), in_tile(x, y, a)), in_tile(x, y, t))
        yield 'disjointness: an appended leaf holding the point is the leaf of that point', z3.Implies(
            z3.And(z3.IsMember(a, LEAVES), in_tile(x, y, a)), a == lf)
        yield 'every leaf records its own event count', z3.Implies(z3.IsMember(a, LEAVES), RECORDED(a) == events_in(lon, lat, a, n))
        yield 'no leaf holds more events than the threshold unless it is at the maximum zoom', z3.Implies(
            z3.IsMember(a, LEAVES), z3.Or(events_in(lon, lat, a, n) <= threshold, DEPTH(a) >= zoom))
        yield 'a cell at or below the threshold is never split', z3.Implies(
            z3.Or(cnt_t <= threshold, DEPTH(t) >= zoom), LEAVES == z3.SetAdd(z3.EmptySet(Tile), t))


contract(_CreateTile)


# ---------------------------------------------------------------------------------------------------
# QuadtreeGrid2D._find_location: the unique cell whose half-open bounds contain the point
# ---------------------------------------------------------------------------------------------------
@contract
class FindLocation:
    directed = staticmethod(_directed_quadtree_grids)
    qualname = 'csep.core.regions.QuadtreeGrid2D._find_location'
    case = 'bounds array of arbitrary length'
    properties = ('C17', 'C03')
    oracle = 'quadtree_find_location'

    def params(c):
        n = c.int('ncells')
        c.ctx.assume(n >= 0)
        bounds = c.arr2('bounds', 'float64', (n, 4))
        return dict(self=c.obj('csep.core.regions.QuadtreeGrid2D', bounds=bounds), lon=c.real('lon'), lat=c.real('lat'), _b=bounds)

    def ensures(c, r, self, lon, lat, _b):
        from pyvc.core import Arr, simp
        n = _b.shape[0]
        B = _b.fun

        def contains(k):
            return z3.And(lon >= B(k, 0), lat >= B(k, 1), lon < B(k, 2), lat < B(k, 3))
        if c.mode == 'assume':
            k = z3.Int('k!fl')
            q = lambda body: z3.ForAll([k], body)
        else:
            k = c.ctx.fresh_int('k!sk')
            q = lambda body: body
        n = to_z3(n)
        if isinstance(r, Arr):
            yield 'no cell: an empty index array', to_z3(r.shape[0]) == 0
            yield 'empty result only if no cell contains the point', q(z3.Implies(z3.And(0 <= k, k < n), z3.Not(contains(k))))
        else:
            ri = to_z3(r)
            yield 'returns an index', z3.BoolVal(ri.sort() == z3.IntSort())
            yield 'the reported cell exists', z3.And(0 <= ri, ri < n)
            yield 'the reported cell contains the point (west/south inclusive, east/north exclusive)', contains(ri)
            yield 'it is the first such cell (the unique one for disjoint cells)', q(z3.Implies(
                z3.And(0 <= k, k < ri), z3.Not(contains(k))))

    def witness(m, p):
        from pyvc.driver import model_value
        return {'bounds': model_value(m, p['_b']), 'lon': model_value(m, p['lon']), 'lat': model_value(m, p['lat'])}


# ---------------------------------------------------------------------------------------------------
# QuadtreeGrid2D.get_index_of over arrays of points (C17 / C03): one index per point, each the first cell that contains it
# ---------------------------------------------------------------------------------------------------
from pyvc.contracts import LoopInv
from pyvc.core import Arr, PyRaise, simp

FL = 'csep.core.regions.QuadtreeGrid2D._find_location'


def _fl_result(c, self, lon, lat, _b=None):
    """modular use of _find_location: an index, or an empty index array when no cell contains the point"""
    b = c.ctx.fresh_bool('no_cell_contains_the_point')
    if c.ctx.branch(b):
        return Arr((0,), lambda ix: 0, 'int64')
    return c.ctx.fresh_int('cell')


def _fl_ensures_call(c, r, self, lon, lat, _b=None):
    bounds = _b if _b is not None else self.fields['bounds']
    return FindLocation._ensures_impl(c, r, self, lon, lat, bounds)


FindLocation._ensures_impl = staticmethod(FindLocation.ensures)
FindLocation.ensures = staticmethod(lambda c, r, self, lon, lat, _b=None: FindLocation._ensures_impl(
    c, r, self, to_real(lon), to_real(lat), _b if _b is not None else self.fields['bounds']))
FindLocation.result = staticmethod(_fl_result)


class QuadLoop(LoopInv):
    """for i in range(len(lons)): idx = numpy.append(idx, self._find_location(lons[i], lats[i]))
    invariant: idx has one entry per point seen, entry t is the first cell containing point t"""

    def havoc(self, I, fr, i, it):
        fresh = I.lib.fresh_arr('idx_loop', (to_z3(i),), 'float64')
        fr.locals['idx'] = fresh
        self.F = fresh

    def inv(self, I, fr, i, it):
        idx = fr.locals['idx']
        me = fr.locals['self']
        B = me.fields['bounds'].fun
        n = to_z3(me.fields['bounds'].shape[0])
        lons, lats = fr.locals['lons'], fr.locals['lats']
        if isinstance(idx, list):
            yield 'no entry before the first point', z3.BoolVal(len(idx) == 0 and simp(to_z3(i) == 0) is True)
            return
        yield 'one entry per point seen', to_z3(idx.shape[0]) == to_z3(i)

        def clause(t):
            v = to_real(idx.f((t,)))
            k = z3.Int('k!q')
            lon, lat = to_real(lons.f((t,))), to_real(lats.f((t,)))
            cell = I.ctx.fresh_int('cell_of') if self.mode == 'prove' else None
            # v is an integer cell number c with: c in range, c contains the point, no earlier cell does
            c_ = z3.ToInt(v)
            contains = lambda kk: z3.And(lon >= B(kk, 0), lat >= B(kk, 1), lon < B(kk, 2), lat < B(kk, 3))
            return z3.And(z3.ToReal(c_) == v, 0 <= c_, c_ < n, contains(c_),
                          z3.ForAll([k], z3.Implies(z3.And(0 <= k, k < c_), z3.Not(contains(k)))))
        if self.mode == 'prove':
            t = I.ctx.fresh_int('t!sk')
            yield 'entry t is the first cell that contains point t', z3.Implies(z3.And(0 <= t, t < to_z3(i)), clause(t))
        else:
            t = z3.Int('t!inv')
            yield 'spec', z3.ForAll([t], z3.Implies(z3.And(0 <= t, t < to_z3(i)), clause(t)), patterns=[idx.f((t,))])


@contract
class QuadtreeGetIndexOf:
    qualname = 'csep.core.regions.QuadtreeGrid2D.get_index_of'
    case = 'arrays of points all inside the grid'
    properties = ('C17', 'C03')
    loops = {0: QuadLoop()}

    def params(c):
        n, m = c.int('ncells'), c.int('npoints')
        c.ctx.assume(z3.And(n >= 1, m >= 0))
        bounds = c.arr2('bounds', 'float64', (n, 4))
        return dict(self=c.obj('csep.core.regions.QuadtreeGrid2D', bounds=bounds), lons=c.arr('lons', 'float64', n=m),
                    lats=c.arr('lats', 'float64', n=m), _b=bounds)

    def requires(c, self, lons, lats, _b):
        # every point lies in some cell (a point outside the grid gets no entry at all: open known finding, C03)
        B, n = _b.fun, to_z3(_b.shape[0])
        t, k = z3.Int('t!rq'), z3.Int('k!rq')
        lon, lat = to_real(lons.f((t,))), to_real(lats.f((t,)))
        return [z3.ForAll([t], z3.Implies(z3.And(0 <= t, t < to_z3(lons.shape[0])),
                                          z3.Exists([k], z3.And(0 <= k, k < n, lon >= B(k, 0), lat >= B(k, 1), lon < B(k, 2), lat < B(k, 3)))),
                          patterns=[lons.f((t,))])]

    def ensures(c, r, self, lons, lats, _b):
        B, n, m = _b.fun, to_z3(_b.shape[0]), to_z3(lons.shape[0])
        yield 'returns an integer array', z3.BoolVal(isinstance(r, Arr) and r.dtype == 'int64')
        yield 'one index per point', to_z3(r.shape[0]) == m
        t, k = c.ctx.fresh_int('t!sk'), c.ctx.fresh_int('k!sk')
        lon, lat = to_real(lons.f((t,))), to_real(lats.f((t,)))
        ri = to_z3(r.f((t,)))
        contains = lambda kk: z3.And(lon >= B(kk, 0), lat >= B(kk, 1), lon < B(kk, 2), lat < B(kk, 3))
        yield 'the reported cell exists and contains the point (west/south inclusive, east/north exclusive)', z3.Implies(
            z3.And(0 <= t, t < m), z3.And(0 <= ri, ri < n, contains(ri)))
        yield 'it is the first such cell (the unique one for disjoint cells)', z3.Implies(
            z3.And(0 <= t, t < m, 0 <= k, k < ri), z3.Not(contains(k)))


# ---- modular use of QuadtreeGrid2D.get_index_of (gridding a catalog on a quadtree region, C03)
def _qgio_result(c, self, lons, lats, _b=None):
    r = c.L.fresh_arr('quadcell', (lons.shape[0],), 'int64')
    return r


_qgio_ensures_prove = QuadtreeGetIndexOf.ensures


def _qgio_ensures(c, r, self, lons, lats, _b=None):
    bounds = _b if _b is not None else self.fields['bounds']
    if c.mode != 'assume':
        return _qgio_ensures_prove(c, r, self, lons, lats, bounds)
    B, n, m = bounds.fun, to_z3(bounds.shape[0]), to_z3(lons.shape[0])
    t, k = z3.Int('t!qq'), z3.Int('k!qq')
    lon, lat = to_real(lons.f((t,))), to_real(lats.f((t,)))
    ri = to_z3(r.f((t,)))
    contains = lambda kk: z3.And(lon >= B(kk, 0), lat >= B(kk, 1), lon < B(kk, 2), lat < B(kk, 3))
    return [('cell', z3.ForAll([t], z3.Implies(z3.And(0 <= t, t < m), z3.And(0 <= ri, ri < n, contains(ri))), patterns=[r.f((t,))])),
            ('first', z3.ForAll([t, k], z3.Implies(z3.And(0 <= t, t < m, 0 <= k, k < ri), z3.Not(contains(k))),
                                patterns=[z3.MultiPattern(r.f((t,)), B(k, 0))]))]


def _qgio_requires(c, self, lons, lats, _b=None):
    bounds = _b if _b is not None else self.fields['bounds']
    return QuadtreeGetIndexOf._requires_impl(c, self, lons, lats, bounds)


QuadtreeGetIndexOf._requires_impl = staticmethod(QuadtreeGetIndexOf.requires)
QuadtreeGetIndexOf.requires = staticmethod(_qgio_requires)
QuadtreeGetIndexOf.ensures = staticmethod(_qgio_ensures)
QuadtreeGetIndexOf.result = staticmethod(_qgio_result)
QuadtreeGetIndexOf.accepts = staticmethod(lambda c, self, lons, lats, _b=None: isinstance(lons, Arr) and isinstance(lats, Arr))


# ---------------------------------------------------------------------------------------------------
# cell areas: the spherical-band formula and its additivity (the inductive step of "the areas add up to the covered band")
# ---------------------------------------------------------------------------------------------------
import math as _math      # noqa: E402
from pyvc.lib import COS      # noqa: E402
from pyvc.core import rv      # noqa: E402

AREA = 'csep.core.regions.geographical_area_from_bounds'


def area_spec(lon1, lat1, lon2, lat2):
    rad = rv(_math.pi / 180.0)        # the code's constant, a double
    cap = lambda lat: 2 * rv(_math.pi) * (1 - COS((rv(90.0) - lat) * rad))
    return z3.If(z3.Or(lon1 == lon2, lat1 == lat2), z3.RealVal(0),
                 (cap(lat1) - cap(lat2)) * rv(6371.0 ** 2) / (rv(360.0) / (lon2 - lon1)))


@contract
class GeographicalArea:
    qualname = AREA
    case = 'any bounds'
    properties = ('C17',)

    def params(c):
        return dict(lon1=c.real('lon1'), lat1=c.real('lat1'), lon2=c.real('lon2'), lat2=c.real('lat2'))

    def ensures(c, r, lon1, lat1, lon2, lat2):
        yield 'area == (cap(lat1) - cap(lat2)) * R^2 * (lon2 - lon1) / 360 on the sphere of radius 6371 km, 0 for a degenerate box', \
            to_real(r) == area_spec(lon1, lat1, lon2, lat2)

    def result(c, lon1, lat1, lon2, lat2):
        v = c.ctx.fresh_real('area')
        return v


@contract
class AreaAdditive:
    """a cell split into four children (two longitude halves x two latitude parts, as a quadtree tile is): the areas of the children
    add up to the area of the cell - the inductive step of 'cell areas add up to the area of the covered latitude band'"""
    qualname = 'lemma:C17:the areas of the four children of a cell add up to its area'
    case = 'five modular calls'
    properties = ('C17',)

    def lemma(c):
        w, e, s, n, xm, ym = (c.real(k) for k in ('west', 'east', 'south', 'north', 'lon_mid', 'lat_mid'))
        c.ctx.assume(z3.And(w < xm, xm < e, s < ym, ym < n))
        whole = c.call(AREA, w, s, e, n)
        parts = [c.call(AREA, a0, b0, a1, b1) for (a0, a1) in ((w, xm), (xm, e)) for (b0, b1) in ((s, ym), (ym, n))]
        yield 'the children add up to the parent', to_real(parts[0]) + to_real(parts[1]) + to_real(parts[2]) + to_real(parts[3]) == to_real(whole)


@contract
class QuadtreeCellArea:
    qualname = 'csep.core.regions.QuadtreeGrid2D.get_cell_area'
    case = 'grid of any number of cells'
    properties = ('C17',)

    def params(c):
        n = c.int('ncells')
        c.ctx.assume(n >= 0)
        bounds = c.arr2('bounds', 'float64', (n, 4))
        me = c.obj('csep.core.regions.QuadtreeGrid2D', bounds=bounds)
        me.abstract = False
        return dict(self=me, _b=bounds, _n=n)

    def ensures(c, r, self, _b, _n):
        ok = isinstance(r, Arr) and r.ndim == 1
        yield 'returns a 1-d array', z3.BoolVal(ok)
        if not ok:
            return
        yield 'one area per cell', to_z3(r.shape[0]) == _n
        yield 'stored as cell_area', z3.BoolVal(self.fields.get('cell_area') is r)
        k = c.ctx.fresh_int('k!sk')
        if c.ctx.branch(z3.And(0 <= k, k < _n)):
            B = lambda j: to_real(_b.f((k, j)))
            yield 'area k is the spherical-band area of the bounds (west, south, east, north) of cell k', \
                to_real(r.f((k,))) == area_spec(B(0), B(1), B(2), B(3))

    def raises(c, exc, **kw):
        return None
