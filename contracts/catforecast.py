"""Contracts for csep.core.forecasts.CatalogForecast (property C13): step relation of __next__ and the
bookkeeping invariants a complete pass rests on.  Catalogs are abstract values (key terms); filtering is
the uninterpreted, idempotent map FILT (idempotence = lemma L6_filter_idem)."""
import z3

from pyvc.contracts import contract
from pyvc.core import Opaque, SymList, PyRaise, builtin_exc, to_z3, simp
from pyvc.lib import method

CF = 'csep.core.forecasts.CatalogForecast'
CatSort = z3.DeclareSort('Catalog')
SRC = z3.Function('source_catalog', z3.IntSort(), CatSort)       # the J source catalogs s_0 .. s_{J-1}
FILT = z3.Function('filtered', CatSort, CatSort)                 # phi: configured filters applied
EC = z3.Function('event_count', CatSort, z3.IntSort())


def seq_len(x):
    return to_z3(x.n) if isinstance(x, SymList) else z3.IntVal(len(x))


def seq_get(x, i):
    """element i of a SymList / python list (i symbolic): for a python list, a case split over its positions"""
    if isinstance(x, SymList):
        return x.f(i)
    items = list(x)
    if not items:
        return None
    r = items[-1]
    for k in range(len(items) - 2, -1, -1):
        if isinstance(r, Opaque) or isinstance(items[k], Opaque):
            raise ValueError('object list')
        r = z3.If(to_z3(i) == k, to_z3(items[k]), to_z3(r))
    return r


def seq_key(x, i):
    """key of the catalog at position i of a catalog sequence"""
    if isinstance(x, SymList):
        return x.f(i).key
    items = list(x)
    r = items[-1].key
    for k in range(len(items) - 2, -1, -1):
        r = z3.If(to_z3(i) == k, items[k].key, r)
    return r


def mk_cat(key):
    return Opaque('catalog', key=key)


@method('catalog', 'filter')
def _cat_filter(L, cat, statements=None, in_place=True):
    return mk_cat(FILT(cat.key))


def _cat_getattr(self, I, name):
    if name == 'event_count':
        return EC(self.key)
    raise PyRaise(builtin_exc('AttributeError'), name)


def catalog_list(J, filtered=False):
    return SymList(J, lambda i: mk_cat(FILT(SRC(to_z3(i))) if filtered else SRC(to_z3(i))), 'catalogs')


def _obj(c, mode, apply_filters, store=True):
    J = c.int('J')
    idx = c.int('idx')
    c.ctx.assume(z3.And(J >= 0, idx >= 0, idx <= J))
    nE = c.int('n_counts')
    Ef = z3.Function('counts0', z3.IntSort(), z3.IntSort())
    counts = SymList(nE, lambda i: Ef(to_z3(i)), '_event_counts')
    c.ctx.assume(nE >= 0)
    fields = dict(_idx=idx, n_cat=J, _event_counts=counts, apply_filters=apply_filters, filters=['magnitude >= 4.0'],
                  apply_mct=False, filter_spatial=False, store=store, region=None, name='fc', event=None,
                  catalog_format='native', filename='f.csv')
    if mode == 'list':
        fields['catalogs'] = catalog_list(J)
    else:
        pos = idx

        def gen_next(I, J=J, pos=pos):
            if I.ctx.branch(to_z3(pos) < J):
                return mk_cat(SRC(to_z3(pos)))
            raise PyRaise(builtin_exc('StopIteration'), None)
        fields['catalogs'] = Opaque('generator', no_len=True, next=gen_next)
        nS = c.int('n_stored')
        c.ctx.assume(nS == idx)
        fields['_catalogs'] = SymList(nS, lambda i: mk_cat(FILT(SRC(to_z3(i))) if apply_filters is True else SRC(to_z3(i))), '_catalogs')
        fields['loader'] = Opaque('loader', call=lambda I, a, k: Opaque('generator', no_len=True, fresh=True))
    o = c.obj(CF, **fields)
    return o, J, idx, counts, nE, Ef


Opaque.getattr_catalog = None


def _patch_catalog_getattr():
    # abstract catalogs expose event_count
    from pyvc import lib as _lib
    orig = _lib.Lib.value_getattr

    def value_getattr(self, v, name):
        if isinstance(v, Opaque) and v.name == 'catalog' and name == 'event_count':
            return EC(v.key)
        return orig(self, v, name)
    _lib.Lib.value_getattr = value_getattr


_patch_catalog_getattr()


def next_case(mode, apply_filters, store=True):
    class Next:
        qualname = CF + '.__next__'
        case = '%s-backed, apply_filters=%s%s' % (mode, apply_filters, '' if mode == 'list' else ', store=%s' % store)
        properties = ('C13',)

        def params(c):
            o, J, idx, counts, nE, Ef = _obj(c, mode, apply_filters, store)
            return dict(self=o, _J=J, _idx=idx, _nE=nE, _Ef=Ef)

        def requires(c, self, _J, _idx, _nE, _Ef):
            # bookkeeping invariant inside a pass: one recorded count per catalog yielded so far
            return [z3.Implies(_idx > 0, _nE == _idx)]

        def ensures(c, r, self, _J, _idx, _nE, _Ef):
            yield 'a catalog is returned only while the pass is not finished', _idx < _J
            want = FILT(SRC(_idx)) if apply_filters else SRC(_idx)
            yield 'yields catalog number _idx of the pass (filters applied iff apply_filters)', z3.And(
                z3.BoolVal(isinstance(r, Opaque) and r.name == 'catalog'), r.key == want if isinstance(r, Opaque) else False)
            yield 'cursor advances by one', to_z3(self.fields['_idx']) == _idx + 1
            cnt = self.fields['_event_counts']
            yield 'event counts are those of the current pass only (one per catalog yielded so far)', seq_len(cnt) == _idx + 1
            yield 'the count recorded for this catalog is its event count', to_z3(seq_get(cnt, _idx)) == EC(want)
            k = c.ctx.fresh_int('k!sk')
            yield 'earlier counts of this pass are kept', z3.Implies(z3.And(0 <= k, k < _idx), to_z3(seq_get(cnt, k)) == _Ef(k))
            if mode == 'generator' and store:
                st = self.fields.get('_catalogs')
                yield 'the yielded catalog is cached for later passes', z3.And(seq_len(st) == _idx + 1, seq_key(st, _idx) == want)

        def raises(c, exc, self, _J, _idx, _nE, _Ef):
            if exc.name != 'StopIteration':
                return None
            out = [('StopIteration exactly at the end of the pass', _idx == _J),
                   ('cursor reset for the next pass', to_z3(self.fields['_idx']) == 0),
                   ('number of catalogs is that of one pass', to_z3(self.fields['n_cat']) == _J)]
            if mode == 'generator' and store:
                cats = self.fields.get('catalogs')
                out.append(('cached catalogs become the collection', z3.BoolVal(isinstance(cats, (SymList, list)))))
                out.append(('filters are not applied a second time to the cached (already filtered) catalogs',
                            z3.BoolVal(self.fields.get('apply_filters') is False)))
            if mode == 'generator' and not store:
                out.append(('catalogs are re-read from file on the next pass, so the filters stay switched on',
                            z3.BoolVal(self.fields.get('apply_filters') is apply_filters)))
                out.append(('a fresh generator is obtained from the loader', z3.BoolVal(
                    isinstance(self.fields.get('catalogs'), Opaque) and getattr(self.fields.get('catalogs'), 'fresh', False))))
            if mode == 'list':
                out.append(('list-backed: the filter switch is left as configured', z3.BoolVal(self.fields.get('apply_filters') is apply_filters)))
            return out
    Next.__name__ = 'Next_%s_%s_%s' % (mode, apply_filters, store)
    return Next


from pyvc.contracts import REG
for _m, _af, _st in (('list', False, True), ('list', True, True), ('generator', False, True), ('generator', True, True),
                     ('generator', True, False)):
    REG.add(next_case(_m, _af, _st))


# ---------------------------------------------------------------------------------------------------
# operations built on a complete pass: get_event_counts, get_expected_rates
# The loop `for .. in self` is cut by a PASS invariant: by induction over the proved step relation of __next__
# (and idempotence of filtering, lemma L6_filter_idem) a complete pass started at _idx == 0 yields phi?(s_0) .. phi?(s_{J-1})
# in order and leaves the forecast in the state described by at_exit().
# ---------------------------------------------------------------------------------------------------
from pyvc.contracts import LoopInv
from pyvc.core import Arr, Obj, to_real
from pyvc.lib import SUM

SMCF = z3.Function('space_magnitude_counts', CatSort, z3.IntSort(), z3.IntSort(), z3.RealSort())


@method('catalog', 'spatial_magnitude_counts')
def _cat_smc(L, cat, *a, **k):
    fc = L.ctx.ghost.get('forecast_shape')
    n0, n1 = fc
    key = cat.key
    return Arr((n0, n1), lambda ix: SMCF(key, to_z3(ix[0]), to_z3(ix[1])), 'float64')


class PassInv(LoopInv):
    """iteration over a CatalogForecast (list-backed): J trips, catalog number i of the pass"""

    def forecast(self, it):
        return it.inner if isinstance(it, Opaque) else it

    def trips(self, I, it):
        fo = self.forecast(it)
        gj = getattr(fo, 'generator_length', None)       # a forecast streamed from a generator of J catalogs (ghost length)
        return to_z3(gj) if gj is not None else to_z3(fo.fields['n_cat'])

    def pass_key(self, fo, i):
        src = getattr(fo, 'source_order', None) or (lambda k: SRC(k))     # a re-ordered forecast holds SRC(sigma(k)) at place k
        return FILT(src(to_z3(i))) if fo.fields['apply_filters'] is True else src(to_z3(i))

    def item(self, I, it, i):
        fo = self.forecast(it)
        cat = mk_cat(self.pass_key(fo, i))
        if isinstance(it, Opaque) and it.name == 'enumerate':
            return (i, cat)
        return cat

    def at_exit(self, I, fr, it):
        """the state a complete pass leaves behind - exactly what the exit obligations of the pass-induction lemmas establish"""
        fo = self.forecast(it)
        gj = getattr(fo, 'generator_length', None)
        J = to_z3(gj) if gj is not None else to_z3(fo.fields['n_cat'])
        # (the pass keys are fixed before the switch below changes apply_filters)
        pk = (lambda fo_=fo, flt=fo.fields['apply_filters'], src=getattr(fo, 'source_order', None) or (lambda k: SRC(k)):
              (lambda k: FILT(src(to_z3(k))) if flt is True else src(to_z3(k))))()
        fo.fields['_idx'] = 0
        fo.fields['_event_counts'] = SymList(J, lambda k: EC(pk(k)), '_event_counts')
        if gj is not None:
            fo.fields['n_cat'] = J
            if fo.fields.get('store'):
                # the cached (already filtered) catalogs become the collection, filters are switched off, the cache is handed over
                fo.fields['catalogs'] = SymList(J, lambda k: mk_cat(pk(k)), 'catalogs (cached)')
                fo.fields['apply_filters'] = False
                fo.fields.pop('_catalogs', None)
                fo.source_order = (lambda k, pk=pk: pk(k))
            else:
                fo.fields['catalogs'] = Opaque('generator', no_len=True, fresh=True)
            fo.generator_length = None if fo.fields.get('store') else gj

    def inv(self, I, fr, i, it):
        if self.mode == 'prove' and simp(to_z3(i) == 0) is True:
            fo = self.forecast(it)
            yield 'a pass starts with the cursor at 0', to_z3(fo.fields['_idx']) == 0
            if getattr(fo, 'generator_length', None) is not None:
                cats, st = fo.fields.get('catalogs'), fo.fields.get('_catalogs')
                yield 'streamed forecast at the start of a pass: an unread generator, an empty cache', z3.BoolVal(
                    isinstance(cats, Opaque) and cats.name == 'generator' and (not fo.fields.get('store') or (isinstance(st, (list, SymList)) and
                                                                                                          (len(st) == 0 if isinstance(st, list) else simp(to_z3(st.n) == 0) is True))))
            else:
                yield 'list-backed forecast that knows its length', z3.BoolVal(isinstance(fo.fields.get('catalogs'), SymList))


def _list_forecast(c, apply_filters, **extra):
    J = c.int('J')
    c.ctx.assume(J >= 1)
    nE = c.int('n_counts')
    c.ctx.assume(nE >= 0)
    Ef = z3.Function('counts0', z3.IntSort(), z3.IntSort())
    fields = dict(_idx=0, n_cat=J, _event_counts=SymList(nE, lambda i: Ef(to_z3(i)), '_event_counts'), apply_filters=apply_filters,
                  filters=['magnitude >= 4.0'], apply_mct=False, filter_spatial=False, store=True, name='fc', event=None,
                  catalogs=catalog_list(J), expected_rates=None, start_time=None, end_time=None)
    fields.update(extra)
    return c.obj(CF, **fields), J, nE


def _generator_forecast(c, apply_filters, store, **extra):
    """a forecast streamed from a generator of J catalogs (J is ghost: the object does not know it), at the start of its first pass"""
    J = c.int('J')
    c.ctx.assume(J >= 1)
    fields = dict(_idx=0, n_cat=None, _event_counts=[], apply_filters=apply_filters, filters=['magnitude >= 4.0'], apply_mct=False,
                  filter_spatial=False, store=store, name='fc', event=None, catalog_format='native', filename='f.csv',
                  catalogs=Opaque('generator', no_len=True), _catalogs=[], expected_rates=None, start_time=None, end_time=None,
                  loader=Opaque('loader'))
    fields.update(extra)
    fo = c.obj(CF, **fields)
    fo.generator_length = J
    return fo, J


def event_counts_generator_case(apply_filters, store):
    class GECG:
        qualname = CF + '.get_event_counts'
        case = 'streamed from a generator (first pass), apply_filters=%s, store=%s' % (apply_filters, store)
        properties = ('C13',)
        loops = {0: PassInv()}

        def params(c):
            fo, J = _generator_forecast(c, apply_filters, store)
            return dict(self=fo, verbose=False, _J=J)

        def ensures(c, r, self, verbose, _J):
            key = (lambda k: FILT(SRC(k))) if apply_filters else (lambda k: SRC(k))
            yield 'one count per catalog of a single pass', z3.BoolVal(isinstance(r, Arr))
            if isinstance(r, Arr):
                yield 'length == number of catalogs the generator holds', to_z3(r.shape[0]) == _J
                k = c.ctx.fresh_int('k!sk')
                yield 'count k is the event count of catalog k with the configured filters applied', z3.Implies(
                    z3.And(0 <= k, k < _J), to_z3(r.f((k,))) == EC(key(k)))
            f = self.fields
            yield 'the forecast is left ready for the next pass: cursor 0, number of catalogs known', z3.And(
                to_z3(f['_idx']) == 0, to_z3(f['n_cat']) == _J)
            if store:
                cats = f.get('catalogs')
                yield 'store=True: the next pass runs over the cached catalogs with the filters switched off (applied exactly once)', z3.BoolVal(
                    isinstance(cats, SymList) and f.get('apply_filters') is False)
            else:
                yield 'store=False: the next pass re-reads the file with the filter switch as configured', z3.BoolVal(
                    isinstance(f.get('catalogs'), Opaque) and f.get('apply_filters') is apply_filters)
    GECG.__name__ = 'GEC_generator_%s_%s' % (apply_filters, store)
    return GECG


def event_counts_case(apply_filters, have_counts):
    class GEC:
        qualname = CF + '.get_event_counts'
        case = 'list-backed, apply_filters=%s, %s' % (apply_filters, 'counts of an earlier pass present' if have_counts else 'no pass made yet')
        properties = ('C13',)
        loops = {0: PassInv()}

        def params(c):
            fo, J, nE = _list_forecast(c, apply_filters)
            if have_counts:
                c.ctx.assume(nE == J)
            else:
                c.ctx.assume(nE == 0)
            return dict(self=fo, verbose=False, _J=J)

        def ensures(c, r, self, verbose, _J):
            key = (lambda k: FILT(SRC(k))) if apply_filters else (lambda k: SRC(k))
            yield 'one count per catalog of a single pass', z3.BoolVal(isinstance(r, Arr)) 
            if isinstance(r, Arr):
                yield 'length == number of catalogs', to_z3(r.shape[0]) == _J
                if not have_counts:
                    k = c.ctx.fresh_int('k!sk')
                    yield 'count k is the event count of catalog k with the configured filters applied', z3.Implies(
                        z3.And(0 <= k, k < _J), to_z3(r.f((k,))) == EC(key(k)))
            f = self.fields
            yield 'the forecast is left at the start of a pass over the same catalogs (cursor 0, collection and filter switch untouched)', z3.And(
                to_z3(f['_idx']) == 0, to_z3(f['n_cat']) == _J, z3.BoolVal(isinstance(f.get('catalogs'), SymList) and f.get('apply_filters') is apply_filters))
    GEC.__name__ = 'GEC_%s_%s' % (apply_filters, have_counts)
    return GEC


class RatesLoop(PassInv):
    """get_expected_rates: data holds the sum of the space-magnitude counts of the catalogs processed so far"""

    def havoc(self, I, fr, i, it):
        n0, n1 = I.ctx.ghost['forecast_shape']
        self.D = I.ctx.fresh_fun('acc', z3.IntSort(), z3.IntSort(), z3.RealSort())
        D = self.D
        fr.locals['data'] = Arr((n0, n1), lambda ix: D(to_z3(ix[0]), to_z3(ix[1])), 'float64')

    def total(self, fo, a, b, i):
        j = z3.Int('i!lam')
        return SUM(z3.Lambda([j], SMCF(self.pass_key(fo, j), a, b)), to_z3(i))

    def inv(self, I, fr, i, it):
        yield from PassInv.inv(self, I, fr, i, it)
        fo = self.forecast(it)
        if simp(to_z3(i) == 0) is True:
            return
        data = fr.locals['data']
        n0, n1 = I.ctx.ghost['forecast_shape']
        if self.mode == 'prove':
            a, b = I.ctx.fresh_int('a!sk'), I.ctx.fresh_int('b!sk')
            self.sk = (a, b)
            rng = z3.And(0 <= a, a < to_z3(n0), 0 <= b, b < to_z3(n1))
            yield 'accumulator has the region shape', z3.BoolVal(isinstance(data, Arr) and data.ndim == 2)
            if isinstance(data, Arr) and data.ndim == 2:
                yield 'accumulator == sum of the space-magnitude counts of the catalogs so far', z3.Implies(
                    z3.And(rng, to_z3(i) >= 1), to_real(data.f((a, b))) == self.total(fo, a, b, i))
        else:
            a, b = z3.Ints('a!inv b!inv')
            rng = z3.And(0 <= a, a < to_z3(n0), 0 <= b, b < to_z3(n1))
            yield 'acc', z3.ForAll([a, b], z3.Implies(z3.And(rng, to_z3(i) >= 1), to_real(data.f((a, b))) == self.total(fo, a, b, i)),
                                   patterns=[data.f((a, b))])

    def step_lemmas(self, I, fr, i, it):
        fo = self.forecast(it)
        a, b = self.sk
        # L0_sum_unfold at the goal's cell
        yield self.total(fo, a, b, to_z3(i) + 1) == self.total(fo, a, b, i) + SMCF(self.pass_key(fo, i), a, b)
        I.used_lemmas.add('L0.count_unfold')


def expected_rates_case(apply_filters, generator=None):
    class GER:
        qualname = CF + '.get_expected_rates'
        case = ('list-backed, apply_filters=%s, first request' % apply_filters) if generator is None else \
            ('streamed from a generator (first pass), apply_filters=%s, store=%s, first request' % (apply_filters, generator))
        properties = ('C13', 'C10')
        loops = {0: RatesLoop()}

        def params(c):
            n0, n1 = c.int('n_cells'), c.int('n_mags')
            c.ctx.assume(z3.And(n0 >= 1, n1 >= 1))
            c.ctx.ghost['forecast_shape'] = (n0, n1)
            mags = c.arr('magnitudes', 'float64', n=n1)
            region = c.obj('csep.core.regions.CartesianGrid2D', magnitudes=mags, name='region')
            region.abstract = False
            if generator is None:
                fo, J, nE = _list_forecast(c, apply_filters, region=region)
            else:
                fo, J = _generator_forecast(c, apply_filters, generator, region=region)
            return dict(self=fo, verbose=False, _J=J, _shape=(n0, n1))

        def ensures(c, r, self, verbose, _J, _shape):
            n0, n1 = _shape
            key = (lambda k: FILT(SRC(k))) if apply_filters else (lambda k: SRC(k))
            yield 'returns the expected-rates forecast object', z3.BoolVal(isinstance(r, Obj) and r is self.fields.get('expected_rates'))
            if isinstance(r, Obj):
                d = r.fields.get('_data')
                yield 'rates array has the region shape', z3.BoolVal(isinstance(d, Arr) and d.ndim == 2)
                a, b = c.ctx.fresh_int('a!sk'), c.ctx.fresh_int('b!sk')
                j = z3.Int('i!lam')
                tot = SUM(z3.Lambda([j], SMCF(key(j), a, b)), _J)
                yield 'expected rate of bin (a,b) == mean over the catalogs of their space-magnitude counts', z3.Implies(
                    z3.And(0 <= a, a < n0, 0 <= b, b < n1), to_real(d.f((a, b))) * z3.ToReal(_J) == tot)
                yield 'the forecast is not rescaled', z3.BoolVal(r.fields.get('_scale') == 1)
            f = self.fields
            yield 'the forecast is left at the start of a pass (cursor 0, number of catalogs known)', z3.And(to_z3(f['_idx']) == 0, to_z3(f['n_cat']) == _J)

        def raises(c, exc, self, verbose, _J, _shape):
            return None
    GER.__name__ = 'GER_%s_%s' % (apply_filters, generator)
    return GER


@contract
class GetExpectedRatesCached:
    qualname = CF + '.get_expected_rates'
    case = 'later request: the cached object is returned'
    properties = ('C13',)

    def params(c):
        mags = c.arr('magnitudes', 'float64')
        region = c.obj(None, magnitudes=mags)
        cached = c.obj(None, name='cached expected rates')
        fo, J, nE = _list_forecast(c, False, region=region, expected_rates=cached)
        return dict(self=fo, verbose=False, _cached=cached)

    def ensures(c, r, self, verbose, _cached):
        yield 'the same object is returned on every later request', z3.BoolVal(r is _cached)
        yield 'nothing is recomputed or written', z3.BoolVal(not self.written)


for _af in (False, True):
    REG.add(expected_rates_case(_af))
    for _st in (True, False):
        REG.add(expected_rates_case(_af, _st))
    for _hc in (False, True):
        REG.add(event_counts_case(_af, _hc))


# ---------------------------------------------------------------------------------------------------
# The induction behind the PASS invariant, as obligations: from the state "k catalogs of the pass have been yielded" the REAL
# __next__ (inlined) yields catalog k and establishes the state for k + 1; at k == J it raises StopIteration and leaves the
# state PassInv.at_exit describes.  With the base case (a pass starts at cursor 0: an obligation of PassInv.inv at every
# loop) this is the standard invariant argument for `for catalog in forecast`.
# ---------------------------------------------------------------------------------------------------
def pass_induction_case(apply_filters):
    class PI:
        qualname = 'lemma:C13:pass induction, list-backed forecast, apply_filters=%s' % apply_filters
        case = 'inductive step k -> k+1 and exit at k == J on the real __next__'
        properties = ('C13', 'C10')

        def lemma(c):
            J, k, nE = c.int('J'), c.int('k'), c.int('n_counts')
            c.ctx.assume(z3.And(J >= 0, 0 <= k, k <= J, nE >= 0))
            key = (lambda j: FILT(SRC(to_z3(j)))) if apply_filters else (lambda j: SRC(to_z3(j)))
            Ef = c.ctx.fresh_fun('counts0', z3.IntSort(), z3.IntSort())
            j = z3.Int('j!pi')
            # invariant at k: cursor k; if k > 0, one count per catalog yielded so far, each the event count of its catalog
            c.ctx.assume(z3.Implies(k > 0, nE == k))
            c.ctx.assume(z3.ForAll([j], z3.Implies(z3.And(0 <= j, j < k), Ef(j) == EC(key(j))), patterns=[Ef(j)]))
            o = c.obj(CF, _idx=k, n_cat=J, _event_counts=SymList(nE, lambda i: Ef(to_z3(i)), '_event_counts'), apply_filters=apply_filters,
                      filters=['magnitude >= 4.0'], apply_mct=False, filter_spatial=False, store=True, region=None, name='fc', event=None,
                      catalog_format='native', filename='f.csv', catalogs=catalog_list(J))
            try:
                r = c.inline(CF + '.__next__', o)
                out = ('return', r)
            except PyRaise as e:
                out = ('raise', e.cls.name)
            cnt = o.fields['_event_counts']
            s = c.ctx.fresh_int('j!sk')
            if out[0] == 'return':
                r = out[1]
                yield 'a catalog is yielded only before the end of the pass', k < J
                yield 'it is catalog k of the pass (filters applied iff configured)', z3.And(
                    z3.BoolVal(isinstance(r, Opaque) and r.name == 'catalog'), r.key == key(k) if isinstance(r, Opaque) else False)
                yield 'the cursor is k + 1', to_z3(o.fields['_idx']) == k + 1
                yield 'one count per catalog yielded so far', seq_len(cnt) == k + 1
                yield 'count j is the event count of catalog j of this pass, for every j <= k', z3.Implies(
                    z3.And(0 <= s, s <= k), to_z3(seq_get(cnt, s)) == EC(key(s)))
            else:
                yield 'the only exception is StopIteration', z3.BoolVal(out[1] == 'StopIteration')
                yield 'exactly at the end of the pass', k == J
                yield 'the cursor is reset for the next pass', to_z3(o.fields['_idx']) == 0
                yield 'the number of catalogs is unchanged', to_z3(o.fields['n_cat']) == J
                yield 'the filter switch is left as configured', z3.BoolVal(o.fields.get('apply_filters') is apply_filters)
                yield 'the counts left behind are those of this pass: one per catalog', seq_len(cnt) == J
                yield 'count j is the event count of catalog j of this pass', z3.Implies(
                    z3.And(0 <= s, s < J), to_z3(seq_get(cnt, s)) == EC(key(s)) if not (isinstance(cnt, list) and not cnt) else z3.BoolVal(False))
            yield 'the catalogs held by the forecast are untouched', z3.BoolVal(isinstance(o.fields.get('catalogs'), SymList))
    PI.__name__ = 'PassInduction_%s' % apply_filters
    return PI


for _af in (False, True):
    REG.add(pass_induction_case(_af))


def pass_induction_generator_case(apply_filters, store):
    """the same induction for a forecast streamed from a generator (first pass): with store=True the yielded catalogs are cached
    and become the collection at the end of the pass, with the filter switch turned off (they are filtered already) - so the next
    pass is a list-backed pass over FILT?(s_0) .. FILT?(s_{J-1}) without filters: the same catalogs; with store=False a fresh
    generator is obtained from the loader and the switch stays as configured"""
    class PIG:
        qualname = 'lemma:C13:pass induction, generator-backed forecast, apply_filters=%s, store=%s' % (apply_filters, store)
        case = 'inductive step k -> k+1 and exit at k == J on the real __next__'
        properties = ('C13',)

        def lemma(c):
            J, k, nE = c.int('J'), c.int('k'), c.int('n_counts')
            c.ctx.assume(z3.And(J >= 0, 0 <= k, k <= J, nE >= 0))
            key = (lambda j: FILT(SRC(to_z3(j)))) if apply_filters else (lambda j: SRC(to_z3(j)))
            Ef = c.ctx.fresh_fun('counts0', z3.IntSort(), z3.IntSort())
            j = z3.Int('j!pi')
            c.ctx.assume(z3.Implies(k > 0, nE == k))
            c.ctx.assume(z3.ForAll([j], z3.Implies(z3.And(0 <= j, j < k), Ef(j) == EC(key(j))), patterns=[Ef(j)]))

            def gen_next(I):
                # the generator stands at catalog k of the J source catalogs
                if I.ctx.branch(k < J):
                    return mk_cat(SRC(k))
                raise PyRaise(builtin_exc('StopIteration'), None)
            fields = dict(_idx=k, n_cat=None, _event_counts=SymList(nE, lambda i: Ef(to_z3(i)), '_event_counts'), apply_filters=apply_filters,
                          filters=['magnitude >= 4.0'], apply_mct=False, filter_spatial=False, store=store, region=None, name='fc', event=None,
                          catalog_format='native', filename='f.csv', catalogs=Opaque('generator', no_len=True, next=gen_next),
                          loader=Opaque('loader', call=lambda I, a, kw: Opaque('generator', no_len=True, fresh=True)))
            # cached so far (store=True): the k catalogs yielded in this pass, as yielded
            fields['_catalogs'] = SymList(k, lambda i: mk_cat(key(i)), '_catalogs')
            o = c.obj(CF, **fields)
            try:
                r = c.inline(CF + '.__next__', o)
                out = ('return', r)
            except PyRaise as e:
                out = ('raise', e.cls.name)
            cnt = o.fields['_event_counts']
            s = c.ctx.fresh_int('j!sk')
            if out[0] == 'return':
                r = out[1]
                yield 'a catalog is yielded only before the end of the pass', k < J
                yield 'it is catalog k of the pass (filters applied iff configured)', z3.And(
                    z3.BoolVal(isinstance(r, Opaque) and r.name == 'catalog'), r.key == key(k) if isinstance(r, Opaque) else False)
                yield 'the cursor is k + 1', to_z3(o.fields['_idx']) == k + 1
                yield 'one count per catalog yielded so far', seq_len(cnt) == k + 1
                yield 'count j is the event count of catalog j of this pass, for every j <= k', z3.Implies(
                    z3.And(0 <= s, s <= k), to_z3(seq_get(cnt, s)) == EC(key(s)))
                st = o.fields.get('_catalogs')
                if store:
                    yield 'the yielded catalog is cached: the cache holds the k + 1 catalogs yielded so far', z3.And(
                        seq_len(st) == k + 1, z3.Implies(z3.And(0 <= s, s <= k), seq_key(st, s) == key(s)))
                else:
                    yield 'nothing is cached without store', seq_len(st) == k
            else:
                yield 'the only exception is StopIteration', z3.BoolVal(out[1] == 'StopIteration')
                yield 'exactly at the end of the pass', k == J
                yield 'the cursor is reset for the next pass', to_z3(o.fields['_idx']) == 0
                yield 'the number of catalogs is that of this pass', to_z3(o.fields['n_cat']) == J
                yield 'the counts left behind are those of this pass: one per catalog', z3.Implies(J > 0, seq_len(cnt) == J)
                if not (isinstance(cnt, list) and not cnt):
                    yield 'count j is the event count of catalog j of this pass', z3.Implies(
                        z3.And(J > 0, 0 <= s, s < J), to_z3(seq_get(cnt, s)) == EC(key(s)))
                cats = o.fields.get('catalogs')
                if store:
                    yield 'the cached catalogs become the collection', z3.BoolVal(isinstance(cats, SymList))
                    if isinstance(cats, SymList):
                        yield 'it holds the J catalogs of this pass, as yielded', z3.And(
                            seq_len(cats) == J, z3.Implies(z3.And(0 <= s, s < J), seq_key(cats, s) == key(s)))
                    yield 'filters are switched off: the cached catalogs are filtered already (no second application)', \
                        z3.BoolVal(o.fields.get('apply_filters') is False)
                    yield 'the cache is handed over (no second reference)', z3.BoolVal('_catalogs' not in o.fields)
                else:
                    yield 'a fresh generator is obtained from the loader', z3.BoolVal(isinstance(cats, Opaque) and getattr(cats, 'fresh', False))
                    yield 'the filter switch stays as configured (the catalogs are re-read unfiltered)', z3.BoolVal(o.fields.get('apply_filters') is apply_filters)
    PIG.__name__ = 'PassInductionGenerator_%s_%s' % (apply_filters, store)
    return PIG


for _af, _st in ((False, True), (True, True), (True, False), (False, False)):
    REG.add(pass_induction_generator_case(_af, _st))
    REG.add(event_counts_generator_case(_af, _st))
