"""Contracts for csep.core.forecasts.CatalogForecast (property C13): step relation of __next__ and the
bookkeeping invariants a complete pass rests on.  Catalogs are abstract values (key terms); filtering is
the uninterpreted, idempotent map FILT (idempotence = lemma L6_filter_idem)."""
import z3

from pyvc.contracts import contract
from pyvc.core import Opaque, SymList, PyRaise, builtin_exc, to_z3, simp
from pyvc.lib import method

CF = 'csep.core.forecasts.CatalogForecast'
CatSort = z3.DeclareSort('Catalog')
SRC = z3.Function('source_catalog', z3.IntSort(), CatSort)       # the J source catalogs s_0 .. s_{J-1}
FILT = z3.Function('filtered', CatSort, CatSort)                 # phi: configured filters applied
EC = z3.Function('event_count', CatSort, z3.IntSort())


def seq_len(x):
    return to_z3(x.n) if isinstance(x, SymList) else z3.IntVal(len(x))


def seq_get(x, i):
    """element i of a SymList / python list (i symbolic): for a python list, a case split over its positions"""
    if isinstance(x, SymList):
        return x.f(i)
    items = list(x)
    if not items:
        return None
    r = items[-1]
    for k in range(len(items) - 2, -1, -1):
        if isinstance(r, Opaque) or isinstance(items[k], Opaque):
            raise ValueError('object list')
        r = z3.If(to_z3(i) == k, to_z3(items[k]), to_z3(r))
    return r


def seq_key(x, i):
    """key of the catalog at position i of a catalog sequence"""
    if isinstance(x, SymList):
        return x.f(i).key
    items = list(x)
    r = items[-1].key
    for k in range(len(items) - 2, -1, -1):
        r = z3.If(to_z3(i) == k, items[k].key, r)
    return r


def mk_cat(key):
    return Opaque('catalog', key=key)


@method('catalog', 'filter')
def _cat_filter(L, cat, statements=None, in_place=True):
    return mk_cat(FILT(cat.key))


def _cat_getattr(self, I, name):
    if name == 'event_count':
        return EC(self.key)
    raise PyRaise(builtin_exc('AttributeError'), name)


def catalog_list(J, filtered=False):
    return SymList(J, lambda i: mk_cat(FILT(SRC(to_z3(i))) if filtered else SRC(to_z3(i))), 'catalogs')


def _obj(c, mode, apply_filters, store=True):
    J = c.int('J')
    idx = c.int('idx')
    c.ctx.assume(z3.And(J >= 0, idx >= 0, idx <= J))
    nE = c.int('n_counts')
    Ef = z3.Function('counts0', z3.IntSort(), z3.IntSort())
    counts = SymList(nE, lambda i: Ef(to_z3(i)), '_event_counts')
    c.ctx.assume(nE >= 0)
    fields = dict(_idx=idx, n_cat=J, _event_counts=counts, apply_filters=apply_filters, filters=['magnitude >= 4.0'],
                  apply_mct=False, filter_spatial=False, store=store, region=None, name='fc', event=None,
                  catalog_format='native', filename='f.csv')
    if mode == 'list':
        fields['catalogs'] = catalog_list(J)
    else:
        pos = idx

        def gen_next(I, J=J, pos=pos):
            if I.ctx.branch(to_z3(pos) < J):
                return mk_cat(SRC(to_z3(pos)))
            raise PyRaise(builtin_exc('StopIteration'), None)
        fields['catalogs'] = Opaque('generator', no_len=True, next=gen_next)
        nS = c.int('n_stored')
        c.ctx.assume(nS == idx)
        fields['_catalogs'] = SymList(nS, lambda i: mk_cat(FILT(SRC(to_z3(i))) if apply_filters is True else SRC(to_z3(i))), '_catalogs')
        fields['loader'] = Opaque('loader', call=lambda I, a, k: Opaque('generator', no_len=True, fresh=True))
    o = c.obj(CF, **fields)
    return o, J, idx, counts, nE, Ef


Opaque.getattr_catalog = None


def _patch_catalog_getattr():
    # abstract catalogs expose event_count
    from pyvc import lib as _lib
    orig = _lib.Lib.value_getattr

    def value_getattr(self, v, name):
        if isinstance(v, Opaque) and v.name == 'catalog' and name == 'event_count':
            return EC(v.key)
        return orig(self, v, name)
    _lib.Lib.value_getattr = value_getattr


_patch_catalog_getattr()


def next_case(mode, apply_filters, store=True):
    class Next:
        qualname = CF + '.__next__'
        case = '%s-backed, apply_filters=%s%s' % (mode, apply_filters, '' if mode == 'list' else ', store=%s' % store)
        properties = ('C13',)

        def params(c):
            o, J, idx, counts, nE, Ef = _obj(c, mode, apply_filters, store)
            return dict(self=o, _J=J, _idx=idx, _nE=nE, _Ef=Ef)

        def requires(c, self, _J, _idx, _nE, _Ef):
            # bookkeeping invariant inside a pass: one recorded count per catalog yielded so far
            return [z3.Implies(_idx > 0, _nE == _idx)]

        def ensures(c, r, self, _J, _idx, _nE, _Ef):
            yield 'a catalog is returned only while the pass is not finished', _idx < _J
            want = FILT(SRC(_idx)) if apply_filters else SRC(_idx)
            yield 'yields catalog number _idx of the pass (filters applied iff apply_filters)', z3.And(
                z3.BoolVal(isinstance(r, Opaque) and r.name == 'catalog'), r.key == want if isinstance(r, Opaque) else False)
            yield 'cursor advances by one', to_z3(self.fields['_idx']) == _idx + 1
            cnt = self.fields['_event_counts']
            yield 'event counts are those of the current pass only (one per catalog yielded so far)', seq_len(cnt) == _idx + 1
            yield 'the count recorded for this catalog is its event count', to_z3(seq_get(cnt, _idx)) == EC(want)
            k = c.ctx.fresh_int('k!sk')
            yield 'earlier counts of this pass are kept', z3.Implies(z3.And(0 <= k, k < _idx), to_z3(seq_get(cnt, k)) == _Ef(k))
            if mode == 'generator' and store:
                st = self.fields.get('_catalogs')
                yield 'the yielded catalog is cached for later passes', z3.And(seq_len(st) == _idx + 1, seq_key(st, _idx) == want)

        def raises(c, exc, self, _J, _idx, _nE, _Ef):
            if exc.name != 'StopIteration':
                return None
            out = [('StopIteration exactly at the end of the pass', _idx == _J),
                   ('cursor reset for the next pass', to_z3(self.fields['_idx']) == 0),
                   ('number of catalogs is that of one pass', to_z3(self.fields['n_cat']) == _J)]
            if mode == 'generator' and store:
                cats = self.fields.get('catalogs')
                out.append(('cached catalogs become the collection', z3.BoolVal(isinstance(cats, (SymList, list)))))
                out.append(('filters are not applied a second time to the cached (already filtered) catalogs',
                            z3.BoolVal(self.fields.get('apply_filters') is False)))
            if mode == 'generator' and not store:
                out.append(('catalogs are re-read from file on the next pass, so the filters stay switched on',
                            z3.BoolVal(self.fields.get('apply_filters') is apply_filters)))
                out.append(('a fresh generator is obtained from the loader', z3.BoolVal(
                    isinstance(self.fields.get('catalogs'), Opaque) and getattr(self.fields.get('catalogs'), 'fresh', False))))
            if mode == 'list':
                out.append(('list-backed: the filter switch is left as configured', z3.BoolVal(self.fields.get('apply_filters') is apply_filters)))
            return out
    Next.__name__ = 'Next_%s_%s_%s' % (mode, apply_filters, store)
    return Next


from pyvc.contracts import REG
for _m, _af, _st in (('list', False, True), ('list', True, True), ('generator', False, True), ('generator', True, True),
                     ('generator', True, False)):
    REG.add(next_case(_m, _af, _st))
