"""Sidecar contracts for functions of /repo (one module per repository module)."""
